#!/usr/bin/env python3
"""rig.py — live-daemon rig: rebuilds munged from /repo's current working tree (ASan, virtual clock
via -Wl,--wrap=time), runs it in a scratch directory, and speaks the wire protocol directly, with the
client identity (euid/egid) chosen per connection (SO_PEERCRED reports the effective ids at connect()).
"""
import glob, mmap, os, shutil, signal, socket, struct, subprocess, time
import vlib

MAGIC = 0x00606D4B
MAGIC_BYTES = bytes.fromhex("00606d4b")
VERSION = 4
T_ENC_REQ, T_ENC_RSP, T_DEC_REQ, T_DEC_RSP, T_AUTH_FD = 2, 3, 4, 5, 6
UID_ANY = 0xFFFFFFFF

MUNGED_SRCS = ["munged.c", "auth_recv.c", "base64.c", "cipher.c", "clock.c", "conf.c", "cred.c", "dec.c", "enc.c",
               "gids.c", "hash.c", "job.c", "lock.c", "net.c", "path.c", "random.c", "replay.c", "thread.c",
               "timer.c", "work.c", "zip.c"]
COMMON_SRCS = ["crypto.c", "entropy.c", "mac.c", "md.c", "query.c", "rotate.c", "xgetgr.c", "xgetpw.c", "xsignal.c"]
LIBCOMMON_SRCS = ["daemonpipe.c", "fd.c", "license.c", "log.c", "m_msg.c", "str.c", "version.c"]
LIBMISSING_SRCS = ["strlcpy.c", "strlcat.c"]
LIBMUNGE_SRCS = ["strerror.c", "enum.c"]
LIBS = ["-lpthread", "-lbz2", "-lrt", "-lz", "-lcrypto"]


def daemon_sources():
    R = vlib.REPO
    s = [os.path.join(R, "src/munged", f) for f in MUNGED_SRCS]
    s += [os.path.join(R, "src/common", f) for f in COMMON_SRCS]
    s += [os.path.join(R, "src/libcommon", f) for f in LIBCOMMON_SRCS]
    s += [os.path.join(R, "src/libmissing", f) for f in LIBMISSING_SRCS]
    s += [os.path.join(R, "src/libmunge", f) for f in LIBMUNGE_SRCS]
    return s


def build_daemon(ctx, name="munged", san="address", vclock=True, extra_defs=(), extra_src=(), wraps=()):
    """Compile the whole daemon from /repo's working tree. san in {"address","thread",None}."""
    exe = os.path.join(ctx.tmp, name)
    flags = ["-g", "-O1", "-fno-omit-frame-pointer"]
    if san == "address":
        flags += ["-fsanitize=address"]
    elif san == "thread":
        flags += ["-fsanitize=thread"]
    src = daemon_sources() + list(extra_src)
    wl = []
    w = list(wraps)
    if vclock:
        src.append(os.path.join(vlib.HARNESS, "vclock.c"))
        w.append("time")
    if w:
        wl = ["-Wl," + ",".join("--wrap=" + x for x in w)]
    cmd = ["gcc", "-w"] + flags + vlib.DEFS + list(extra_defs) + vlib.INCS + ["-o", exe] + src + wl + LIBS
    rc, out, err = vlib.sh(cmd, timeout=600)
    if rc != 0:
        return None, err[-4000:]
    return exe, ""


VTIMER_WRAPS = ["clock_gettime", "pthread_cond_timedwait"]


def vtimer_src():
    return [os.path.join(vlib.HARNESS, "vtimer.c")]


class Daemon:
    def __init__(self, ctx, exe, tag="d", key=None, nthreads=2, max_ttl=None, extra=(), env=None, clock=None, nss_db=None,
                 foreground=True, launcher=()):
        """foreground=False starts munged the way the shipped service files do (no -F: it forks into the background, the
        process we spawn exits once the daemon is up; the daemon's pid is read from its pid file)"""
        self.foreground = foreground
        self.dpid = None
        self.ctx = ctx
        self.exe = exe
        self.dir = os.path.join(ctx.tmp, "%s-%d" % (tag, len(os.listdir(ctx.tmp))))
        os.makedirs(self.dir, mode=0o755)
        os.chmod(ctx.tmp, 0o755)
        self.sock = os.path.join(self.dir, "s")
        self.keyfile = os.path.join(self.dir, "key")
        self.key = key if key is not None else bytes(ctx.rng.getrandbits(8) for _ in range(32))
        with open(self.keyfile, "wb") as f:
            f.write(self.key)
        os.chmod(self.keyfile, 0o600)
        self.clockfile = os.path.join(self.dir, "clock")
        with open(self.clockfile, "wb") as f:
            f.write(struct.pack("<qq", clock if clock is not None else 0, 0))
        self._clk = open(self.clockfile, "r+b")
        self._mm = mmap.mmap(self._clk.fileno(), 16)
        self._toff = 0
        self.asan_log = os.path.join(self.dir, "asan")
        self.logfile = os.path.join(self.dir, "log")
        self.pidfile = os.path.join(self.dir, "pid")
        self.args = list(launcher) + [exe] + (["-F"] if foreground else []) + ["-S", self.sock, "--key-file=" + self.keyfile,
                     "--pid-file=" + os.path.join(self.dir, "pid"), "--seed-file=" + os.path.join(self.dir, "seed"),
                     "--log-file=" + self.logfile,
                     "--num-threads=%d" % nthreads] + \
                    (["--group-update-time=0", "--group-check-mtime=0"] if nss_db is not None else ["--group-update-time=-1"]) \
                    + list(extra)
        self.nss_db = None
        if nss_db is not None:
            self.nss_db = os.path.join(self.dir, "nssdb")
            self.write_nss(nss_db)
        if max_ttl is not None:
            self.args.append("--max-ttl=%d" % max_ttl)
        self.env = dict(os.environ)
        self.env.update({"ASAN_OPTIONS": "detect_leaks=1:log_path=%s:abort_on_error=0:exitcode=99:allocator_may_return_null=1" % self.asan_log,
                         "TSAN_OPTIONS": "log_path=%s:exitcode=98" % self.asan_log,
                         "VERIF_CLOCK_FILE": self.clockfile})
        if self.nss_db:
            self.env["VERIF_NSS_DB"] = self.nss_db
        if env:
            self.env.update(env)
        self.p = None

    def write_nss(self, db):
        """db = {"groups": [(gid, [names])], "users": [(name, uid) | (name, uid, gecos_length)]}"""
        with open(self.nss_db + ".tmp", "w") as f:
            for gid, names in db.get("groups", []):
                f.write("g %d %s\n" % (gid, ",".join(names) if names else "-"))
            for u in db.get("users", []):      # (name, uid) or (name, uid, gecos_length)
                f.write("u %s %d%s\n" % (u[0], u[1], (" %d" % u[2]) if len(u) > 2 and u[2] else ""))
        os.replace(self.nss_db + ".tmp", self.nss_db)

    def sighup(self, settle=0.3):
        if self.foreground:
            self.p.send_signal(signal.SIGHUP)
        elif self.dpid:
            os.kill(self.dpid, signal.SIGHUP)
        time.sleep(settle)

    def set_clock(self, t):
        """t = 0 means: real time"""
        self._mm[0:8] = struct.pack("<q", t)

    def advance_timers(self, ms, settle=0.25):
        """daemons built with vtimer_src()/VTIMER_WRAPS: every pending timer sees the clock ms further on; the timer thread
        waits in 50 ms slices (harness/vtimer.c), so due timers fire within the settle time"""
        self._toff += ms
        self._mm[8:16] = struct.pack("<q", self._toff)
        time.sleep(settle)

    def start(self, wait=10.0):
        # stderr goes to a file: a pipe nobody drains fills up after ~2000 log lines and blocks the daemon
        self._errf = open(os.path.join(self.dir, "stderr"), "wb")
        self.p = subprocess.Popen(self.args, env=self.env, stdout=subprocess.DEVNULL, stderr=self._errf,
                                  cwd=self.dir)
        import atexit
        atexit.register(self._kill)
        t0 = time.time()
        while time.time() - t0 < wait:
            if os.path.exists(self.sock):
                try:
                    s = socket.socket(socket.AF_UNIX, socket.SOCK_STREAM)
                    s.connect(self.sock)
                    s.close()
                    if not self.foreground:
                        try:
                            self.dpid = int(open(self.pidfile).read().split()[0])
                        except (OSError, ValueError, IndexError):
                            time.sleep(0.02)
                            continue
                    return True
                except OSError:
                    pass
            if self.p.poll() is not None and (self.foreground or self.p.returncode != 0):
                return False
            time.sleep(0.02)
        return False

    def signal(self, sig):
        """deliver a signal to the daemon process (the forked one when it runs in the background)"""
        if self.foreground:
            self.p.send_signal(sig)
        elif self.dpid:
            os.kill(self.dpid, sig)

    def _kill(self):
        try:
            if self.p is not None and self.p.poll() is None:
                self.p.kill()
            if self.dpid:
                os.kill(self.dpid, 9)
        except Exception:
            pass

    def alive(self):
        if not self.foreground:
            if not self.dpid:
                return False
            try:
                os.kill(self.dpid, 0)
                return open("/proc/%d/stat" % self.dpid).read().split()[2] != "Z"
            except OSError:
                return False
        return self.p is not None and self.p.poll() is None

    def stop(self, timeout=20.0):
        """SIGTERM, wait; returns (exit code, sanitizer report text)"""
        rc = None
        if not self.foreground:
            if self.dpid and self.alive():
                os.kill(self.dpid, signal.SIGTERM)
                t0 = time.time()
                while self.alive() and time.time() - t0 < timeout:
                    time.sleep(0.05)
                    if time.time() - t0 > 1.0:
                        try:
                            s = socket.socket(socket.AF_UNIX, socket.SOCK_STREAM)
                            s.settimeout(0.2)
                            s.connect(self.sock)
                            s.close()
                        except OSError:
                            pass
                if self.alive():
                    os.kill(self.dpid, 9)
                    rc = -9
                else:
                    rc = 0
            self.dpid = None
            try:
                self.p.wait(timeout=5)
                self._errf.close()
                self.stderr = open(os.path.join(self.dir, "stderr"), errors="replace").read()
            except Exception:
                self.stderr = ""
            return rc, self.sanitizer_report()
        if self.p is not None:
            if self.p.poll() is None:
                self.p.send_signal(signal.SIGTERM)
                # a SIGTERM between the flag test and accept() is only noticed at the next connection
                t0 = time.time()
                while self.p.poll() is None and time.time() - t0 < timeout:
                    time.sleep(0.05)
                    if time.time() - t0 > 1.0:
                        try:
                            s = socket.socket(socket.AF_UNIX, socket.SOCK_STREAM)
                            s.settimeout(0.2)
                            s.connect(self.sock)
                            s.close()
                        except OSError:
                            pass
                if self.p.poll() is None:
                    self.p.kill()
            rc = self.p.wait()
            try:
                self._errf.close()
                self.stderr = open(os.path.join(self.dir, "stderr"), errors="replace").read()
            except Exception:
                self.stderr = ""
        return rc, self.sanitizer_report()

    def sanitizer_report(self):
        """sanitizer errors/leaks; allocator warnings for malloc() calls that legitimately fail are dropped"""
        rep = ""
        for f in glob.glob(self.asan_log + ".*"):
            txt = open(f, errors="replace").read()
            txt = "\n".join(l for l in txt.splitlines()
                            if "WARNING: AddressSanitizer failed to allocate" not in l)
            if txt.strip():
                rep += txt + "\n"
        return rep

    def log_text(self):
        """what the daemon has logged so far: a foreground daemon (-F) logs to its stderr (a file in its directory), a
        daemonized one to --log-file"""
        txt = ""
        for f in (os.path.join(self.dir, "stderr"), self.logfile):
            try:
                txt += open(f, errors="replace").read()
            except OSError:
                pass
        return txt


# ---------------------------------------------------------------------------
# wire protocol
# ---------------------------------------------------------------------------
def hdr(mtype, retry, length, magic=MAGIC, version=VERSION):
    return struct.pack(">IBBBI", magic, version, mtype, retry, length & 0xFFFFFFFF)


def enc_req_body(cipher=1, mac=1, zip_=1, realm=b"", ttl=0, auth_uid=UID_ANY, auth_gid=UID_ANY, data=b"",
                 realm_len=None, data_len=None):
    rl = len(realm) if realm_len is None else realm_len
    dl = len(data) if data_len is None else data_len
    return struct.pack(">BBBB", cipher, mac, zip_, rl & 0xFF) + realm + \
        struct.pack(">III", ttl & 0xFFFFFFFF, auth_uid & 0xFFFFFFFF, auth_gid & 0xFFFFFFFF) + \
        struct.pack(">I", dl & 0xFFFFFFFF) + data


def dec_req_body(cred, data_len=None):
    dl = len(cred) if data_len is None else data_len
    return struct.pack(">I", dl & 0xFFFFFFFF) + cred


def connect_as(path, uid=None, gid=None, timeout=5.0):
    s = socket.socket(socket.AF_UNIX, socket.SOCK_STREAM)
    s.settimeout(timeout)
    if uid is None and gid is None:
        s.connect(path)
        return s
    try:
        if gid is not None:
            os.setegid(gid)
        if uid is not None:
            os.seteuid(uid)
        s.connect(path)
    finally:
        os.seteuid(0)
        os.setegid(0)
    return s


def recv_all(s, n):
    b = b""
    while len(b) < n:
        c = s.recv(n - len(b))
        if not c:
            break
        b += c
    return b


class DaemonUnresponsive(Exception):
    """complete, well-formed requests went unanswered several times in a row: the daemon no longer serves"""

    def __init__(self, path, history):
        Exception.__init__(self, "daemon at %s left %d consecutive complete requests unanswered" % (path, SILENCE_LIMIT))
        self.history = history


SILENCE_LIMIT = 4
_silent = {}
_history = []


def transact(path, raw, uid=None, gid=None, timeout=5.0):
    """Send raw bytes (header+body), read one reply. Returns (hdr_tuple or None, body bytes, raw reply).
    A request whose header announces exactly the bytes that follow is owed a reply; SILENCE_LIMIT such requests in a row
    that time out raise DaemonUnresponsive (reported by vlib.main_entry as a violation with the request history) instead
    of letting a check crawl through thousands of 5-second timeouts against a deadlocked daemon."""
    r = _transact(path, raw, uid, gid, timeout)
    complete = len(raw) >= 11 and raw[:4] == MAGIC_BYTES and struct.unpack(">I", raw[7:11])[0] == len(raw) - 11
    _history.append({"uid": uid, "gid": gid, "req_hex": raw[:400].hex(), "req_len": len(raw), "status": r[3]})
    del _history[:-40]
    if r[3] == "timeout" and complete:
        _silent[path] = _silent.get(path, 0) + 1
        if _silent[path] >= SILENCE_LIMIT:
            _silent[path] = 0
            raise DaemonUnresponsive(path, list(_history))
    elif r[3] == "ok":
        _silent[path] = 0
    return r


def _transact(path, raw, uid=None, gid=None, timeout=5.0):
    try:
        s = connect_as(path, uid, gid, timeout)
    except OSError as e:
        return None, b"", b"", "connect: %s" % e
    try:
        try:
            s.sendall(raw)
        except OSError:
            pass
        try:
            h = recv_all(s, 11)
        except (socket.timeout, OSError):
            return None, b"", b"", "timeout"
        if len(h) < 11:
            return None, b"", h, "closed"
        magic, ver, mtype, retry, ln = struct.unpack(">IBBBI", h)
        try:
            body = recv_all(s, ln) if ln <= (1 << 24) else b""
        except (socket.timeout, OSError):
            body = b""
        return (magic, ver, mtype, retry, ln), body, h + body, "ok"
    finally:
        s.close()


class ParseError(Exception):
    pass


def _take(b, off, n):
    if off + n > len(b):
        raise ParseError("short")
    return b[off:off + n], off + n


def parse_enc_rsp(body):
    off = 0
    x, off = _take(body, off, 2)
    err, elen = x[0], x[1]
    estr, off = _take(body, off, elen)
    x, off = _take(body, off, 4)
    dl = struct.unpack(">I", x)[0]
    data, off = _take(body, off, dl)
    return {"error_num": err, "error_str": estr.rstrip(b"\0").decode(errors="replace"), "data": data,
            "data_len": dl, "trailing": len(body) - off}


def parse_dec_rsp(body):
    off = 0
    x, off = _take(body, off, 2)
    err, elen = x[0], x[1]
    estr, off = _take(body, off, elen)
    x, off = _take(body, off, 4)
    cipher, mac, zip_, rl = x
    realm, off = _take(body, off, rl)
    x, off = _take(body, off, 5)
    ttl, al = struct.unpack(">IB", x)
    addr, off = _take(body, off, al)
    x, off = _take(body, off, 28)
    t0, t1, cu, cg, au, ag, dl = struct.unpack(">IIIIIII", x)
    data, off = _take(body, off, dl)
    return {"error_num": err, "error_str": estr.rstrip(b"\0").decode(errors="replace"), "cipher": cipher, "mac": mac,
            "zip": zip_, "realm_len": rl, "realm": realm, "ttl": ttl, "addr_len": al, "addr": addr, "time0": t0,
            "time1": t1, "cred_uid": cu, "cred_gid": cg, "auth_uid": au, "auth_gid": ag, "data_len": dl,
            "data": data, "trailing": len(body) - off}


def encode(path, uid=None, gid=None, retry=0, **kw):
    body = enc_req_body(**kw)
    h, b, raw, st = transact(path, hdr(T_ENC_REQ, retry, len(body)) + body, uid, gid)
    if h is None:
        return None, st
    if h[2] != T_ENC_RSP:
        return None, "unexpected type %d" % h[2]
    try:
        return parse_enc_rsp(b), "ok"
    except ParseError:
        return None, "malformed ENC_RSP"


def decode(path, cred, uid=None, gid=None, retry=0):
    body = dec_req_body(cred)
    h, b, raw, st = transact(path, hdr(T_DEC_REQ, retry, len(body)) + body, uid, gid)
    if h is None:
        return None, st
    if h[2] != T_DEC_RSP:
        return None, "unexpected type %d" % h[2]
    try:
        return parse_dec_rsp(b), "ok"
    except ParseError:
        return None, "malformed DEC_RSP"


def canary(path):
    """A plain encode+decode must succeed with identical payload."""
    payload = b"canary-%d" % time.time_ns()
    r, st = encode(path, data=payload)
    if r is None or r["error_num"] != 0:
        return "canary encode failed: %s %s" % (st, r and r["error_str"])
    d, st = decode(path, r["data"])
    if d is None or d["error_num"] != 0 or d["data"] != payload:
        return "canary decode failed: %s %s" % (st, d and (d["error_num"], d["error_str"]))
    return None


LIBMUNGE_SRCS = ["auth_send.c", "ctx.c", "decode.c", "encode.c", "enum.c", "m_msg_client.c", "strerror.c"]


def build_lmclient(ctx, san="address", wraps=(), extra_src=(), name="lmclient"):
    """lmclient linked against libmunge built from /repo's sources"""
    R = vlib.REPO
    src = [os.path.join(vlib.HARNESS, "lmclient.c")]
    src += [os.path.join(R, "src/libmunge", f) for f in LIBMUNGE_SRCS]
    src += [os.path.join(R, "src/libcommon", f) for f in ("fd.c", "m_msg.c", "str.c", "log.c", "daemonpipe.c")]
    src += [os.path.join(R, "src/libmissing", f) for f in LIBMISSING_SRCS] + list(extra_src)
    exe = os.path.join(ctx.tmp, name)
    flags = ["-g", "-O1"] + (["-fsanitize=address"] if san == "address" else [])
    wl = ["-Wl," + ",".join("--wrap=" + x for x in wraps)] if wraps else []
    cmd = ["gcc", "-w"] + flags + vlib.DEFS + vlib.INCS + ["-o", exe] + src + wl + ["-lpthread"]
    rc, out, err = vlib.sh(cmd, timeout=300)
    if rc != 0:
        return None, err[-3000:]
    return exe, ""


def decode_undeliverable(path, cred, uid=None, gid=None, retry=0, settle=0.08):
    """Send a DEC_REQ from a client that has shut down its receiving side: munged processes the request but its
    m_msg_send fails (EPIPE).  Returns nothing."""
    body = dec_req_body(cred)
    s = connect_as(path, uid, gid)
    try:
        s.shutdown(socket.SHUT_RD)
        s.sendall(hdr(T_DEC_REQ, retry, len(body)) + body)
        time.sleep(settle)
    except OSError:
        pass
    finally:
        s.close()
