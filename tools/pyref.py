#!/usr/bin/env python3
"""pyref.py — small Python reference for the v3 credential format, cipher NONE only (no block cipher in the
Python stdlib).  Used to mint validly MAC'd credentials with arbitrary interiors for the hostile-input streams and
as a second opinion next to the extracted Coq oracle (which covers the ciphers through libgcrypt)."""
import base64, bz2, hashlib, hmac, struct, zlib

MAC_ALG = {2: "md5", 3: "sha1", 4: "ripemd160", 5: "sha256", 6: "sha512"}
ZIP_MAGIC = 0xCACACACA


def subkeys(key):
    return hashlib.sha1(key + b"1").digest(), hashlib.sha1(key + b"2").digest()


def mac_supported(alg):
    try:
        hashlib.new(MAC_ALG[alg])
        return True
    except Exception:
        return False


def tag(key, mac, data, mac_key=None):
    """mac_key overrides the MAC subkey SHA1(key||"2") (for forgeries under guessed / well-known subkeys)"""
    return hmac.new(subkeys(key)[1] if mac_key is None else mac_key, data, MAC_ALG[mac]).digest()


def inner(salt=b"\0" * 8, addr=b"\x7f\0\0\1", time0=0, ttl=300, uid=0, gid=0, auth_uid=0xFFFFFFFF,
          auth_gid=0xFFFFFFFF, data=b"", addr_len=None, data_len=None):
    al = len(addr) if addr_len is None else addr_len
    dl = len(data) if data_len is None else data_len
    return salt + bytes([al & 0xFF]) + addr + struct.pack(">IIIIIII", time0 & 0xFFFFFFFF, ttl & 0xFFFFFFFF,
           uid & 0xFFFFFFFF, gid & 0xFFFFFFFF, auth_uid & 0xFFFFFFFF, auth_gid & 0xFFFFFFFF, dl & 0xFFFFFFFF) + data


def zip_wrap(z, raw, claimed=None, magic=ZIP_MAGIC):
    comp = zlib.compress(raw) if z == 3 else bz2.compress(raw)
    return struct.pack(">II", magic, len(raw) if claimed is None else claimed) + comp


def mint_raw(key, outer, inner_bytes, mac=5, tag_override=None, mac_key=None):
    """outer||tag||inner with the tag computed over outer||inner (cipher NONE: inner sent in clear)."""
    t = tag(key, mac, outer + inner_bytes, mac_key) if tag_override is None else tag_override
    return outer + t + inner_bytes


def armor(body):
    return b"MUNGE:" + base64.b64encode(body) + b":\0"


def mint(key, mac=5, zip_=0, realm=b"", inner_bytes=None, version=3, cipher=0, mac_key=None, **kw):
    if inner_bytes is None:
        inner_bytes = inner(**kw)
        if zip_ in (2, 3):
            inner_bytes = zip_wrap(zip_, inner_bytes)
    outer = bytes([version, cipher, mac, zip_, len(realm) & 0xFF]) + realm
    return armor(mint_raw(key, outer, inner_bytes, mac, mac_key=mac_key))
