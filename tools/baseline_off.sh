#!/bin/bash
# Runs the repository's own test suite on a scratch copy of /repo with the verification guard OFF.
set -e
D=$(mktemp -d /tmp/verif-baseline-XXXXXX)
trap 'rm -rf "$D"' EXIT
rsync -a --exclude .git /repo/ "$D/repo/"
cd "$D/repo"
make -j16 >/dev/null 2>&1 || make -j16
make check -j8 2>&1 | tail -40
