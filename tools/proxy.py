#!/usr/bin/env python3
"""proxy.py — fault-injecting Unix-socket proxy between libmunge and munged (C13).

A FaultProxy listens on its own socket path and forwards each accepted connection to the daemon.  The n-th
connection (n = 0, 1, ...) is treated according to plan[n]:
    None                     clean: request forwarded, reply forwarded
    ("Q", k)                 request cut on the way: the client's complete request is read (its write succeeded), only the
                             first k bytes reach the daemon, then both sides are closed (the daemon sees a short header/body
                             and processes nothing; the client sees EOF where the reply should be)
    ("W", k)                 request cut while it is being written: only k bytes are taken from the client, they are passed on
                             to the daemon, then both sides are closed with the rest of the request unread.  A client whose
                             request does not fit into the socket send buffer (or, for k = 0, a client that writes after the
                             close) gets EPIPE/ECONNRESET from its write; a client whose write had completed gets ECONNRESET
                             from its read.  The daemon processes nothing.
    ("L", k)                 reply lost: the daemon's complete reply is read (its send succeeded), only the first
                             k bytes are passed on to the client, then the connection is closed
    ("S", 0)                 reply send failed: the daemon-side socket is shut down for reading before the full request
                             is forwarded, so that the daemon's m_msg_send fails (EPIPE) and it rolls back
    ("H", k)                 reply cut in the MIDDLE on the daemon's side: the request is forwarded, k >= 1 bytes of the reply are
                             taken from the daemon, then the daemon-side socket is closed while the daemon still has reply bytes
                             to write (meaningful for replies larger than the socket send buffer: the daemon sits in poll() for
                             buffer space and gets POLLHUP, or EPIPE from its next writev).  The k bytes are passed on to the
                             client, then its connection is closed.  Returns only when the daemon has closed its end too
                             (it does so after dec_process_msg, i.e. after the roll-back).
    ("C", 0)                 connection refused: before the n-th connection can be attempted the proxy stops listening (the
                             socket file stays), so connect() fails with ECONNREFUSED until the next set_plan()
Connections beyond the plan are clean.  One connection at a time (libmunge is sequential)."""
import os, select, socket, struct, threading, time


def _recv_msg(s, timeout=5.0):
    """read one munge message (11-byte header + body) or whatever arrives before EOF"""
    s.settimeout(timeout)
    buf = b""
    try:
        while len(buf) < 11:
            c = s.recv(11 - len(buf))
            if not c:
                return buf
            buf += c
        ln = struct.unpack(">I", buf[7:11])[0]
        while len(buf) < 11 + ln:
            c = s.recv(min(1 << 20, 11 + ln - len(buf)))
            if not c:
                break
            buf += c
    except (socket.timeout, OSError):
        pass
    return buf


def _recv_n(s, n, timeout=5.0):
    s.settimeout(timeout)
    buf = b""
    try:
        while len(buf) < n:
            c = s.recv(min(65536, n - len(buf)))
            if not c:
                break
            buf += c
    except (socket.timeout, OSError):
        pass
    return buf


class FaultProxy:
    def __init__(self, listen_path, daemon_path):
        self.listen_path = listen_path
        self.daemon_path = daemon_path
        self.plan = []
        self.count = 0
        self.log = []
        self.wire_retry = []        # (connection index, retry byte of the request header as it arrived)
        self.ls = None
        self.stop = False
        self._lock = threading.Lock()
        self._wr, self._ww = os.pipe()
        self._cmds = []
        self._listen()
        self.t = threading.Thread(target=self._run, daemon=True)
        self.t.start()

    # ------------------------------------------------------------------ listening socket
    def _listen(self):
        if self.ls is not None:
            return
        if os.path.exists(self.listen_path):
            os.unlink(self.listen_path)
        ls = socket.socket(socket.AF_UNIX, socket.SOCK_STREAM)
        ls.bind(self.listen_path)
        os.chmod(self.listen_path, 0o777)
        ls.listen(16)
        self.ls = ls

    def _unlisten(self):
        """stop listening but leave the socket file: connect() is refused"""
        if self.ls is not None:
            self.ls.close()
            self.ls = None

    def _next_is_refuse(self):
        f = self.plan[self.count] if self.count < len(self.plan) else None
        return bool(f) and f[0] == "C"

    # ------------------------------------------------------------------ control (called from the check's thread)
    def _command(self, fn):
        ev = threading.Event()
        with self._lock:
            self._cmds.append((fn, ev))
        os.write(self._ww, b"x")
        if not ev.wait(10):
            raise RuntimeError("fault proxy does not respond")

    def set_plan(self, plan):
        def apply():
            self.plan = [tuple(f) if f else None for f in plan]
            self.count = 0
            self.log = []
            self.wire_retry = []
            if self._next_is_refuse():
                self._unlisten()
                self.log.append(("C", 0))
            else:
                self._listen()
        self._command(apply)

    def close(self):
        self.stop = True
        try:
            os.write(self._ww, b"x")
        except OSError:
            pass
        self.t.join(3)
        self._unlisten()
        for fd in (self._wr, self._ww):
            try:
                os.close(fd)
            except OSError:
                pass
        try:
            os.unlink(self.listen_path)
        except OSError:
            pass

    # ------------------------------------------------------------------ proxy thread
    def _run(self):
        while not self.stop:
            rl = [self._wr] + ([self.ls] if self.ls is not None else [])
            try:
                r, _, _ = select.select(rl, [], [], 1.0)
            except (OSError, ValueError):
                continue
            if self._wr in r:
                try:
                    os.read(self._wr, 64)
                except OSError:
                    pass
                with self._lock:
                    cmds, self._cmds = self._cmds, []
                for fn, ev in cmds:
                    try:
                        fn()
                    finally:
                        ev.set()
                continue
            if self.ls is None or self.ls not in r:
                continue
            try:
                c, _ = self.ls.accept()
            except OSError:
                continue
            n = self.count
            self.count += 1
            f = self.plan[n] if n < len(self.plan) else None
            try:
                self._handle(c, f)
            except OSError as e:
                self.log.append(("error", n, str(e)))
            finally:
                # the next connection is to be refused: stop listening BEFORE this client learns that its connection is over
                if self._next_is_refuse():
                    self._unlisten()
                    self.log.append(("C", 0))
                try:
                    c.close()
                except OSError:
                    pass

    def _handle(self, c, f):
        if f and f[0] == "W":
            k = f[1]
            part = _recv_n(c, k) if k > 0 else b""
            if len(part) > 6:
                self.wire_retry.append((self.count - 1, part[6]))
            d = socket.socket(socket.AF_UNIX, socket.SOCK_STREAM)
            try:
                d.connect(self.daemon_path)
                if part:
                    d.sendall(part)
            finally:
                d.close()
            self.log.append(("W", len(part)))
            return          # the caller closes c with the rest of the request unread
        req = _recv_msg(c)
        if len(req) > 6:
            self.wire_retry.append((self.count - 1, req[6]))
        d = socket.socket(socket.AF_UNIX, socket.SOCK_STREAM)
        d.connect(self.daemon_path)
        try:
            if f and f[0] == "Q":
                k = min(f[1], max(len(req) - 1, 0))
                d.sendall(req[:k])
                d.close()
                self.log.append(("Q", k, len(req)))
                return
            if f and f[0] == "S":
                # the daemon-side socket refuses incoming data from the start, so the daemon's write of the reply fails
                # (EPIPE) however fast it is; closing only afterwards would race with the reply
                d.shutdown(socket.SHUT_RD)
                d.sendall(req)
                self._await_peer_close(d)
                d.close()
                self.log.append(("S", len(req)))
                return
            d.sendall(req)
            if f and f[0] == "H":
                part = _recv_n(d, max(1, f[1]))
                time.sleep(0.03)        # the daemon has filled the socket buffer and waits in poll() for space
                d.close()
                idle = self._await_daemon_idle()
                try:
                    c.sendall(part)
                except OSError:
                    pass
                self.log.append(("H", len(part), idle))
                return
            rsp = _recv_msg(d)
            if f and f[0] == "L":
                k = min(f[1], max(len(rsp) - 1, 0))
                c.sendall(rsp[:k])
                self.log.append(("L", k, len(rsp)))
                return
            c.sendall(rsp)
            self.log.append(("clean", len(req), len(rsp), req[6] if len(req) > 6 else -1))
        finally:
            try:
                d.close()
            except OSError:
                pass

    def _await_daemon_idle(self, limit=3.0):
        """wait until munged holds no accepted connection any more (/proc/net/unix lists the listener and every accepted
        socket under the bound path): whatever it does after a failed or successful send (roll-back, close) is done"""
        t0 = time.time()
        suffix = " " + self.daemon_path
        while time.time() - t0 < limit:
            try:
                n = sum(1 for l in open("/proc/net/unix") if l.rstrip("\n").endswith(suffix))
            except OSError:
                return False
            if n <= 1:
                return True
            time.sleep(0.005)
        return False

    @staticmethod
    def _await_peer_close(d, limit=3.0):
        """wait until the daemon has given up on this connection: munged closes the socket after dec_process_msg returned,
        i.e. after its failed write AND the roll-back; POLLHUP is reported when both directions are shut down"""
        p = select.poll()
        p.register(d, select.POLLHUP | select.POLLERR)
        t0 = time.time()
        while time.time() - t0 < limit:
            if any(e & (select.POLLHUP | select.POLLERR) for _, e in p.poll(20)):
                return True
        return False
