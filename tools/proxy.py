#!/usr/bin/env python3
"""proxy.py — fault-injecting Unix-socket proxy between libmunge and munged (C13).

A FaultProxy listens on its own socket path and forwards each accepted connection to the daemon.  The n-th
connection (n = 0, 1, ...) is treated according to plan[n]:
    None                     clean: request forwarded, reply forwarded
    ("Q", k)                 request cut: only the first k bytes of the request reach the daemon, then both
                             sides are closed (the daemon sees a short header/body and processes nothing)
    ("L", k)                 reply lost: the daemon's complete reply is read (its send succeeded), only the first
                             k bytes are passed on to the client, then the connection is closed
    ("S", 0)                 reply send failed: the daemon-side socket is shut down for reading before the full request
                             is forwarded, so that the daemon's m_msg_send fails (EPIPE) and it rolls back
Connections beyond the plan are clean.  One connection at a time (libmunge is sequential)."""
import os, socket, struct, threading


def _recv_msg(s, timeout=5.0):
    """read one munge message (11-byte header + body) or whatever arrives before EOF"""
    s.settimeout(timeout)
    buf = b""
    try:
        while len(buf) < 11:
            c = s.recv(11 - len(buf))
            if not c:
                return buf
            buf += c
        ln = struct.unpack(">I", buf[7:11])[0]
        while len(buf) < 11 + ln:
            c = s.recv(min(65536, 11 + ln - len(buf)))
            if not c:
                break
            buf += c
    except (socket.timeout, OSError):
        pass
    return buf


class FaultProxy:
    def __init__(self, listen_path, daemon_path):
        self.listen_path = listen_path
        self.daemon_path = daemon_path
        self.plan = []
        self.count = 0
        self.log = []
        self.ls = socket.socket(socket.AF_UNIX, socket.SOCK_STREAM)
        if os.path.exists(listen_path):
            os.unlink(listen_path)
        self.ls.bind(listen_path)
        os.chmod(listen_path, 0o777)
        self.ls.listen(16)
        self.stop = False
        self.t = threading.Thread(target=self._run, daemon=True)
        self.t.start()

    def set_plan(self, plan):
        self.plan = list(plan)
        self.count = 0
        self.log = []

    def close(self):
        self.stop = True
        try:
            k = socket.socket(socket.AF_UNIX, socket.SOCK_STREAM)
            k.connect(self.listen_path)
            k.close()
        except OSError:
            pass
        self.t.join(2)
        self.ls.close()
        try:
            os.unlink(self.listen_path)
        except OSError:
            pass

    def _run(self):
        while not self.stop:
            try:
                c, _ = self.ls.accept()
            except OSError:
                return
            if self.stop:
                c.close()
                return
            n = self.count
            self.count += 1
            f = self.plan[n] if n < len(self.plan) else None
            try:
                self._handle(c, f)
            except OSError as e:
                self.log.append(("error", n, str(e)))
            finally:
                try:
                    c.close()
                except OSError:
                    pass

    def _handle(self, c, f):
        req = _recv_msg(c)
        d = socket.socket(socket.AF_UNIX, socket.SOCK_STREAM)
        d.connect(self.daemon_path)
        try:
            if f and f[0] == "Q":
                k = min(f[1], max(len(req) - 1, 0))
                d.sendall(req[:k])
                d.close()
                self.log.append(("Q", k, len(req)))
                return
            if f and f[0] == "S":
                # the daemon-side socket refuses incoming data from the start, so the daemon's write of the reply fails
                # (EPIPE) however fast it is; closing only afterwards would race with the reply
                d.shutdown(socket.SHUT_RD)
                d.sendall(req)
                import time as _t
                _t.sleep(0.05)
                d.close()
                self.log.append(("S", len(req)))
                return
            d.sendall(req)
            rsp = _recv_msg(d)
            if f and f[0] == "L":
                k = min(f[1], max(len(rsp) - 1, 0))
                c.sendall(rsp[:k])
                self.log.append(("L", k, len(rsp)))
                return
            c.sendall(rsp)
            self.log.append(("clean", len(req), len(rsp)))
        finally:
            try:
                d.close()
            except OSError:
                pass
