#!/usr/bin/env python3
"""vlib.py — shared machinery for the per-property checks.

Flow of a check (DESIGN.md sec. 2-4):
  facts  -> regenerate coq/gen/*.v from /repo (translator tie)
  prove  -> audit sources, rebuild the property's .vo cone, read Print Assumptions
  corr   -> build C harness / daemon from /repo, run implementation and the
            extracted oracle on the same cases, diff canonical outputs
  search -> on a broken proof or correspondence, look for a concrete failing
            input on the implementation
  verdict-> evidence/<id>.json, VIOLATION / KNOWN-FINDING lines, exit code
"""
import fcntl, hashlib, json, os, random, re, shutil, signal, subprocess, sys, tempfile, time, atexit

REPO = os.environ.get("VERIF_REPO", "/repo")
VERIF = os.path.dirname(os.path.dirname(os.path.abspath(__file__)))
COQ = os.path.join(VERIF, "coq")
EXTRACT = os.path.join(VERIF, "extract")
HARNESS = os.path.join(VERIF, "harness")
EVIDENCE = os.path.join(VERIF, "evidence")
REPLAY = os.path.join(EVIDENCE, "replay")
GUARD = "DUN_MUNGE_VERIF"

sys.path.insert(0, os.path.join(VERIF, "tools"))
import gen_facts  # noqa: E402

INCS = ["-I" + REPO] + ["-I%s/src/%s" % (REPO, d) for d in
        ("common", "libcommon", "libmissing", "libmunge", "munged", "mungekey")] + ["-I" + HARNESS]
DEFS = ["-DHAVE_CONFIG_H", "-D" + GUARD, '-DDATE="x"', '-DLOCALSTATEDIR="/var"',
        '-DRUNSTATEDIR="/run"', '-DSYSCONFDIR="/etc"', "-DWITH_PTHREADS"]
ASAN = ["-g", "-O1", "-fsanitize=address,undefined", "-fno-sanitize-recover=all", "-fno-omit-frame-pointer"]

ALLOWED_AXIOMS = set()   # target: closed under the global context everywhere
FORBIDDEN = re.compile(r"\b(Admitted|admit|Axiom|Axioms|Parameter|Parameters|Conjecture|Conjectures|"
                       r"Unset\s+Guard|bypass_check|type-in-type|impredicative-set|Admit\s+Obligations|"
                       r"native_compute)\b")


TIER = "quick"


class Ctx:
    def __init__(self, prop, tier, seed):
        global TIER
        TIER = tier
        self.prop = prop
        self.tier = tier
        self.seed = seed
        self.rng = random.Random(seed)
        self.t0 = time.time()
        self.tmp = tempfile.mkdtemp(prefix="verif-%s-" % prop)
        atexit.register(shutil.rmtree, self.tmp, True)
        self.violations = []       # list of (replay_path, text, found_input)
        self.known = []            # KNOWN-FINDING lines printed
        self.notes = []
        self.cov = {"evaluations": 0, "distinct_nontrivial": 0, "rule": "", "samples": [],
                    "obligations": 0, "discharged": 0, "checker_cmd": "", "trusted_base": []}
        self.assumptions = []
        self.level = "proof"
        self.proof_ok = None
        self.proof_log = ""
        self.corr_breaks = []      # list of dicts describing disagreeing cases
        self._distinct = set()
        self.thorough = (tier == "thorough")

    def log(self, *a):
        print("[%s %6.1fs]" % (self.prop, time.time() - self.t0), *a, flush=True)

    # --- coverage accounting -------------------------------------------------
    def count(self, case, nontrivial=True):
        self.cov["evaluations"] += 1
        if nontrivial:
            h = hashlib.sha1(repr(case).encode()).digest()[:10]
            if h not in self._distinct:
                self._distinct.add(h)
                self.cov["distinct_nontrivial"] = len(self._distinct)

    def sample(self, obj, limit=8):
        if len(self.cov["samples"]) < limit:
            self.cov["samples"].append(obj)

    # --- violations ------------------------------------------------------------
    def violation(self, what, replay_obj, found_input=True):
        os.makedirs(REPLAY, exist_ok=True)
        n = len(self.violations) + 1
        path = os.path.join(REPLAY, "%s-%d.json" % (self.prop, n))
        replay_obj = dict(replay_obj)
        replay_obj.setdefault("property", self.prop)
        replay_obj.setdefault("what", what)
        replay_obj.setdefault("seed", self.seed)
        replay_obj.setdefault("tier", self.tier)
        replay_obj.setdefault("replay_cmd", "python3 tools/check.py %s --replay %s" % (self.prop, path))
        with open(path, "w") as f:
            json.dump(replay_obj, f, indent=1, default=str)
        self.violations.append((path, what, found_input))

    def finish(self):
        known = load_known_findings()
        # filter violations against known findings
        real = []
        for (path, what, found) in self.violations:
            kf = match_known(known, self.prop, path)
            if kf is not None:
                line = "KNOWN-FINDING: property=%s %s" % (self.prop, kf["what"])
                if line not in self.known:
                    self.known.append(line)
                continue
            real.append((path, what, found))
        for line in self.known:
            print(line)
        self.cov["trusted_base"] = sorted(set(self.cov["trusted_base"]))
        ev = {
            "property_id": self.prop, "tier": self.tier, "seed": self.seed, "level": self.level,
            "coverage": self.cov, "assumptions": self.assumptions,
            "wall_s": round(time.time() - self.t0, 2), "violations": len(real),
            "known_findings_reproduced": self.known, "notes": self.notes,
        }
        os.makedirs(EVIDENCE, exist_ok=True)
        with open(os.path.join(EVIDENCE, "%s.json" % self.prop), "w") as f:
            json.dump(ev, f, indent=1, default=str)
        # at most a handful of VIOLATION lines; those that carry a concrete failing input first
        real.sort(key=lambda v: 0 if v[2] else 1)
        for (path, what, found) in real[:10]:
            tail = "" if found else " no-failing-input-found"
            print("VIOLATION property=%s replay=%s%s" % (self.prop, path, tail))
            print("  -> " + what)
        if real:
            return 1
        print("OK property=%s tier=%s obligations=%d/%d cases=%d wall=%.1fs" % (
            self.prop, self.tier, self.cov["discharged"], self.cov["obligations"],
            self.cov["evaluations"], time.time() - self.t0))
        return 0


# ---------------------------------------------------------------------------
# known findings
# ---------------------------------------------------------------------------
def load_known_findings():
    p = os.path.join(VERIF, "known_findings.json")
    if not os.path.exists(p):
        return []
    with open(p) as f:
        return json.load(f).get("findings", [])


def match_known(known, prop, replay_path):
    """A violation is a known finding iff its replay carries a 'finding_key' that a
    listed (unfixed) finding of the same property names exactly."""
    try:
        with open(replay_path) as f:
            r = json.load(f)
    except Exception:
        return None
    key = r.get("finding_key")
    if not key:
        return None
    for k in known:
        if k.get("property") == prop and k.get("status") == "open" and k.get("key") == key:
            return k
    return None


# ---------------------------------------------------------------------------
# build lock
# ---------------------------------------------------------------------------
class BuildLock:
    def __enter__(self):
        self.f = open(os.path.join(VERIF, ".build.lock"), "w")
        fcntl.flock(self.f, fcntl.LOCK_EX)
        return self

    def __exit__(self, *a):
        fcntl.flock(self.f, fcntl.LOCK_UN)
        self.f.close()


def sh(cmd, timeout=600, cwd=None, env=None, input=None):
    """run a command; on timeout kill its whole process group (a per-case child that is deadlocked keeps the output
    pipes open, so killing only the parent would block the collection of what was printed so far)"""
    e = dict(os.environ)
    if env:
        e.update(env)
    p = subprocess.Popen(cmd, cwd=cwd, env=e, stdin=subprocess.PIPE if input is not None else None,
                         stdout=subprocess.PIPE, stderr=subprocess.PIPE, text=True, start_new_session=True)
    try:
        out, err = p.communicate(input=input, timeout=timeout)
        return p.returncode, out, err
    except subprocess.TimeoutExpired:
        try:
            os.killpg(p.pid, 9)
        except OSError:
            pass
        try:
            out, err = p.communicate(timeout=10)
        except Exception:
            out, err = "", ""
        return 124, out or "", (err or "") + "\ntimeout"


# ---------------------------------------------------------------------------
# proofs
# ---------------------------------------------------------------------------
def audit_sources():
    """No Admitted/admit/Axiom/Parameter/... anywhere; Variable/Hypothesis only inside Sections."""
    bad = []
    for root, _, files in os.walk(COQ):
        for fn in files:
            if not fn.endswith(".v"):
                continue
            p = os.path.join(root, fn)
            depth = 0
            incomment = 0
            for i, line in enumerate(open(p), 1):
                code = strip_comments(line) if "(*" in line or incomment else line
                # (comments are rare in-line; a conservative strip is enough)
                if FORBIDDEN.search(code):
                    bad.append("%s:%d: %s" % (p, i, line.strip()))
                m = re.match(r"\s*(Section|Module)\s+\w+", code)
                if m and m.group(1) == "Section":
                    depth += 1
                if re.match(r"\s*End\s+\w+", code) and depth > 0:
                    depth -= 1
                if re.match(r"\s*(Variable|Variables|Hypothesis|Hypotheses|Context)\b", code) and depth == 0:
                    bad.append("%s:%d: %s (outside a Section)" % (p, i, line.strip()))
    for fn in ("_CoqProject",):
        txt = open(os.path.join(COQ, fn)).read()
        if re.search(r"type-in-type|impredicative-set|-vos|-vok", txt):
            bad.append("_CoqProject uses a forbidden flag")
    return bad


def strip_comments(line):
    return re.sub(r"\(\*.*?\*\)", "", line)


def theorem_names(vfile):
    names = []
    for line in open(vfile):
        m = re.match(r"\s*(Theorem|Lemma|Corollary|Example|Fact|Proposition)\s+([\w']+)", line)
        if m:
            names.append(m.group(2))
    return names


def prove(ctx, prop_files, facts=None):
    """Regenerate facts, audit, rebuild the cone of each Properties file, read Print Assumptions.
    Returns True when every obligation is discharged; otherwise records what broke in ctx."""
    ctx.cov["checker_cmd"] = ("python3 tools/gen_facts.py && cd coq && coq_makefile -f _CoqProject -o Makefile.coq && "
                              "make -f Makefile.coq " + " ".join(f.replace(".v", ".vo") for f in prop_files))
    ctx.cov["trusted_base"] += [
        "Coq 8.16.1 kernel incl. vm_compute (no native_compute, no -type-in-type, full .vo build)",
        "tools/gen_facts.py + C probes (translator of constants/tables from /repo)",
    ]
    try:
        ch = gen_facts.generate(facts)
        ctx.notes.append("facts regenerated: %s" % ch)
    except gen_facts.GenError as e:
        ctx.proof_ok = False
        ctx.proof_log = "fact generation failed: %s" % e
        ctx.broken_obligation = "gen_facts"
        return False
    bad = audit_sources()
    if bad:
        ctx.proof_ok = False
        ctx.proof_log = "source audit failed:\n" + "\n".join(bad)
        ctx.broken_obligation = "audit"
        return False
    with BuildLock():
        sh(["make", "-s", "project"], cwd=VERIF)
        all_ok = True
        for pf in prop_files:
            vo = os.path.join(COQ, pf.replace(".v", ".vo"))
            if os.path.exists(vo):
                os.unlink(vo)
            rc, out, err = sh(["timeout", "1500", "make", "-f", "Makefile.coq", "-j16", pf.replace(".v", ".vo")],
                              cwd=COQ, timeout=1600)
            names = theorem_names(os.path.join(COQ, pf))
            printed = re.findall(r"Print Assumptions\s+([\w']+)", open(os.path.join(COQ, pf)).read())
            ctx.cov["obligations"] += len(printed)
            if rc != 0:
                all_ok = False
                ctx.proof_log += (out + err)[-4000:]
                m = re.search(r'File "\./([\w/]+\.v)", line (\d+)', out + err)
                ctx.broken_obligation = "%s line %s" % (m.group(1), m.group(2)) if m else pf
                if m:
                    ctx.broken_obligation += " (%s)" % enclosing_lemma(os.path.join(COQ, m.group(1)), int(m.group(2)))
                continue
            # parse assumption reports, in order of the Print Assumptions commands
            reports = parse_assumptions(out)
            if len(reports) != len(printed):
                all_ok = False
                ctx.proof_log += "expected %d assumption reports, saw %d\n" % (len(printed), len(reports))
                ctx.broken_obligation = pf + " (assumption reports)"
                continue
            for name, rep in zip(printed, reports):
                extra = [a for a in rep if a.split(":")[0].strip() not in ALLOWED_AXIOMS]
                if rep and extra:
                    all_ok = False
                    ctx.proof_log += "%s depends on non-whitelisted axioms: %s\n" % (name, extra)
                    ctx.broken_obligation = name + " (axioms)"
                else:
                    ctx.cov["discharged"] += 1
            ctx.assumptions.append("%s: %d theorems, Print Assumptions: %s" % (
                pf, len(printed), "all closed under the global context" if all(not r for r in reports) else reports))
    ctx.proof_ok = all_ok
    return all_ok


def enclosing_lemma(vfile, line):
    name = "?"
    try:
        for i, l in enumerate(open(vfile), 1):
            if i > line:
                break
            m = re.match(r"\s*(Theorem|Lemma|Corollary|Example|Definition|Fixpoint|Fact)\s+([\w']+)", l)
            if m:
                name = m.group(2)
    except OSError:
        pass
    return name


def parse_assumptions(out):
    reports = []
    lines = out.splitlines()
    i = 0
    while i < len(lines):
        l = lines[i]
        if l.startswith("Closed under the global context"):
            reports.append([])
        elif l.startswith("Axioms:"):
            ax = []
            i += 1
            while i < len(lines) and (lines[i].startswith(" ") or re.match(r"^[\w.']+\s*:", lines[i])) \
                    and not lines[i].startswith("COQC") and not lines[i].startswith("Closed"):
                if re.match(r"^[\w.']+\s*:", lines[i]):
                    ax.append(lines[i].strip())
                i += 1
            reports.append(ax)
            continue
        i += 1
    return reports


def build_oracle(ctx, group):
    with BuildLock():
        rc, out, err = sh(["make", "-s", "oracle-" + group], cwd=VERIF, timeout=1800)
    if rc != 0:
        ctx.notes.append("oracle build failed: " + (out + err)[-2000:])
        return None
    ctx.cov["trusted_base"] += [
        "Coq extraction (ExtrOcamlBasic directives only; numbers and bytes stay inductive) + OCaml 4.13.1",
        "extract/driver.ml, conv.ml (parsing/printing glue)",
    ]
    return os.path.join(EXTRACT, group, "oracle")


def cc(ctx, out_name, sources, extra=(), libs=(), san=True, defs=()):
    exe = os.path.join(ctx.tmp, out_name)
    cmd = ["gcc", "-w"] + (ASAN if san else ["-g", "-O1"]) + DEFS + list(defs) + INCS + ["-o", exe] \
        + list(sources) + list(extra) + list(libs)
    rc, out, err = sh(cmd, timeout=300)
    if rc != 0:
        return None, err[-3000:]
    return exe, ""


def run_lines(exe_argv, lines, timeout=600, env=None):
    """Feed case lines to a line-oriented program, return (rc, output lines, stderr)."""
    e = {"ASAN_OPTIONS": "detect_leaks=1:abort_on_error=0:exitcode=99", "UBSAN_OPTIONS": "print_stacktrace=1"}
    if env:
        e.update(env)
    if TIER == "quick":
        timeout = min(timeout, 150)    # a quick tier feeds seconds of work; a harness that is still busy is stuck
    rc, out, err = sh(exe_argv, input="\n".join(lines) + "\n", timeout=timeout, env=e)
    ol = out.splitlines()
    if rc == 124:
        err += "\nHANG: %s did not finish within %d s; %d of %d cases answered; first unanswered: %s" % (
            os.path.basename(exe_argv[0]), timeout, len(ol), len(lines), lines[len(ol)][:300] if len(ol) < len(lines) else "-")
    return rc, ol, err


def coq_eval_sample(ctx, requires, exprs, timeout=300):
    """Evaluate Gallina expressions with vm_compute inside Coq (extraction cross-check).
    exprs: list of Gallina terms of type bool/other; returns raw output lines per expr."""
    src = requires + "\n" + "\n".join("Eval vm_compute in (%s)." % e for e in exprs) + "\n"
    p = os.path.join(ctx.tmp, "eval_%d.v" % len(os.listdir(ctx.tmp)))
    open(p, "w").write(src)
    rc, out, err = sh(["coqc", "-Q", COQ, "MV", p], timeout=timeout, cwd=ctx.tmp)
    if rc != 0:
        return None, err
    # split on lines beginning with "     = "
    res = []
    cur = None
    for l in out.splitlines():
        if l.startswith("     = "):
            if cur is not None:
                res.append(cur)
            cur = l[7:]
        elif l.startswith("     : "):
            if cur is not None:
                res.append(cur)
                cur = None
        elif cur is not None:
            cur += " " + l.strip()
    if cur is not None:
        res.append(cur)
    return res, ""


def hexs(b):
    return b.hex() if b else "-"


def main_entry(run_fn, prop):
    import argparse
    ap = argparse.ArgumentParser()
    ap.add_argument("--tier", default=os.environ.get("VERIF_TIER", "quick"))
    ap.add_argument("--replay", default=None)
    a = ap.parse_args(sys.argv[2:])
    seed = int(os.environ.get("VERIF_SEED", "1"))
    ctx = Ctx(prop, a.tier if a.tier in ("quick", "thorough") else "quick", seed)
    ctx.replay = a.replay
    try:
        run_fn(ctx)
    except Exception as e:  # infrastructure failure: never silently pass
        if type(e).__name__ == "DaemonUnresponsive":
            ctx.violation("munged stops serving: %s (each waited 5 s; history of the last requests in the replay file)" % e,
                          {"obligation": "liveness of the daemon under the check's request stream", "history": e.history})
            sys.exit(ctx.finish())
        import traceback
        tb = traceback.format_exc()
        ctx.violation("check infrastructure failed: %r" % e, {"traceback": tb, "obligation": "infrastructure"},
                      found_input=False)
    sys.exit(ctx.finish())
