"""C15 — one munged per socket; a crash never blocks the next start.

Flow: prove Properties_C15.v (facts: GenStart.v from lock.c) -> oracle "start" prints the model's program ->
rebuild munged from /repo's current sources -> (a) strace of a start + clean stop and of a losing start,
abstracted to the model's step alphabet, must equal the model program -> (b) live: racing starts (barrier,
random per-process syscall delays), late starts against a serving daemon, clean stop, restart -> (c) SIGKILL
injected at the syscalls of start-up and shutdown that touch the names, then a plain restart must serve ->
(d) socket path names as byte strings: a daemon is started on socket paths of sizeof(sun_path)-2 .. +1 bytes (thorough:
more lengths, up to past lock.c's name buffer); strace gives the name used at every site (lock, stale unlink, bind,
shutdown unlinks), compared with StartPathModel.cprog for the same path; /proc/net/unix and the directory are read
after start, after a second start on a proper prefix of the path, and after clean stops, and the property's clauses
are evaluated on them (one listener per name, every live daemon reachable under its configured path, nothing left)
-> (thorough) replay of finding F-C15-unlink."""
import json, os, re, shutil, signal, socket, struct, subprocess, time, fcntl
from concurrent.futures import ThreadPoolExecutor
import vlib

MANIFEST = dict(
    level=("proof", "Thirty Coq theorems (incl. the log file a background life creates is accepted by the next life for "
           "every inherited umask — open_logfile's own text is run by the fact generator —, live: kill-point restarts and "
           "start/stop cycles in background mode with the daemon's own log file under umask 0/022/077 and with --syslog; "
           "never_two_bound: the first clause said directly; the search "
           "semantics over an observed program text is the proved transition system on the expected one; the lock and "
           "socket descriptors survive daemonize_fini for every initial descriptor table, and the pre-repair program "
           "refuted with 0-2 closed).  Thirteen over an executable model of munged's start-up/shutdown program (file "
           "system of the lock/socket/pid/seed names, fcntl lock owners, listeners; any number of processes, any "
           "interleaving, SIGKILL enabled in every state): single lock holder, only the holder mutates the names, a "
           "loser exits at F_SETLK leaving everything untouched, the serving daemon is undisturbed, the holder "
           "always completes, a fresh start serves after any history that ends with no daemon running (kill at "
           "every point of start-up, service, shutdown: every file-system/socket system call is a step of its own, so the "
           "states 'pid file empty' and 'seed file empty' left by a kill between open and write are start states), "
           "clean-stop postcondition with a NEW seed file (fresh inode, complete, written by the stopping process: the "
           "file carries the generation that wrote it) and seed renewed at every stop of every reachable state; that "
           "random.c's seed reader returns on empty/short/complete files and that its writer unlinks, creates and renews "
           "are regenerated facts (probe runs the real functions under alarm()); finding F-C15-unlink as a "
           "refutation with witness.  Tied to the code on every run: the model's program must equal the abstracted "
           "strace of the rebuilt daemon (start, stop, losing start), lock.c's kernel requests are regenerated as "
           "facts, and the theorems' conclusions are checked live on racing starts, late starts, clean stop and "
           "SIGKILL injection on entering every file-system/socket syscall of start-up and shutdown (the write() into the "
           "pid and the seed file included), each followed by a fresh start that must serve within 20 s (else: hang, "
           "with the kill point as failing input) and by that daemon's clean stop; three start/serve/stop cycles on one "
           "set of paths with the seed's inode/mtime/sha256 compared cycle to cycle; starts on pre-made seed files of "
           "0, 1, seed_bytes-1, seed_bytes, seed_bytes+1 bytes.  Ten over StartPathModel, the same program with every name "
           "a byte string computed as the source computes it (strlcpy into sun_path with the size and the length test "
           "translated from sock_create's text, strdupf's buffer limit for the lock name, sizes regenerated), file system "
           "keyed by byte strings, one configuration per process: for EVERY socket path the start is refused without "
           "binding or bound name = unlinked names = stem of the locked name; an accepted configuration's program is "
           "StartModel.prog under an injective reading of its tokens and the two models run in lock step, which carries "
           "single-holder / winner-undisturbed / restart / clean-stop to byte-string names for every path length; a "
           "refused start never binds, listens or serves; frame: a daemon changes no directory entry but those of its own "
           "four names.  Live: socket paths of sizeof(sun_path)-2..+1 bytes, names at every site (strace) == model, "
           "/proc/net/unix and directory after start, after a second start on a proper prefix, after clean stops.",
           "7 C15"),
    note="Trusted: Coq kernel+vm_compute, start_probe.c (interposed lock.c), the text translator of sock_create's "
         "strlcpy/length test (tools/facts/start.py), extraction, strace and the abstraction "
         "function in c15.py; the C code is modelled at system-call granularity and tied by trace comparison and "
         "live tests, not verified.  close() of the pid/seed descriptor shares the kill point of the preceding write; "
         "pid/seed writes go through the name in the model; the reads of the old seed are one step.  Clean stops "
         "overlapping starts are outside the positive theorems (F-C15-unlink).",
    technique="Coq LTS invariants (induction over schedules, arbitrary process count) + fact probe + strace "
              "trace-equivalence with the extracted program + live race / crash-injection tests")

FINDING_KEY = "F-C15-unlink: clean stop between another start's open(lock) and F_SETLK"
PIDFILE_FINDING_KEY = "F-C15-pidfile-late-unlink: a stopping munged unlinks the pid file by name after it has released the lock"
SYSLOG_FINDING_KEY = "F-C15-syslog-closes-stderr: --syslog in background mode frees descriptor 2 after sanitize_std_fds"
TRACE = "trace=%file,bind,listen,fcntl,close,unlink,unlinkat,openat,socket,rename,write"
INJECT_SET = "openat,unlink,bind,listen,fcntl,close,socket"
PGREP = shutil.which("pgrep")
PHASE = {"up": "start-up", "down": "shutdown", "serve": "service"}
RESTART_BOUND = 20          # seconds a fresh start may take to serve or to exit; beyond it it is a hang


# ---------------------------------------------------------------------------------------------------
# building and running the real daemon
# ---------------------------------------------------------------------------------------------------
def munged_sources():
    am = open(os.path.join(vlib.REPO, "src/munged/Makefile.am")).read()
    m = re.search(r"^munged_SOURCES\s*=(.*?)# End of munged_SOURCES", am, re.S | re.M)
    srcs = []
    for tok in re.findall(r"[\w$()./-]+\.c\b", m.group(1)):
        tok = tok.replace("$(top_srcdir)", vlib.REPO)
        srcs.append(tok if tok.startswith("/") else os.path.join(vlib.REPO, "src/munged", tok))
    lc = os.path.join(vlib.REPO, "src/libcommon")
    srcs += [os.path.join(lc, f) for f in sorted(os.listdir(lc)) if f.endswith(".c")]
    srcs += [os.path.join(vlib.REPO, "src/libmissing", f) for f in ("strlcpy.c", "strlcat.c")]
    srcs += [os.path.join(vlib.REPO, "src/libmunge", f) for f in ("strerror.c", "enum.c")]
    return srcs


class Dir:
    """one socket directory with its own key"""
    def __init__(self, ctx, tag, sock=None, sfx=""):
        self.ctx = ctx
        self.d = os.path.join(ctx.tmp, tag)
        os.makedirs(self.d, exist_ok=True)
        os.chmod(self.d, 0o755)
        self.sock = sock or os.path.join(self.d, "s")
        self.lock = self.sock + ".lock"
        self.pid = os.path.join(self.d, "pid" + sfx)
        self.seed = os.path.join(self.d, "seed" + sfx)
        self.key = os.path.join(self.d, "key" + sfx)
        self.log = os.path.join(self.d, "log" + sfx)
        with open(self.key, "wb") as f:
            f.write(os.urandom(32))
        os.chmod(self.key, 0o600)

    def argv(self, exe, foreground=True, extra=()):
        a = [exe]
        if foreground:
            a.append("-F")
        a += ["-S", self.sock, "--key-file=" + self.key, "--pid-file=" + self.pid, "--seed-file=" + self.seed,
              "--syslog" if getattr(self, "syslog", False) else "--log-file=" + self.log,
              "--group-update-time=-1", "--num-threads=1"] + list(extra)
        return a

    def as_user(self, user):
        """run the daemon under a non-root euid (user = (name, uid, gid) or None): every path belongs to it.  Implies
        deployed(): the daemon's log file must be its own"""
        if user is None:
            return self
        self.user = user
        if not hasattr(self, "err"):
            self.deployed(0o22)
        os.chown(self.d, user[1], user[2])
        os.chown(self.key, user[1], user[2])
        return self

    def deployed(self, umask, syslog=False):
        """background-mode use: munged creates and inherits its own log file; the invoking shell's umask is `umask`"""
        self.err = os.path.join(self.d, "stderr")
        self.umask = umask
        self.syslog = syslog
        return self

    def modes(self):
        """{name: 'NNNN/size'} of the files a life leaves for the next one"""
        out = {}
        for n_, p_ in list(self.names().items()) + [("log", self.log)]:
            try:
                st_ = os.lstat(p_)
                out[n_] = "%04o/%d" % (st_.st_mode & 0o7777, st_.st_size)
            except OSError:
                pass
        return out

    def names(self):
        return {"lock": self.lock, "sock": self.sock, "pid": self.pid, "seed": self.seed}

    def ino(self, p):
        try:
            return os.lstat(p).st_ino
        except OSError:
            return None

    def snapshot(self):
        """observable state of the three names + who holds the lock"""
        s = {n: self.ino(p) for n, p in self.names().items()}
        try:
            s["pid_content"] = int(open(self.pid).read().strip())
        except Exception:
            s["pid_content"] = None
        s["lock_holder"] = lock_holder(self.lock)
        return s

    def procs(self):
        """live munged processes whose command line names this directory.  The candidates come from pgrep (a scan of
        /proc in C, outside the interpreter lock: dozens of scenarios poll at once); only they are read here"""
        cand = None
        if PGREP:
            try:
                r = subprocess.run([PGREP, "-x", "munged"], capture_output=True, text=True, timeout=10)
                if r.returncode in (0, 1):
                    cand = [x for x in r.stdout.split() if x.isdigit()]
            except (OSError, subprocess.SubprocessError):
                cand = None
        if cand is None:
            cand = [p for p in os.listdir("/proc") if p.isdigit()]
        out = []
        for p in cand:
            try:
                cl = open("/proc/%s/cmdline" % p, "rb").read().split(b"\0")
                st = open("/proc/%s/stat" % p).read().rsplit(")", 1)[1].split()[0]
            except (OSError, IndexError):
                continue
            if st == "Z" or not cl or not cl[0].endswith(b"/munged"):
                continue
            if self.sock.encode() in cl:
                out.append(int(p))
        return sorted(out)

    def killall(self):
        for _ in range(3):
            ps = self.procs()
            if not ps:
                break
            for p in ps:
                try:
                    os.kill(p, signal.SIGKILL)
                except OSError:
                    pass
            time.sleep(0.05)

    def remove(self):
        self.killall()
        shutil.rmtree(self.d, ignore_errors=True)


def popen(D, argv, **kw):
    """start a process with stderr appended to the directory's log (foreground daemons log to stderr)"""
    # D.err set: the log file is the daemon's own business (background mode: created by munged, inherited by the next
    # life); the start command's stderr goes elsewhere
    lf = open(getattr(D, "err", None) or D.log, "ab")
    try:
        if getattr(D, "umask", None) is not None:
            kw.setdefault("umask", D.umask)
        user = getattr(D, "user", None)
        if user is not None:
            # munged under strace: strace -u <name> (the tracee is munged itself, so system-call counts are unchanged);
            # otherwise setpriv
            if argv and argv[0] == "strace":
                argv = ["strace", "-u", user[0]] + list(argv[1:])
            elif argv and argv[0] == "sh":
                k = argv.index("sh", 1) + 1 if "sh" in argv[1:] else None
                if k:
                    argv = list(argv[:k]) + ["setpriv", "--reuid=%d" % user[1], "--regid=%d" % user[2], "--clear-groups"] + list(argv[k:])
            else:
                argv = ["setpriv", "--reuid=%d" % user[1], "--regid=%d" % user[2], "--clear-groups"] + list(argv)
        return subprocess.Popen(argv, stdout=subprocess.DEVNULL, stderr=lf, **kw)
    finally:
        lf.close()


def nonroot_user():
    """(name, uid, gid) of an unprivileged account the daemon can be run as, None when this is not possible"""
    import pwd
    if os.geteuid() != 0 or not shutil.which("setpriv"):
        return None
    for name in ("nobody", "munge", "daemon"):
        try:
            pw = pwd.getpwnam(name)
        except KeyError:
            continue
        if pw.pw_uid != 0:
            return (name, pw.pw_uid, pw.pw_gid)
    return None


def kill_tree(ctx):
    """kill everything (munged, strace) whose command line mentions ctx.tmp"""
    me = os.getpid()
    needle = ctx.tmp.encode()
    for _ in range(3):
        found = False
        for p in os.listdir("/proc"):
            if not p.isdigit() or int(p) == me:
                continue
            try:
                cl = open("/proc/%s/cmdline" % p, "rb").read()
            except OSError:
                continue
            if needle in cl:
                found = True
                try:
                    os.kill(int(p), signal.SIGKILL)
                except OSError:
                    pass
        if not found:
            break
        time.sleep(0.05)


def lock_holder(path):
    """pid holding a conflicting fcntl write lock on path, 0 if none, None if no file"""
    try:
        fd = os.open(path, os.O_WRONLY)
    except OSError:
        return None
    try:
        arg = struct.pack("hhqqi4x", fcntl.F_WRLCK, 0, 0, 0, 0)
        r = fcntl.fcntl(fd, fcntl.F_GETLK, arg)
        l_type, _, _, _, l_pid = struct.unpack("hhqqi4x", r)
        return 0 if l_type == fcntl.F_UNLCK else l_pid
    finally:
        os.close(fd)


HDR = ">IBBBI"
MAGIC = 0x00606D4B


def _rpc(sockpath, mtype, body, timeout=3.0):
    s = socket.socket(socket.AF_UNIX, socket.SOCK_STREAM)
    s.settimeout(timeout)
    try:
        s.connect(sockpath)
        s.sendall(struct.pack(HDR, MAGIC, 4, mtype, 0, len(body)) + body)
        buf = b""
        while len(buf) < 11:
            c = s.recv(11 - len(buf))
            if not c:
                return None
            buf += c
        magic, ver, rtype, retry, n = struct.unpack(HDR, buf)
        body = b""
        while len(body) < n:
            c = s.recv(n - len(body))
            if not c:
                return None
            body += c
        return rtype, body
    finally:
        s.close()


def canary(sockpath):
    """encode then decode a payload through the daemon at sockpath; None if ok, else a reason"""
    payload = b"c15-canary"
    try:
        req = struct.pack(">BBBB", 1, 1, 1, 0) + struct.pack(">IIII", 0, 0xFFFFFFFF, 0xFFFFFFFF, len(payload)) + payload
        r = _rpc(sockpath, 2, req)
        if r is None or r[0] != 3:
            return "no encode reply"
        b = r[1]
        if b[0] != 0:
            return "encode error %d" % b[0]
        elen = b[1]
        dlen = struct.unpack(">I", b[2 + elen:6 + elen])[0]
        cred = b[6 + elen:6 + elen + dlen]
        if not cred.startswith(b"MUNGE:"):
            return "encode reply is not a credential"
        r = _rpc(sockpath, 4, struct.pack(">I", len(cred)) + cred)
        if r is None or r[0] != 5:
            return "no decode reply"
        if r[1][0] != 0:
            return "decode error %d" % r[1][0]
        if payload not in r[1]:
            return "decoded payload differs"
        return None
    except (OSError, struct.error, IndexError) as e:
        return "canary failed: %r" % (e,)


def wait_for(pred, timeout=5.0, step=0.01):
    """poll pred until it is true or the time is up; the interval grows from `step` to 0.1 s (dozens of scenarios
    poll /proc at once)"""
    t0 = time.time()
    while time.time() - t0 < timeout:
        v = pred()
        if v:
            return v
        time.sleep(step)
        step = min(step * 1.5, 0.1)
    return pred()


def wait_serving(D, timeout=10.0):
    return wait_for(lambda: os.path.exists(D.pid) and canary(D.sock) is None, timeout)


# ---------------------------------------------------------------------------------------------------
# (a) strace -> step alphabet
# ---------------------------------------------------------------------------------------------------
READONLY = ("newfstatat", "stat", "lstat", "access", "faccessat", "faccessat2", "readlink", "readlinkat", "statx",
            "getxattr", "lgetxattr")


def abstract_trace(text, D, main_pid=None):
    """Abstracts strace -f output to the model's step alphabet, restricted to the four names.
    Returns (tokens, details) for the main pid (the first pid seen unless given)."""
    rev = {p: n for n, p in D.names().items()}
    toks, det = [], {}
    lockfd = sockfd = pidfd = seedfd = None
    cur_call = None
    ords, pos = {}, []          # pos[i] = (syscall, its ordinal among the main pid's calls of that name) behind toks[i]
    det["pos"], det["pos_reliable"] = pos, True
    for line in text.splitlines():
        while len(pos) < len(toks):
            pos.append(cur_call)
        cur_call = None
        m = re.match(r"^(\d+)\s+(.*)$", line)
        if not m:
            continue
        pid, rest = int(m.group(1)), m.group(2)
        if main_pid is None:
            main_pid = pid
        if pid != main_pid:
            continue
        if "<unfinished" in rest or "resumed>" in rest:
            det["pos_reliable"] = False
        mc = re.match(r"(\w+)\(", rest)
        if mc:
            ords[mc.group(1)] = ords.get(mc.group(1), 0) + 1
            cur_call = (mc.group(1), ords[mc.group(1)])
        if rest.startswith("--- SIGTERM") or rest.startswith("--- SIGINT"):
            toks.append("serve")
            continue
        m = re.match(r"\+\+\+ exited with (\d+) \+\+\+", rest)
        if m:
            toks.append("exit" if m.group(1) == "0" else "exit!%s" % m.group(1))
            continue
        if rest.startswith("+++ killed"):
            toks.append("killed")
            continue
        m = re.match(r"(\w+)\((.*)\)\s+= (-?\d+|\?)(.*)$", rest)
        if not m:
            continue
        sc, args, ret = m.group(1), m.group(2), m.group(3)
        ok = ret not in ("?",) and not ret.startswith("-")
        paths = [rev[p] for p in re.findall(r'"([^"]*)"', args) if p in rev]
        fdm = re.match(r"(\d+)[,)]?", args)
        fd = int(fdm.group(1)) if fdm else None
        if sc in ("openat", "open", "creat"):
            if not paths:
                continue
            n = paths[0]
            creat = "O_CREAT" in args or sc == "creat"
            wr = "O_WRONLY" in args or "O_RDWR" in args
            if not creat and not wr:
                if n == "seed":               # the reads of start-up (ENOENT included) are the one step read_seed
                    toks.append("read_seed")
                continue                      # any other read-only open of a name: not a step
            if n == "lock":
                toks.append("open_lock" if ok else "open_lock!")
                mm = re.search(r",\s*(0[0-7]*)\)?$", args)
                det["open_lock"] = {"creat": creat, "excl": "O_EXCL" in args, "trunc": "O_TRUNC" in args,
                                    "mode": mm.group(1) if mm else None}
                if ok:
                    lockfd = int(ret)
            elif n == "pid":
                toks.append("open_pid" if ok else "open_pid!")
                pidfd = int(ret) if ok else None
            elif n == "seed":
                toks.append("open_seed" if ok else "open_seed!")
                seedfd = int(ret) if ok else None
            else:
                toks.append("other:%s:%s" % (sc, n))
        elif sc in ("unlink", "unlinkat", "rmdir"):
            for n in paths:
                toks.append("unlink:" + n)
        elif sc in ("rename", "renameat", "renameat2", "link", "linkat", "symlink", "symlinkat", "chmod", "fchmodat",
                    "chown", "lchown", "fchownat", "truncate", "mknod", "mknodat", "mkdir", "mkdirat"):
            for n in paths:
                toks.append("other:%s:%s" % (sc, n))
        elif sc == "bind":
            if paths:
                toks.append("bind" if ok else "bind!")
                if ok:
                    sockfd = fd
        elif sc == "listen":
            if fd is not None and fd == sockfd:
                toks.append("listen" if ok else "listen!")
        elif sc in ("newfstatat", "fstat") and not paths:
            if fd is not None and fd == lockfd and (sc == "fstat" or '""' in args):
                toks.append("fstat_lock")
                mm = re.search(r"st_mode=(\w+)\|(0[0-7]+)", args)
                if mm:
                    det["fstat_lock"] = {"type": mm.group(1), "mode": mm.group(2)}
        elif sc == "fcntl":
            if fd is not None and fd == lockfd:
                if "F_SETLK" in args or "F_SETLKW" in args or "F_OFD_SETLK" in args:
                    toks.append("setlk" if ok else "setlk!")
                    det["setlk"] = {"nonblock": "F_SETLK," in args or "F_OFD_SETLK," in args, "excl": "F_WRLCK" in args,
                                    "whole": "l_whence=SEEK_SET, l_start=0, l_len=0" in args}
                elif "F_GETLK" in args:
                    # a query of the lock BEFORE the attempt to take it is a step of the protocol (check, then act);
                    # the unchanged code only asks after a refused F_SETLK, for the error message
                    if "setlk" not in toks and "setlk!" not in toks:
                        toks.append("getlk")
                else:
                    toks.append("other:fcntl:lock")
        elif sc == "write":
            if fd is not None and fd == pidfd:
                toks.append("write_pid" if ok else "write_pid!")
                pidfd = None                  # one step, however many write() calls stdio makes
            elif fd is not None and fd == seedfd:
                toks.append("write_seed" if ok else "write_seed!")
                seedfd = None
        elif sc == "close":
            if fd is not None and fd == lockfd:
                toks.append("close_lock")
                lockfd = None
            elif fd is not None and fd == sockfd:
                toks.append("close_sock")
                sockfd = None
            elif fd is not None and fd == pidfd:
                pidfd = None
            elif fd is not None and fd == seedfd:
                seedfd = None
        elif sc in READONLY:
            # look-ups of the lock *path* after the lock file was opened are part of the protocol (a
            # re-verification of the name); the unchanged code has none
            if "lock" in paths and ("open_lock" in toks):
                toks.append("stat:lock")
            continue
    while len(pos) < len(toks):
        pos.append(cur_call)
    return toks, det, main_pid


def strace_life(ctx, exe, tag):
    """start under strace, wait for service, SIGTERM, wait for exit; returns (tokens, details, text)"""
    D = Dir(ctx, tag)
    out = os.path.join(D.d, "tr")
    p = popen(D, ["strace", "-f", "-o", out, "-e", TRACE] + D.argv(exe))
    try:
        if not wait_serving(D):
            return None, {"why": "daemon under strace did not reach service: " + tail(D.log, 300)}, ""
        before = D.snapshot()
        ps = D.procs()
        for q in ps:
            os.kill(q, signal.SIGTERM)
        try:
            p.wait(timeout=8)
        except subprocess.TimeoutExpired:
            return None, {"why": "daemon under strace did not stop on SIGTERM"}, ""
        text = open(out).read()
        toks, det, _ = abstract_trace(text, D)
        det["after_stop"] = D.snapshot()
        det["before_stop"] = before
        return toks, det, text
    finally:
        if p.poll() is None:
            p.kill()
        D.remove()


def last_error(D):
    """the last 'Error' line the daemon wrote, to its stderr or to its own log file"""
    best = ""
    for f in (getattr(D, "err", None), D.log):
        if not f:
            continue
        try:
            for line in open(f, errors="replace").read().splitlines():
                if "Error" in line:
                    best = line.strip()
        except OSError:
            pass
    return best or tail(getattr(D, "err", None) or D.log, 200).strip()


def tail(path, n=600):
    try:
        return open(path, errors="replace").read()[-n:]
    except OSError:
        return ""


# ---------------------------------------------------------------------------------------------------
# (b) live scenarios
# ---------------------------------------------------------------------------------------------------
def start_many(D, exe, k, delays):
    """k start commands released together (barrier = EOF on a shared pipe).  delays[i] = None or a dict
    syscall -> microseconds (strace delay_enter on that process's calls) to shuffle the interleaving.
    Undelayed racers daemonize (the start command returns 0 / non-0); delayed ones run in the foreground under
    strace (strace -f would otherwise wait for the daemonized grandchild) and count as started when still
    alive after the race has settled."""
    r, w = os.pipe()
    procs = []
    for i in range(k):
        delayed = bool(delays and delays[i])
        argv = D.argv(exe, foreground=delayed)
        if delayed:
            pre = ["strace", "-f", "-o", "/dev/null", "-e", "trace=" + ",".join(sorted(delays[i]))]
            for sc, us in sorted(delays[i].items()):
                pre += ["-e", "inject=%s:delay_enter=%d" % (sc, us)]
            argv = pre + argv
        # the barrier is a shell that blocks reading the shared pipe and then execs the start command
        argv = ["sh", "-c", 'read x; exec "$@" </dev/null', "sh"] + argv
        procs.append((popen(D, argv, stdin=r), delayed))
    os.close(r)
    time.sleep(0.05)
    os.close(w)          # release
    return procs


def settle(D, procs, timeout=15.0):
    """wait until every start command has returned or is the (foreground) survivor; returns outcome per racer:
    0 = started, non-0 = exit code of a failed start"""
    t0 = time.time()
    while time.time() - t0 < timeout:
        running = [p for p, fg in procs if p.poll() is None]
        if not running:
            break
        if all(fg for p, fg in procs if p.poll() is None) and len(running) <= 1 and \
                os.path.exists(D.pid) and canary(D.sock) is None:
            # a single foreground racer is left and the socket is served: give a loser no more time than this
            time.sleep(0.2)
            if len([p for p, fg in procs if p.poll() is None]) <= 1:
                break
        time.sleep(0.02)
    out = []
    for p, fg in procs:
        rc = p.poll()
        if rc is None:
            out.append(0 if fg else "timeout")
        else:
            out.append(rc if rc != 0 or not fg else "exited-0-in-foreground")
    return out


def check_serving_state(D, what):
    """the conclusions of single_holder / no-orphan on the live system; returns list of reasons"""
    bad = []
    ps = D.procs()
    snap = D.snapshot()
    if len(ps) != 1:
        bad.append("%s: %d live munged processes on one socket (%s)" % (what, len(ps), ps))
    for n in ("lock", "sock", "pid"):
        if snap[n] is None:
            bad.append("%s: %s file is missing while a daemon runs" % (what, n))
    if ps and snap["pid_content"] not in ps:
        bad.append("%s: pid file names %s, live daemon is %s" % (what, snap["pid_content"], ps))
    if ps and snap["lock_holder"] not in ps:
        bad.append("%s: lock file is held by %s, live daemon is %s" % (what, snap["lock_holder"], ps))
    c = canary(D.sock)
    if c and ps:
        time.sleep(0.3)          # one retry: the machine may be heavily loaded
        c = canary(D.sock)
    if c:
        bad.append("%s: canary request failed: %s" % (what, c))
    return bad, snap, ps


def scenario_race(ctx, exe, spec):
    """spec: k, delays, late (number of late starts), stop (bool).  Returns (failures, facts)."""
    D = Dir(ctx, spec["tag"])
    fails = []
    facts = {}
    try:
        k = spec["k"]
        procs = start_many(D, exe, k, spec.get("delays"))
        codes = settle(D, procs)
        facts["exit_codes"] = codes
        ok = [c for c in codes if c == 0]
        if len(ok) != 1:
            fails.append("%d racing starts: %d start commands succeeded (exit codes %s), expected exactly one"
                         % (k, len(ok), codes))
        wait_for(lambda: os.path.exists(D.pid) and canary(D.sock) is None, 3.0)
        bad, snap0, ps0 = check_serving_state(D, "after %d racing starts" % k)
        fails += bad
        facts["winner"] = ps0
        # late starts against the serving daemon: must fail and leave everything as it is
        for j in range(spec.get("late", 0)):
            fg = (j % 2 == 0)
            p = popen(D, D.argv(exe, foreground=fg))
            try:
                rc = p.wait(timeout=10)
            except subprocess.TimeoutExpired:
                rc = "still running"
                if not fg:
                    p.kill()
            if rc == 0 or rc == "still running":
                fails.append("a start while another munged serves the socket did not exit with an error (%s)" % rc)
            bad, snap1, ps1 = check_serving_state(D, "after a late start")
            fails += bad
            for n in ("sock", "lock", "pid", "pid_content", "lock_holder"):
                if snap1[n] != snap0[n]:
                    fails.append("late start changed the running daemon's %s: %s -> %s" % (n, snap0[n], snap1[n]))
            if ps1 != ps0:
                fails.append("late start changed the set of live daemons: %s -> %s" % (ps0, ps1))
            if fails:
                break
        if spec.get("stop") and ps0 and not fails:
            seed0 = D.ino(D.seed)
            for q in ps0:
                os.kill(q, signal.SIGTERM)
            gone = wait_for(lambda: not D.procs(), 8.0)
            if not gone:
                fails.append("daemon did not exit within 8 s of SIGTERM")
            else:
                snap2 = D.snapshot()
                for n in ("sock", "lock", "pid"):
                    if snap2[n] is not None:
                        fails.append("after a clean stop the %s file still exists" % n)
                if snap2["seed"] is None:
                    fails.append("after a clean stop there is no seed file")
                elif seed0 is not None and snap2["seed"] == seed0 and os.path.getmtime(D.seed) < time.time() - 30:
                    fails.append("after a clean stop the seed file was not rewritten")
                # and a new start serves
                p = popen(D, D.argv(exe, foreground=False))
                rc = p.wait(timeout=10)
                if rc != 0 or not wait_serving(D, 3.0):
                    fails.append("start after a clean stop failed (exit %s): %s" % (rc, tail(D.log, 300)))
        return fails, facts
    finally:
        D.remove()


def scenario_loser_trace(ctx, exe, tag):
    """a start against a serving daemon, under strace: its abstract trace must be read_seed, open, fstat, setlk(fail),
    exit!=0"""
    D = Dir(ctx, tag)
    try:
        a = popen(D, D.argv(exe))
        if not wait_serving(D):
            return None, "first daemon did not reach service: " + tail(D.log, 300)
        out = os.path.join(D.d, "trb")
        b = popen(D, ["strace", "-f", "-o", out, "-e", TRACE] + D.argv(exe))
        try:
            b.wait(timeout=10)
        except subprocess.TimeoutExpired:
            b.kill()
        toks, det, _ = abstract_trace(open(out).read(), D)
        return toks, None
    finally:
        D.remove()


# ---------------------------------------------------------------------------------------------------
# (c) crash points
# ---------------------------------------------------------------------------------------------------
def calibrate(ctx, exe, background=False):
    """one life under strace with the injectable syscall set.  strace's inject `when=K` counts per syscall and
    per tracee, so a kill point is (syscall, K-th invocation by the main process).  Returns the kill points
    spanning start-up (from the open of the lock file to one call past the pid-file write) and shutdown (from
    the unlink of the socket to one call past the unlink of the pid file), the write() into the pid file and the
    write() into the seed file included."""
    D = Dir(ctx, "calb" if background else "cal")
    if background:
        D.deployed(0o22)
    out = os.path.join(D.d, "tr")
    # background: the start command is a tracee too and `when=` counts in every tracee, so only the calls on the four
    # names are traced and counted (-P): the start command makes none, the daemon (its forked child) makes them all
    only = sum([["-P", x] for x in (D.lock, D.sock, D.pid, D.seed)], []) if background else []
    p = popen(D, ["strace", "-f", "-y", "-o", out] + only + ["-e", "trace=" + INJECT_SET + ",write"]
              + D.argv(exe, foreground=not background))
    try:
        if not wait_serving(D):
            return None
        for q in D.procs():
            os.kill(q, signal.SIGTERM)
        p.wait(timeout=8)
        lines = open(out).read().splitlines()
        main = int(lines[0].split()[0])
        if background:
            # the daemon is the forked child: the process that binds the socket; strace counts its calls from its birth
            bl = [l for l in lines if re.match(r"^\d+\s+openat\(", l) and D.lock in l]
            if not bl or len({l.split()[0] for l in lines if re.match(r"^\d+\s+\w+\(", l)}) != 1:
                return None             # some other process touched the names: the counts would not be the daemon's
            main = int(bl[0].split()[0])
        calls = []          # (phase, syscall, ordinal, on_name)
        ords = {}
        nwrite = 0
        phase = "up"
        for l in lines:
            if not l.startswith("%d " % main):
                continue
            if "--- SIGTERM" in l:
                phase = "down"
                continue
            m = re.match(r"^\d+\s+(\w+)\(", l)
            if not m:
                continue
            sc = m.group(1)
            if sc == "write":
                # the writes that fill the pid and the seed file: killed on entering them, the file is left empty.
                # They are counted among the writes to these two files only (strace -P <pid> -P <seed> at kill time),
                # as the number of log writes before them is not fixed
                if re.match(r"^\d+\s+write\(\d+<(%s|%s)>" % (re.escape(D.pid), re.escape(D.seed)), l):
                    nwrite += 1
                    calls.append((phase, "write", nwrite, True))
                continue
            ords[sc] = ords.get(sc, 0) + 1
            onname = any(p_ in l for p_ in (D.lock, D.sock, D.pid, D.seed)) and "O_RDONLY" not in l
            calls.append((phase, sc, ords[sc], onname or sc in ("listen", "fcntl")))
        res = {}
        for ph in ("up", "down"):
            idx = [i for i, c in enumerate(calls) if c[0] == ph and c[3]]
            if not idx:
                return None
            lo, hi = idx[0], min(idx[-1] + 1, len(calls) - 1)
            res[ph] = [(calls[i][1], calls[i][2]) for i in range(lo, hi + 1) if calls[i][0] == ph]
        return res
    finally:
        if p.poll() is None:
            p.kill()
        D.remove()


def scenario_crash(ctx, exe, spec):
    """spec: tag, phase ('up'|'down'|'serve'), sc, n (kill on entering the n-th invocation of syscall sc by the
    daemon).  Kill, then plain restart without --force."""
    D = Dir(ctx, spec["tag"])
    bg = bool(spec.get("background"))
    if bg:
        D.deployed(spec.get("umask", 0o22))
    D.as_user(spec.get("user"))
    fails = []
    try:
        if spec["phase"] == "serve":
            a = popen(D, D.argv(exe, foreground=not bg))
            if not wait_serving(D):
                return ["daemon did not reach service before the kill: " + tail(D.log, 300)], {}
            if bg:
                a.wait(timeout=RESTART_BOUND)
                D.killall()
            else:
                os.kill(a.pid, signal.SIGKILL)
                a.wait()
        else:
            only = []
            if spec["sc"] == "write":
                only = ["-P", D.pid, "-P", D.seed]
            if bg:
                only = sum([["-P", x] for x in (D.lock, D.sock, D.pid, D.seed)], [])
            a = popen(D, ["strace", "-f", "-o", "/dev/null"] + only + ["-e", "trace=" + spec["sc"], "-e",
                          "inject=%s:signal=KILL:when=%d" % (spec["sc"], spec["n"])] + D.argv(exe, foreground=not bg))
            reached = wait_for(lambda: a.poll() is not None or (os.path.exists(D.pid) and canary(D.sock) is None), 6.0)
            if a.poll() is None:
                if spec["phase"] == "down":
                    for q in D.procs():
                        os.kill(q, signal.SIGTERM)
                    try:
                        a.wait(timeout=8)
                    except subprocess.TimeoutExpired:
                        pass
                # an "up" point that was not reached before service, or a stuck stop: kill it where it is
                if a.poll() is None:
                    D.killall()
                    a.kill()
                    a.wait()
        D.killall()
        left = {}
        for n_, p_ in D.names().items():
            try:
                st_ = os.lstat(p_)
                left[n_] = "socket" if n_ == "sock" else "%d bytes" % st_.st_size
            except OSError:
                pass
        where = "SIGKILL on entering %s #%s of %s" % (spec.get("sc"), spec.get("n"), PHASE[spec["phase"]]) \
            if spec.get("sc") else "SIGKILL during service"
        if bg:
            where += " of a munged running in the background (umask %03o, its own log file)" % D.umask
            left = D.modes()
        if spec.get("user"):
            where += " [daemon run as user %s, uid %d, owner of all its paths]" % (spec["user"][0], spec["user"][1])
            left = D.modes()
        # plain restart without --force: must come up and serve, or at least exit, within the bound
        b = popen(D, D.argv(exe, foreground=False))
        try:
            rc = b.wait(timeout=RESTART_BOUND)
        except subprocess.TimeoutExpired:
            b.kill()
            rc = "timeout"
        if rc == "timeout":
            spinning = [q for q in D.procs()]
            fails.append("after %s (files left: %s) a fresh start without --force neither serves nor exits within %d s "
                         "(hang; munged processes still running: %s; lock/socket/pid present: %s)"
                         % (where, left, RESTART_BOUND, spinning,
                            [n_ for n_ in ("lock", "sock", "pid") if os.path.lexists(D.names()[n_])]))
        elif rc != 0:
            fails.append("after %s (files left: %s) a start without --force failed "
                         "(exit %s): %s" % (where, left, rc, last_error(D)))
        else:
            wait_serving(D, 3.0)
            bad, _, ps = check_serving_state(D, "restart after %s (files left: %s)" % (where, left))
            fails += bad
            # ... and that daemon's own clean stop leaves what a clean stop must leave
            if not bad and spec.get("then_stop", True):
                for q in ps:
                    os.kill(q, signal.SIGTERM)
                if not wait_for(lambda: not D.procs(), 20.0):
                    fails.append("restart after %s: the daemon did not exit within 20 s of SIGTERM" % where)
                else:
                    for n_ in ("sock", "lock", "pid"):
                        if os.path.lexists(D.names()[n_]):
                            fails.append("restart after %s, then clean stop: the %s file still exists" % (where, n_))
                    try:
                        if os.path.getsize(D.seed) == 0:
                            fails.append("restart after %s, then clean stop: the seed file is empty" % where)
                    except OSError:
                        fails.append("restart after %s, then clean stop: there is no seed file" % where)
                    if (bg or spec.get("user")) and not fails:
                        # a third life on what the second one left (it may be the one that created the log file)
                        left2 = D.modes()
                        c = popen(D, D.argv(exe, foreground=False))
                        try:
                            rc3 = c.wait(timeout=RESTART_BOUND)
                        except subprocess.TimeoutExpired:
                            c.kill()
                            rc3 = "timeout"
                        if rc3 != 0 or not wait_serving(D, RESTART_BOUND):
                            fails.append("restart after %s, clean stop, then another start without --force on what that life "
                                         "left (mode/size: %s): it failed (exit %s): %s" % (where, left2, rc3, last_error(D)))
        return fails, {"left": left}
    finally:
        D.remove()


# ---------------------------------------------------------------------------------------------------
# (d) socket path names as byte strings
# ---------------------------------------------------------------------------------------------------
def path_of_length(base, n):
    """a path of exactly n bytes under directory base (intermediate directories are created, mode 0755);
    None when n is too short for base"""
    d = base
    rest = n - len(d) - 1
    while rest > 200:
        d = os.path.join(d, "d" * 100)
        rest -= 101
    if rest < 1:
        return None
    os.makedirs(d, exist_ok=True)
    q = d
    while len(q) > len(base):
        os.chmod(q, 0o755)
        q = os.path.dirname(q)
    return os.path.join(d, "s" * rest)


def listening_under(prefix):
    """[(path, socket inode)] of listening unix stream sockets whose bound name starts with prefix (/proc/net/unix:
    Num RefCount Protocol Flags Type St Inode Path; __SO_ACCEPTCON = 0x10000 in Flags)"""
    out = []
    try:
        for line in open("/proc/net/unix").read().splitlines()[1:]:
            f = line.split(None, 7)
            if len(f) == 8 and f[7].startswith(prefix) and int(f[3], 16) & 0x10000:
                out.append((f[7], int(f[6])))
    except (OSError, ValueError):
        pass
    return sorted(out)


def tree_files(base):
    """{path: 'sock'|'reg'|'dir-ish'} of everything that is not a directory under base"""
    import stat as _st
    out = {}
    for root, _, files in os.walk(base):
        for fn in files:
            p = os.path.join(root, fn)
            try:
                m = os.lstat(p).st_mode
            except OSError:
                continue
            out[p] = "sock" if _st.S_ISSOCK(m) else "reg"
    return out


def raw_trace(text, base, ignore, main_pid=None):
    """strace -f output -> the steps of the main pid on names under directory base, WITH THE NAMES AS PASSED TO THE
    KERNEL: read:<p> (read-only opens), open:<p> (creating/writing opens), write:<p> (first write to such a descriptor),
    fstat:<p> setlk:<p> close:<p> (on the descriptor that gets the F_SETLK), unlink:<p>, bind:<p>, listen, close_sock,
    serve, exit / exit!N / killed."""
    lines = []
    for line in text.splitlines():
        m = re.match(r"^(\d+)\s+(.*)$", line)
        if not m:
            continue
        if main_pid is None:
            main_pid = int(m.group(1))
        if int(m.group(1)) == main_pid:
            lines.append(m.group(2))
    # first pass: which open() calls return the descriptor that later gets the F_SETLK (descriptor numbers are reused)
    lock_opens, fdopen = set(), {}
    for i, rest in enumerate(lines):
        m = re.match(r"(?:openat|open|creat)\(.*\)\s+= (\d+)", rest)
        if m:
            fdopen[int(m.group(1))] = i
            continue
        m = re.match(r"close\((\d+)\)", rest)
        if m:
            fdopen.pop(int(m.group(1)), None)
            continue
        m = re.match(r"fcntl\((\d+), F_(?:OFD_)?SETLKW?,", rest)
        if m and int(m.group(1)) in fdopen:
            lock_opens.add(fdopen[int(m.group(1))])
    toks = []
    fdpath = {}
    sockfd = None
    under = lambda p: p.startswith(base + "/") and p not in ignore
    lock_fds = set()
    written = set()
    for li, rest in enumerate(lines):
        if rest.startswith("--- SIGTERM") or rest.startswith("--- SIGINT"):
            toks.append("serve")
            continue
        m = re.match(r"\+\+\+ exited with (\d+) \+\+\+", rest)
        if m:
            toks.append("exit" if m.group(1) == "0" else "exit!%s" % m.group(1))
            continue
        if rest.startswith("+++ killed"):
            toks.append("killed")
            continue
        m = re.match(r"(\w+)\((.*)\)\s+= (-?\d+|\?)(.*)$", rest)
        if not m:
            continue
        sc, args, ret = m.group(1), m.group(2), m.group(3)
        ok = ret != "?" and not ret.startswith("-")
        if ok and li in lock_opens:
            lock_fds.add(int(ret))
        paths = [p for p in re.findall(r'"((?:[^"\\]|\\.)*)"', args) if under(p)]
        fdm = re.match(r"(\d+)[,)]?", args)
        fd = int(fdm.group(1)) if fdm else None
        if sc in ("openat", "open", "creat"):
            if not paths:
                continue
            if not ("O_CREAT" in args or sc == "creat" or "O_WRONLY" in args or "O_RDWR" in args):
                toks.append("read:" + paths[0])
                continue
            toks.append("open:" + paths[0] + ("" if ok else "!"))
            if ok:
                fdpath[int(ret)] = paths[0]
                written.discard(int(ret))
        elif sc == "write":
            if fd in fdpath and fd not in lock_fds and fd not in written:
                toks.append("write:" + fdpath[fd] + ("" if ok else "!"))
                written.add(fd)
        elif sc in ("unlink", "unlinkat", "rmdir"):
            toks += ["unlink:" + p for p in paths]
        elif sc in ("rename", "renameat", "renameat2", "link", "linkat", "symlink", "symlinkat", "mknod", "mknodat"):
            toks += ["other:%s:%s" % (sc, p) for p in paths]
        elif sc == "bind":
            mm = re.search(r'sun_path="((?:[^"\\]|\\.)*)"', args)
            if mm and (under(mm.group(1)) or mm.group(1).startswith(base)):
                toks.append("bind:" + mm.group(1) + ("" if ok else "!"))
                if ok:
                    sockfd = fd
        elif sc == "listen":
            if fd is not None and fd == sockfd:
                toks.append("listen" if ok else "listen!")
        elif sc in ("newfstatat", "fstat") and not paths:
            if fd in lock_fds and fd in fdpath and (sc == "fstat" or '""' in args):
                toks.append("fstat:" + fdpath[fd])
        elif sc == "fcntl":
            if fd in lock_fds and fd in fdpath and re.search(r"F_(OFD_)?SETLKW?,", args):
                toks.append("setlk:" + fdpath[fd] + ("" if ok else "!"))
        elif sc == "close":
            if fd in lock_fds and fd in fdpath:
                toks.append("close:" + fdpath.pop(fd))
                lock_fds.discard(fd)
            elif fd is not None and fd == sockfd:
                toks.append("close_sock")
                sockfd = None
            else:
                fdpath.pop(fd, None)
    return toks, main_pid


def model_path_program(oracle, D):
    """StartPathModel.cprog for D's configuration, in raw_trace's vocabulary -> (tokens up to the end or up to the
    refused bind, refused?, model's bind name)"""
    hx = lambda p: p.encode().hex()
    rc, out, err = vlib.run_lines([oracle], ["N %s %s %s" % (hx(D.sock), hx(D.pid), hx(D.seed))])
    if rc != 0 or len(out) != 1 or not out[0].startswith("N "):
        return None, None, None
    un = lambda h: "" if h == "-" else bytes.fromhex(h).decode()
    toks, lockname, refused, bindname = [], None, False, None
    for t in out[0].split()[1:]:
        k, _, v = t.partition(":")
        if k == "open_lock":
            lockname = un(v)
            toks.append("open:" + lockname)
        elif k == "fstat_lock":
            toks.append("fstat:" + lockname)
        elif k == "setlk":
            toks.append("setlk:" + lockname)
        elif k == "close_lock":
            toks.append("close:" + lockname)
        elif k == "unlink":
            toks.append("unlink:" + un(v))
        elif k == "read_seed":
            toks.append("read:" + un(v))
        elif k in ("open_pid", "open_seed"):
            toks.append("open:" + un(v))
        elif k in ("write_pid", "write_seed"):
            toks.append("write:" + un(v))
        elif k == "bind":
            r, _, nm = v.partition(":")
            bindname = un(nm)
            if r == "1":
                refused = True
                break
            toks.append("bind:" + bindname)
        else:
            toks.append(k)
    return toks, refused, bindname


def start_fg(D, exe, trace=None):
    argv = D.argv(exe)
    if trace:
        argv = ["strace", "-f", "-o", trace, "-e", TRACE] + argv
    return popen(D, argv)


def wait_started(D, proc, timeout=30.0):
    """"up" when the daemon of this configuration is up (pid file written and a munged of this configuration alive),
    "exited" when the start command has exited, None when neither happened in time (a machine under heavy load)"""
    def state():
        if proc.poll() is not None:
            return "exited"
        if os.path.exists(D.pid) and D.procs():
            return "up"
        return None
    return wait_for(state, timeout)


def stop_clean(D, proc, timeout=20.0):
    for q in D.procs():
        try:
            os.kill(q, signal.SIGTERM)
        except OSError:
            pass
    try:
        proc.wait(timeout=timeout)
        return True
    except subprocess.TimeoutExpired:
        return False


def short(p, base):
    """a path for messages: <base>/…(n bytes)"""
    return "<%d-byte path %s>" % (len(p), (p if len(p) < 60 else p[:len(base) + 8] + "..." + p[-6:]))


def check_bound(D, base, live, what):
    """'at most one munged bound to a socket path, the one the path's lock protects', read off /proc/net/unix:
    live = [(Dir, pid)] daemons that are up.  Returns (failures, listening)"""
    bad = []
    lis = listening_under(base)
    names = [p for p, _ in lis]
    for nm in sorted(set(names)):
        if names.count(nm) > 1:
            bad.append("%s: %d listening sockets are bound to the one name %s" % (what, names.count(nm), short(nm, base)))
    conf = {d.sock: pid for d, pid in live}
    for nm in sorted(set(names)):
        if nm not in conf:
            bad.append("%s: a munged listens on %s, which is not the configured socket path of any running daemon "
                       "(configured: %s)" % (what, short(nm, base), ", ".join(short(x, base) for x in conf) or "none"))
    for d, pid in live:
        if d.sock not in names:
            bad.append("%s: munged pid %d configured with socket %s is running but no listening socket is bound to that "
                       "name (bound names: %s)" % (what, pid, short(d.sock, base), ", ".join(short(x, base) for x in names) or "none"))
        h = lock_holder(d.lock)
        if h != pid:
            bad.append("%s: the lock file of %s is held by %s, the daemon is pid %d" % (what, short(d.sock, base), h, pid))
    if len(names) != len(live) and not bad:
        bad.append("%s: %d daemons are up, %d listening sockets" % (what, len(live), len(names)))
    return bad, lis


def scenario_pathlen(ctx, exe, oracle, spec):
    """spec: tag, n (length of the socket path in bytes), neighbour (bool: afterwards start a second daemon on a proper
    prefix of the path — the first cut bytes when n >= cut, else the path minus its last byte).
    Returns (property failures, correspondence breaks, facts)."""
    n, cut = spec["n"], spec["cut"]
    base = os.path.join(ctx.tmp, spec["tag"])
    os.makedirs(base, exist_ok=True)
    os.chmod(base, 0o755)
    A = path_of_length(base, n)
    fails, corr, facts = [], [], {"n": n}
    if A is None:
        return fails, corr, facts
    Q = Dir(ctx, spec["tag"], sock=A, sfx="Q")
    P = None
    tr = os.path.join(base, "trQ")
    ignore = {Q.key, Q.log, tr}
    procs = []
    try:
        mtoks, mref, mbind = model_path_program(oracle, Q) if oracle else (None, None, None)
        q = start_fg(Q, exe, trace=tr)
        procs.append(q)
        q_st = wait_started(Q, q)
        if q_st is None:
            ctx.notes.append("pathlen n=%d: the start neither completed nor failed within 30 s; scenario skipped" % n)
            return [], [], dict(facts, accepted=None, exit="undecided")
        q_up = q_st == "up"
        facts["accepted"] = q_up
        undecided = False
        live = []
        if q_up:
            qpid = (Q.procs() or [q.pid])[0]
            live.append((Q, qpid))
            wait_for(lambda: listening_under(base), 2.0)
            bad, lis = check_bound(Q, base, live, "socket path of %d bytes" % n)
            fails += bad
            c = canary(Q.sock)
            if c and not bad:
                time.sleep(0.3)
                c = canary(Q.sock)
            if c and "path too long" in c and not bad:
                c = None         # this client cannot name the path; /proc/net/unix above is the evidence
            if c:
                fails.append("socket path of %d bytes: the daemon is up but a request sent to its configured socket path "
                             "fails: %s" % (n, c))
        else:
            rc = q.poll()
            facts["exit"] = rc
            lis = listening_under(base)
            socks = [p for p, k in tree_files(base).items() if k == "sock"]
            if rc == 0:
                fails.append("socket path of %d bytes: the start command exited 0 but no daemon is up" % n)
            if lis or socks:
                fails.append("socket path of %d bytes: the start was refused (exit %s) but a socket was bound: %s"
                             % (n, rc, ", ".join(short(x, base) for x in ([p for p, _ in lis] + socks))))
        facts["bound"] = [p for p, _ in lis]
        before = {p: os.lstat(p).st_ino for p, k in tree_files(base).items() if k == "sock"}
        # ---- a second daemon on a proper prefix of the path
        if spec.get("neighbour"):
            B = A[:cut - 1] if n >= cut else A[:-1]
            if len(B) > len(os.path.dirname(A)) + 1:
                P = Dir(ctx, spec["tag"], sock=B, sfx="P")
                ignore |= {P.key, P.log}
                pp = start_fg(P, exe)
                procs.append(pp)
                p_st = wait_started(P, pp)
                p_up = p_st == "up"
                facts["neighbour_up"] = p_up
                if p_st is None:
                    ctx.notes.append("pathlen n=%d: the second start neither completed nor failed within 30 s" % n)
                    P.killall()
                    undecided = True
                elif not p_up:
                    fails.append("socket path of %d bytes, second daemon on its %d-byte prefix: the second start failed "
                                 "(exit %s) although no daemon is configured with that path: %s"
                                 % (n, len(B), pp.poll(), tail(P.log, 200)))
                else:
                    live.append((P, (P.procs() or [pp.pid])[0]))
                    wait_for(lambda: len(listening_under(base)) >= len(live), 2.0)
                    bad, lis2 = check_bound(P, base, live, "socket path of %d bytes and a second daemon on its %d-byte prefix"
                                            % (n, len(B)))
                    fails += bad
                    for sp, ino in before.items():
                        try:
                            now = os.lstat(sp).st_ino
                        except OSError:
                            now = None
                        if now != ino:
                            fails.append("socket path of %d bytes: a start on the %d-byte prefix replaced the socket of the "
                                         "running daemon (%s: inode %s -> %s)" % (n, len(B), short(sp, base), ino, now))
                    for d, pid in live:
                        c = canary(d.sock)
                        if c and not fails:
                            time.sleep(0.3)
                            c = canary(d.sock)
                        if c and "path too long" in c and not fails:
                            c = None
                        if c:
                            fails.append("socket path of %d bytes and a second daemon on its %d-byte prefix: pid %d no "
                                         "longer answers on its configured path %s: %s"
                                         % (n, len(B), pid, short(d.sock, base), c))
                    facts["bound_with_neighbour"] = [p for p, _ in lis2]
        # ---- clean stops (a refused start is an error exit, not a clean stop: what it leaves is not judged)
        refused_locks = set()
        for d, pr in [(Q, q)] + ([(P, procs[1])] if P is not None else []):
            if any(d is x for x, _ in live):
                if not stop_clean(d, pr):
                    fails.append("socket path of %d bytes: the daemon on %s did not exit within 20 s of SIGTERM"
                                 % (n, short(d.sock, base)))
            else:
                refused_locks |= {d.lock, d.lock[:1023]}
        left = tree_files(base) if not undecided else {}
        lis3 = listening_under(base) if not undecided else []
        for p, k in sorted(left.items()):
            if p in ignore or p in refused_locks:
                continue
            if k == "sock":
                fails.append("socket path of %d bytes: after the clean stop a socket is left behind: %s" % (n, short(p, base)))
            elif p.endswith(".lock") or os.path.basename(p).startswith("pid"):
                fails.append("socket path of %d bytes: after the clean stop %s is left behind" % (n, short(p, base)))
        if lis3:
            fails.append("socket path of %d bytes: after the clean stop a listening socket remains: %s"
                         % (n, ", ".join(short(x, base) for x, _ in lis3)))
        for d, _ in live:
            if not os.path.exists(d.seed):
                fails.append("socket path of %d bytes: after the clean stop there is no seed file" % n)
        # ---- names at every site vs the byte-string model
        try:
            text = open(tr).read()
        except OSError:
            text = ""
        ltoks, _ = raw_trace(text, base, ignore)
        facts["trace"] = [t.replace(base, "~") for t in ltoks]
        if mtoks is not None:
            want = mtoks if not mref else mtoks + ["exit!1"]
            got = ltoks if not mref else [t for t in ltoks if not t.startswith("exit!")] + \
                ["exit!1" for t in ltoks if t.startswith("exit!")][:1]
            if got != want:
                i = next((k for k in range(min(len(got), len(want))) if got[k] != want[k]), min(len(got), len(want)))
                corr.append(("socket path of %d bytes: the names the daemon hands to the kernel differ from StartPathModel at "
                             "step %d: daemon %s, model %s" % (n, i, (got[i:i + 1] or ["(end)"])[0].replace(base, "~"),
                                                                (want[i:i + 1] or ["(end)"])[0].replace(base, "~")),
                             {"obligation": "correspondence StartPathModel.cprog ~ strace(munged), path length %d" % n,
                              "scenario": "pathlen", "spec": {k: v for k, v in spec.items() if k != "tag"},
                              "daemon": [t.replace(base, "~") for t in got], "model": [t.replace(base, "~") for t in want]}))
        return fails, corr, facts
    finally:
        for d in (Q, P):
            if d is not None:
                d.killall()
        for pr in procs:
            if pr.poll() is None:
                pr.kill()
        shutil.rmtree(base, ignore_errors=True)


# ---------------------------------------------------------------------------------------------------
# (e) the seed file: renewed by every clean stop; any seed file a kill can leave does not keep a start from serving
# ---------------------------------------------------------------------------------------------------
def seed_id(path):
    """(inode, mtime_ns, size, sha256) of the seed file, None when absent"""
    import hashlib
    try:
        st_ = os.lstat(path)
        return (st_.st_ino, st_.st_mtime_ns, st_.st_size, hashlib.sha256(open(path, "rb").read()).hexdigest())
    except OSError:
        return None


def seed_bytes_fact():
    try:
        m = re.search(r"Definition seed_bytes : N := (\d+)\.", open(os.path.join(vlib.COQ, "gen", "GenStart.v")).read())
        return int(m.group(1))
    except Exception:
        return 1024


def start_and_serve(D, exe, what):
    """start in the foreground; returns (proc, failure or None); a start that neither serves nor exits within
    RESTART_BOUND is a hang"""
    a = popen(D, D.argv(exe))
    ok = wait_for(lambda: a.poll() is not None or (os.path.exists(D.pid) and canary(D.sock) is None), RESTART_BOUND)
    if a.poll() is not None:
        return a, "%s: the start exited with status %s: %s" % (what, a.poll(), tail(D.log, 300))
    if not (os.path.exists(D.pid) and canary(D.sock) is None):
        return a, ("%s: the start neither serves nor exits within %d s (hang; lock/socket/pid present: %s)"
                   % (what, RESTART_BOUND, [n_ for n_ in ("lock", "sock", "pid") if os.path.lexists(D.names()[n_])]))
    return a, None


def stop_and_check(D, a, what, before):
    """SIGTERM, wait, the clean-stop clause incl. 'a NEW seed file exists' (before = seed_id when the daemon was
    started).  Returns (failures, seed_id after)"""
    fails = []
    os.kill(a.pid, signal.SIGTERM)
    try:
        rc = a.wait(timeout=20)
    except subprocess.TimeoutExpired:
        return ["%s: the daemon did not exit within 20 s of SIGTERM" % what], seed_id(D.seed)
    if rc != 0:
        fails.append("%s: the clean stop exited with status %s" % (what, rc))
    for n_ in ("sock", "lock", "pid"):
        if os.path.lexists(D.names()[n_]):
            fails.append("%s: after the clean stop the %s file still exists" % (what, n_))
    after = seed_id(D.seed)
    if after is None:
        fails.append("%s: after the clean stop there is no seed file" % what)
    elif after[2] == 0:
        fails.append("%s: after the clean stop the seed file is empty" % what)
    elif before is not None and (after[0], after[1], after[3]) == (before[0], before[1], before[3]):
        fails.append("%s: after the clean stop the seed file is the OLD one, not a new one: inode %d, mtime %d ns, %d bytes, "
                     "sha256 %s... are what they were before this daemon was started" % (what, after[0], after[1], after[2], after[3][:16]))
    return fails, after


def scenario_cycles(ctx, exe, spec):
    """spec: tag, cycles.  start / serve / clean stop, `cycles` times on one set of paths"""
    D = Dir(ctx, spec["tag"]).as_user(spec.get("user"))
    fails, ids = [], []
    try:
        prev = None
        for c in range(1, spec["cycles"] + 1):
            what = "start/serve/stop cycle %d of %d on one set of paths%s" % (
                c, spec["cycles"], " [daemon run as user %s]" % spec["user"][0] if spec.get("user") else "")
            a, err = start_and_serve(D, exe, what)
            if err:
                fails.append(err)
                break
            f, prev2 = stop_and_check(D, a, what, prev)
            fails += f
            ids.append(prev2)
            if prev2 is not None and prev2 in ids[:-1]:
                fails.append("%s: the seed file equals the one of an earlier cycle" % what)
            prev = prev2
            if fails:
                break
        return fails, {"seed_after_each_cycle": [(i[0], i[2], i[3][:12]) if i else None for i in ids]}
    finally:
        D.remove()


def scenario_bg_cycles(ctx, exe, spec):
    """spec: tag, cycles, umask, syslog.  The deployment mode: `munged` (background) with --log-file (or --syslog) on one
    persistent set of paths, invoked under the given umask; every life inherits the log, seed (and whatever else) the
    previous one left.  Every start must succeed and serve, every stop must be clean and renew the seed."""
    D = Dir(ctx, spec["tag"]).deployed(spec["umask"], spec.get("syslog", False)).as_user(spec.get("user"))
    fails, hist = [], []
    mode = "in the background with %s, umask %03o%s" % ("--syslog" if spec.get("syslog") else "--log-file", spec["umask"],
                                                        ", daemon run as user %s" % spec["user"][0] if spec.get("user") else "")
    try:
        prev = None
        for c in range(1, spec["cycles"] + 1):
            what = "life %d of %d on one set of paths (%s)" % (c, spec["cycles"], mode)
            left = D.modes()
            a = popen(D, D.argv(exe, foreground=False))
            try:
                rc = a.wait(timeout=RESTART_BOUND)
            except subprocess.TimeoutExpired:
                a.kill()
                rc = "timeout"
            if rc != 0:
                fails.append("%s: the start without --force on what the previous life left (mode/size: %s) failed (exit %s): %s"
                             % (what, left, rc, last_error(D)))
                break
            if not wait_serving(D, RESTART_BOUND):
                fails.append("%s: started (exit 0) but does not serve" % what)
                break
            bad, _, ps = check_serving_state(D, what)
            fails += bad
            for q in ps:
                os.kill(q, signal.SIGTERM)
            if not wait_for(lambda: not D.procs(), 20.0):
                fails.append("%s: did not exit within 20 s of SIGTERM" % what)
                break
            for n_ in ("sock", "lock", "pid"):
                if os.path.lexists(D.names()[n_]):
                    fails.append("%s: after the clean stop the %s file still exists" % (what, n_))
            after = seed_id(D.seed)
            if after is None or after[2] == 0:
                fails.append("%s: after the clean stop there is no (or an empty) seed file" % what)
            elif prev is not None and (after[0], after[1], after[3]) == (prev[0], prev[1], prev[3]):
                fails.append("%s: after the clean stop the seed file is the old one" % what)
            prev = after
            hist.append(D.modes())
            if fails:
                break
        return fails, {"left_after_each_life": hist}
    finally:
        D.remove()


def new_seed_failures(D, what, before, euid):
    """'a new seed file exists': a regular file, mode 0600, owned by the daemon, complete, not what was there before"""
    import stat as _st
    out = []
    try:
        st_ = os.lstat(D.seed)
    except OSError:
        return ["%s: after the clean stop there is no seed file" % what]
    if not _st.S_ISREG(st_.st_mode):
        out.append("%s: after the clean stop the seed path is not a regular file (type %o)" % (what, _st.S_IFMT(st_.st_mode)))
    else:
        if st_.st_mode & 0o7777 != 0o600:
            out.append("%s: after the clean stop the seed file has mode %04o, not 0600" % (what, st_.st_mode & 0o7777))
        if st_.st_uid != euid:
            out.append("%s: after the clean stop the seed file belongs to uid %d, the daemon ran as %d" % (what, st_.st_uid, euid))
        if st_.st_size != seed_bytes_fact():
            out.append("%s: after the clean stop the seed file has %d bytes" % (what, st_.st_size))
        after = seed_id(D.seed)
        if before is not None and after is not None and (after[0], after[1], after[3]) == (before[0], before[1], before[3]):
            out.append("%s: after the clean stop the seed file is the old one" % what)
    return out


def scenario_seedfound(ctx, exe, spec):
    """spec: tag, found in absent | good | mode0644 | mode0660 | owner | symlink, user.  The start finds that seed file;
    whatever it is, the clean stop of this life must leave a NEW regular 0600 seed file of the daemon's, and the next
    start must use it (log: Seeded PRNG with <seed_bytes> bytes from "<seed>") and serve."""
    D = Dir(ctx, spec["tag"]).as_user(spec.get("user"))
    euid = spec["user"][1] if spec.get("user") else 0
    egid = spec["user"][2] if spec.get("user") else 0
    found = spec["found"]
    what = "start that finds the seed file %s%s" % (
        {"absent": "absent", "good": "good (0600, own, complete)", "mode0644": "with mode 0644", "mode0660": "with mode 0660",
         "owner": "owned by another uid", "symlink": "to be a symbolic link"}[found],
        " [daemon run as user %s]" % spec["user"][0] if spec.get("user") else "")
    try:
        target = os.path.join(D.d, "elsewhere")
        if found != "absent":
            with open(target if found == "symlink" else D.seed, "wb") as f:
                f.write(os.urandom(seed_bytes_fact()))
            p_ = target if found == "symlink" else D.seed
            os.chmod(p_, {"mode0644": 0o644, "mode0660": 0o660}.get(found, 0o600))
            os.chown(p_, 4242 if found == "owner" else euid, egid)
            if found == "symlink":
                os.symlink(target, D.seed)
        before = seed_id(D.seed) if found != "symlink" else None
        a, err = start_and_serve(D, exe, what)
        if err:
            return [err], {}
        os.kill(a.pid, signal.SIGTERM)
        try:
            rc = a.wait(timeout=20)
        except subprocess.TimeoutExpired:
            return ["%s: the daemon did not exit within 20 s of SIGTERM" % what], {}
        fails = []
        if rc != 0:
            fails.append("%s: the clean stop exited with status %s" % (what, rc))
        for n_ in ("sock", "lock", "pid"):
            if os.path.lexists(D.names()[n_]):
                fails.append("%s: after the clean stop the %s file still exists" % (what, n_))
        fails += new_seed_failures(D, what, before, euid)
        if not fails:
            # the next life uses it
            mark = os.path.getsize(D.err if hasattr(D, "err") else D.log)
            b, err = start_and_serve(D, exe, what + ", clean stop, next start")
            if err:
                fails.append(err)
            else:
                logged = open(D.err if hasattr(D, "err") else D.log, errors="replace").read()[mark:]
                if not re.search(r"Seeded PRNG with %d bytes from" % seed_bytes_fact(), logged):
                    fails.append("%s: the next start did not seed the PRNG from the seed file the stop wrote: %s"
                                 % (what, " / ".join(l.strip()[-90:] for l in logged.splitlines() if "seed" in l.lower())[:300]))
                f2, _ = stop_and_check(D, b, what + ", clean stop, next start", seed_id(D.seed))
                fails += f2
        return fails, {"found": found}
    finally:
        D.remove()


def run_as_root(D, argv, timeout=30, reap=None):
    """a command of the administrator (not of the daemon's user): exit status, or 'timeout'.  reap = a foreground daemon
    that is our child: it must be waited for while the command runs (--stop polls until the pid is gone; a zombie is
    not gone)"""
    lf = open(os.path.join(D.d, "admin.err"), "ab")
    try:
        p = subprocess.Popen(argv, stdout=subprocess.DEVNULL, stderr=lf)
        if reap is not None:
            try:
                reap.wait(timeout=timeout)
            except subprocess.TimeoutExpired:
                pass
        try:
            return p.wait(timeout=timeout)
        except subprocess.TimeoutExpired:
            p.kill()
            return "timeout"
    finally:
        lf.close()


def listing(D):
    """{name: (type, mode, uid)} of the directory, the harness's own files left out"""
    import stat as _st
    out = {}
    for fn in sorted(os.listdir(D.d)):
        if fn in ("admin.err", "stderr", "log", "key") or fn.startswith("tr"):
            continue
        st_ = os.lstat(os.path.join(D.d, fn))
        out[fn] = ("sock" if _st.S_ISSOCK(st_.st_mode) else "link" if _st.S_ISLNK(st_.st_mode) else "reg" if _st.S_ISREG(st_.st_mode)
                   else "other", "%04o" % (st_.st_mode & 0o7777), st_.st_uid)
    return out


def scenario_stop_cmd(ctx, exe, spec):
    """spec: tag, daemon in none | fg | bg, user.  `munged --stop -S <socket>` run by root: with no daemon (exit != 0) it
    leaves the directory as it is; with a daemon (run as root or as an unprivileged user) it stops it cleanly (socket,
    lock, pid gone, new seed); a redundant second --stop then again changes nothing; a fresh start without --force by
    the daemon's user serves."""
    D = Dir(ctx, spec["tag"]).as_user(spec.get("user"))
    who = " [daemon run as user %s, --stop run by root]" % spec["user"][0] if spec.get("user") else ""
    stop = [exe, "--stop", "-S", D.sock]
    fails = []
    try:
        if spec["daemon"] != "none":
            fg = spec["daemon"] == "fg"
            a = popen(D, D.argv(exe, foreground=fg))
            if not fg:
                try:
                    a.wait(timeout=RESTART_BOUND)
                except subprocess.TimeoutExpired:
                    pass
            if not wait_serving(D, RESTART_BOUND):
                return ["munged (%s)%s does not serve" % (spec["daemon"], who)], {}
            rc = run_as_root(D, stop, reap=a if fg else None)
            if rc != 0:
                fails.append("munged --stop with a daemon running%s exited with status %s" % (who, rc))
            if not wait_for(lambda: not D.procs(), 20.0):
                fails.append("munged --stop%s: the daemon is still running" % who)
                return fails, {}
            ls = listing(D)
            for n_ in ("s", "s.lock", "pid"):
                if n_ in ls:
                    fails.append("after munged --stop%s the file %s is still there %s" % (who, n_, ls[n_]))
            if "seed" not in ls:
                fails.append("after munged --stop%s there is no seed file" % who)
        before = listing(D)
        rc = run_as_root(D, stop)
        what = "munged --stop with no daemon running (%s)%s" % (
            "nothing ever started here" if spec["daemon"] == "none" else "a second, redundant stop", who)
        if rc == 0:
            fails.append("%s exited 0" % what)
        after = listing(D)
        if after != before:
            new = {k: v for k, v in after.items() if before.get(k) != v}
            gone = [k for k in before if k not in after]
            fails.append("%s changed the directory: new/changed %s (type, mode, uid)%s — the stop command must leave no file behind"
                         % (what, new, ", gone %s" % gone if gone else ""))
        # a fresh start without --force by the daemon's user
        b = popen(D, D.argv(exe, foreground=False))
        try:
            rc = b.wait(timeout=RESTART_BOUND)
        except subprocess.TimeoutExpired:
            b.kill()
            rc = "timeout"
        if rc != 0 or not wait_serving(D, RESTART_BOUND):
            fails.append("after %s a fresh start without --force%s failed (exit %s; directory before it: %s): %s"
                         % (what, who, rc, after, last_error(D)))
        else:
            for q in D.procs():
                os.kill(q, signal.SIGTERM)
            if not wait_for(lambda: not D.procs(), 20.0):
                fails.append("after %s and a fresh start: the daemon did not exit within 20 s of SIGTERM" % what)
            else:
                ls = listing(D)
                for n_ in ("s", "s.lock", "pid"):
                    if n_ in ls:
                        fails.append("after %s, a fresh start and its clean stop the file %s is still there %s" % (what, n_, ls[n_]))
        return fails, {"listing_after_stop_cmd": after}
    finally:
        D.remove()


def scenario_seedstate(ctx, exe, spec):
    """spec: tag, size.  A seed file of `size` bytes (mode 0600) is in place — size 0 is what SIGKILL between
    open(seed, O_CREAT|O_TRUNC) and write() of the shutdown leaves; a fresh start must serve within the bound and its
    clean stop must leave a new, complete seed"""
    D = Dir(ctx, spec["tag"])
    try:
        with open(D.seed, "wb") as f:
            f.write(os.urandom(spec["size"]))
        os.chmod(D.seed, 0o600)
        before = seed_id(D.seed)
        what = "fresh start on a seed file of %d bytes%s" % (
            spec["size"], " (as left by SIGKILL between open(seed) and write(seed) of a shutdown)" if spec["size"] == 0 else "")
        a, err = start_and_serve(D, exe, what)
        if err:
            return [err], {}
        f, after = stop_and_check(D, a, what, before)
        return f, {"seed_before": before[2], "seed_after": after[2] if after else None}
    finally:
        D.remove()


# ---------------------------------------------------------------------------------------------------
# (f) forced interleavings: a model schedule executed on live daemons
# ---------------------------------------------------------------------------------------------------
def proc_state(pid):
    try:
        return open("/proc/%d/stat" % pid).read().rsplit(")", 1)[1].split()[0]
    except (OSError, IndexError):
        return None


def pid_listens_on(pid, sockpath):
    """does process pid hold a listening socket bound to exactly sockpath"""
    inos = {ino for path, ino in listening_under(sockpath) if path == sockpath}
    if not inos:
        return False
    try:
        for fd in os.listdir("/proc/%d/fd" % pid):
            try:
                l = os.readlink("/proc/%d/fd/%s" % (pid, fd))
            except OSError:
                continue
            m = re.match(r"socket:\[(\d+)\]", l)
            if m and int(m.group(1)) in inos:
                return True
    except OSError:
        pass
    return False


def normalise_schedule(sched):
    """move every SIGTERM label to just before the next step of its process (nobody can observe the difference)"""
    out, pending = [], set()
    for l in sched:
        if l[0] == "t":
            pending.add(l[1:])
        else:
            if l[0] == "s" and l[1:] in pending:
                out.append("t" + l[1:])
                pending.discard(l[1:])
            out.append(l)
    return out + ["t" + q for q in sorted(pending)]


def force_schedule(ctx, exe, tag, prog, sched, pos):
    """Runs the schedule (labels sN / tN over the program text prog) on live daemons in one directory.  A process that
    the schedule preempts in the middle of its program is parked there: it runs under strace with
    inject=<syscall>:signal=STOP:when=<n> on the system call behind the last step it may take (pos, from the trace of
    a plain life), stays stopped while the others run, and gets SIGCONT when the schedule returns to it.
    Returns dict(realised, why, pids, bound, live, canary)."""
    D = Dir(ctx, tag)
    sched = normalise_schedule(sched)
    res = {"realised": False, "why": None, "schedule": " ".join(sched)}
    try:
        serve_at = prog.index("serve")
        # segments and park points
        segs = []
        for l in sched:
            if segs and segs[-1][0] == l[1:] and l[0] != "t":
                segs[-1][1].append(l)
            else:
                segs.append([l[1:], [l]])
        pcs, parks = {}, {}
        last_seg = {q: max(i for i, sg in enumerate(segs) if sg[0] == q) for q, _ in segs}
        for i, (q, labs) in enumerate(segs):
            pcs[q] = pcs.get(q, 0) + len(labs)
            if i != last_seg[q] and pcs[q] < len(prog) and pcs[q] != serve_at:
                parks.setdefault(q, []).append(pcs[q])
        inj = {}
        for q, pl in parks.items():
            inj[q] = []
            for pc in pl:
                call = pos[pc - 1] if 0 < pc <= len(pos) else None
                if call is None or call[0] == "write" or call[0] in [c for c, _ in inj[q]]:
                    res["why"] = "cannot park process %s before step %d (%s)" % (q, pc, prog[pc] if pc < len(prog) else "end")
                    return res
                inj[q].append(call)
        procs = {}            # q -> dict(popen, pid)
        pcs = {}

        def settled(q, want_park, after_term):
            pid = procs[q]["pid"]
            def f():
                st_ = proc_state(pid)
                if st_ is None or st_ == "Z":
                    return "exited"
                if st_ in "tT":
                    return "parked"
                if not want_park and not after_term and pid_listens_on(pid, D.sock) and st_ == "S":
                    return "listening"
                return None
            return wait_for(f, 10.0)

        for i, (q, labs) in enumerate(segs):
            term = any(l[0] == "t" for l in labs)
            pcs[q] = pcs.get(q, 0) + len(labs)
            want_park = pcs[q] in parks.get(q, []) and i != last_seg[q]
            if q not in procs:
                argv = D.argv(exe)
                if inj.get(q):
                    if os.path.exists(D.seed):
                        res["why"] = "process %s must be parked but starts on an existing seed file (positions unknown)" % q
                        return res
                    pre = ["strace", "-f", "-o", "/dev/null", "-e", "trace=" + ",".join(sorted({c for c, _ in inj[q]}))]
                    for c, n in inj[q]:
                        pre += ["-e", "inject=%s:signal=STOP:when=%d" % (c, n)]
                    argv = pre + argv
                before = set(D.procs())
                po = popen(D, argv)
                pid = wait_for(lambda: (sorted(set(D.procs()) - before) or [None])[0] if po.poll() is None
                               else -1, 5.0)
                if pid in (None, -1):
                    # the start command is already gone (it failed at once): nothing to control
                    procs[q] = {"popen": po, "pid": po.pid if not inj.get(q) else -1}
                    if po.poll() is None:
                        res["why"] = "process %s did not appear" % q
                        return res
                    continue
                procs[q] = {"popen": po, "pid": pid}
            else:
                pid = procs[q]["pid"]
                if term:
                    # must be serving before it is told to stop
                    wait_for(lambda: pid_listens_on(pid, D.sock) or proc_state(pid) in (None, "Z"), 10.0)
                if proc_state(pid) in ("t", "T"):
                    os.kill(pid, signal.SIGCONT)
                if term:
                    try:
                        os.kill(pid, signal.SIGTERM)
                    except OSError:
                        pass
            got = settled(q, want_park, term)
            if got is None or (want_park and got == "listening"):
                res["why"] = "process %s did not reach the end of its segment %d (%s)" % (q, i, got)
                return res
        time.sleep(0.3)
        res["realised"] = True
        live = [pid for pid in D.procs() if proc_state(pid) not in (None, "Z", "t", "T")]
        res["live"] = live
        res["bound"] = [pid for pid in live if pid_listens_on(pid, D.sock)]
        res["pids"] = {q: v["pid"] for q, v in procs.items()}
        res["canary"] = canary(D.sock) if live else None
        res["lock_holder"] = lock_holder(D.lock)
        try:
            res["pid_file"] = int(open(D.pid).read().strip())
        except OSError:
            res["pid_file"] = None          # no pid file
        except ValueError:
            res["pid_file"] = "unreadable"
        return res
    finally:
        for pid in D.procs():
            try:
                os.kill(pid, signal.SIGCONT)
            except OSError:
                pass
        D.remove()


def describe_schedule(prog, sched):
    """labels -> 'P0: read_seed..write_pid | SIGTERM P0 | P0: unlink:sock..close_lock | P1: ...' """
    out, pcs, cur, first, last = [], {}, None, None, None
    def flush():
        if cur is not None:
            out.append("P%s: %s" % (cur, first if first == last else "%s..%s" % (first, last)))
    for l in sched:
        q = l[1:]
        if l[0] == "t":
            flush()
            cur = None
            out.append("SIGTERM P%s" % q)
            pcs[q] = pcs.get(q, 0) + 1
            continue
        tok = prog[pcs.get(q, 0)] if pcs.get(q, 0) < len(prog) else "?"
        pcs[q] = pcs.get(q, 0) + 1
        if q != cur:
            flush()
            cur, first = q, tok
        last = tok
    flush()
    return " | ".join(out)


def gap_schedules(prog):
    """the family: one process parked in every gap between two consecutive lock-related system calls of start-up
    (while another start runs to service, then a third start) and of shutdown (while another start runs, then the
    stopper finishes, then a third start).  Returns [(name, labels)] — labels that turn out not to be enabled are
    dropped by the model (oracle command Y) before the live run."""
    out = []
    if "serve" not in prog:
        return out
    ns = prog.index("serve")
    rest = len(prog) - ns - 1
    for t in ("read_seed", "open_lock", "fstat_lock", "getlk", "setlk"):
        if t in prog[:ns]:
            g = prog.index(t) + 1
            out.append(("start parked after %s" % t,
                        ["s1"] * g + ["s0"] * ns + ["s1"] * (ns - g) + ["s2"] * ns))
    for t in ("unlink:sock", "close_sock", "unlink:lock", "close_lock"):
        if t in prog[ns + 1:]:
            g = prog.index(t, ns + 1) + 1
            out.append(("stop parked after %s" % t,
                        ["s0"] * ns + ["t0"] + ["s0"] * (g - ns - 1) + ["s1"] * ns + ["s0"] * (len(prog) - g) + ["s2"] * ns))
    return out


def forced_interleavings(ctx, exe, oracle, prog, pos, concrete, corr, dist, expected_prog=None):
    """search on the observed program + the gap family, each forced on live daemons; the clause 'at most one munged is
    bound to the socket path' evaluated on /proc"""
    P = " ".join(prog)
    jobs = []              # (name, schedule labels, model bound list or None)
    model_obs = {}         # name -> the model's final observation (oracle command Y)
    limit, maxpre = (3000000, 99) if ctx.thorough else (400000, 3)
    rc, out, err = vlib.run_lines([oracle], ["B 3 %d %d 1 ; %s" % (limit, maxpre, P)], timeout=300)
    found = None
    if rc == 0 and len(out) == 1 and out[0].startswith("B "):
        ctx.cov["interleaving_search"] = out[0][:200]
        if out[0].startswith("B found"):
            found = out[0].split(" ; ", 1)[1].split()
            jobs.append(("model search on the observed program (%s)" % out[0].split(" ; ")[0][2:], found, None))
    else:
        ctx.notes.append("interleaving search did not run: %s" % (err[-200:] or out))
    # the one schedule the unchanged code is known to allow (F-C15-unlink): found by the same search when the
    # known_overlap transition is not avoided; replayed live and reported under its finding key
    known_sched = None
    if found is None and expected_prog is not None and prog == expected_prog and not os.environ.get("VERIF_C15_SKIP_FINDING"):
        rc, out, err = vlib.run_lines([oracle], ["B 3 400000 3 0 ; %s" % P], timeout=120)
        if rc == 0 and len(out) == 1 and out[0].startswith("B found"):
            known_sched = out[0].split(" ; ", 1)[1].split()
            jobs.append(("F-C15-unlink: the schedule the search finds when it may take the known_overlap transition", known_sched, None))
    fam = gap_schedules(prog)
    if fam:
        rc, out, err = vlib.run_lines([oracle], ["Y 3 ; %s ; %s" % (P, " ".join(sc)) for _, sc in fam], timeout=120)
        if rc == 0 and len(out) == len(fam):
            for (name, _), line in zip(fam, out):
                if " ; " not in line:
                    continue
                head, taken = line.rsplit(" ; ", 1)
                mb = head.rsplit("bound=", 1)[1].strip()
                jobs.append((name, taken.split(), [x for x in mb.split(",") if x]))
                model_obs[name] = head
    if not jobs:
        return
    with ThreadPoolExecutor(max_workers=10) as ex:
        res = list(ex.map(lambda j: (j, force_schedule(ctx, exe, "fi%d" % j[0], prog, j[1][1], pos)), list(enumerate(jobs))))
    unreal = 0
    for (idx, (name, sched, mbound)), r in res:
        ctx.count(("forced", name, tuple(sched)))
        dist["forced_interleaving"] = dist.get("forced_interleaving", 0) + 1
        if not r["realised"]:
            unreal += 1
            ctx.notes.append("forced interleaving '%s' not realised: %s" % (name, r["why"]))
            continue
        rep = {"scenario": "forced", "name": name, "schedule": r["schedule"], "program": prog, "result": r,
               "how": "labels sN = next system-call step of start/stop program by daemon N, tN = SIGTERM to daemon N; a daemon "
                      "preempted mid-program is parked with strace -e inject=<syscall>:signal=STOP:when=<n> and resumed "
                      "with SIGCONT; afterwards count the live munged processes holding a listening socket bound to the "
                      "socket path (/proc/net/unix, /proc/<pid>/fd)"}
        if name.startswith("F-C15-unlink:") and len(r["bound"]) < 2:
            ctx.notes.append("the F-C15-unlink schedule was forced but did not end with two bound daemons: live %s bound %s "
                             "lock holder %s" % (r["live"], r["bound"], r["lock_holder"]))
        if len(r["bound"]) >= 2 and name.startswith("F-C15-unlink:"):
            ctx.violation("two live munged (pids %s) bound to one socket path after a clean stop overlapping a start (lock file "
                          "unlinked while another start had it open, unlocked): [%s] = %s"
                          % (r["bound"], r["schedule"], describe_schedule(prog, r["schedule"].split())),
                          dict(rep, finding_key=FINDING_KEY, model_witness="C15_shutdown_overlap_refuted: overlap_sched 0 1 2"),
                          found_input=True)
        elif len(r["bound"]) >= 2:
            concrete.append(("%d live munged processes (pids %s) are bound to the one socket path at once after the interleaving "
                             "[%s] = %s (%s); lock file held by %s"
                             % (len(r["bound"]), r["bound"], r["schedule"], describe_schedule(prog, r["schedule"].split()), name,
                                r["lock_holder"]), rep))
        elif len(r["bound"]) == 1 and r["pid_file"] != r["bound"][0]:
            # the one live, bound daemon has no pid file (or one that names somebody else)
            b = r["bound"][0]
            text = ("after the interleaving [%s] = %s (%s) munged pid %d is alive, bound to the socket path, holds the lock (%s) and "
                    "%s, but its pid file %s" % (r["schedule"], describe_schedule(prog, r["schedule"].split()), name, b,
                                                 r["lock_holder"], "serves" if not r["canary"] else "does not serve",
                                                 "is gone" if r["pid_file"] is None else "names %s" % r["pid_file"]))
            mo = model_obs.get(name, "")
            mm = re.search(r"\| lock=(\S+) sock=(\S+) pid=(\S+) seed=\S+ \| pidfile=(\S+) listener=(\S+) lockholder=(\S+)", mo)
            model_same = bool(mm) and mm.group(3) == "-" and mm.group(5) == mm.group(6) != "-" and mbound == [mm.group(5)] \
                and ("running/%d/0" % prog.index("serve")) in mo.split("|")[0].split()
            if expected_prog is not None and prog == expected_prog and model_same and r["pid_file"] is None \
                    and r["lock_holder"] == b and not r["canary"]:
                # exactly the history of C15_pidfile_late_unlink_refuted, on the unchanged step order, as the model says
                ctx.violation(text + " — the stopping daemon unlinked it by name (destroy_conf) after releasing the lock",
                              dict(rep, finding_key=PIDFILE_FINDING_KEY,
                                   model_witness="C15_pidfile_late_unlink_refuted: late_unlink_sched 0 1", model=mo),
                              found_input=True)
            else:
                concrete.append((text, rep))
        elif r["live"] and r["canary"] and len(r["bound"]) == 1 and mbound is not None:
            concrete.append(("after the interleaving [%s] (%s) the surviving munged does not serve on the socket path: %s"
                             % (r["schedule"], name, r["canary"]), rep))
        elif mbound is not None and len(mbound) != len(r["bound"]):
            corr.append(("forced interleaving [%s] (%s): the model ends with %d bound processes, the live run with %d"
                         % (r["schedule"], name, len(mbound), len(r["bound"])),
                         dict(rep, obligation="correspondence StartSearchModel.xrun ~ forced live schedule")))
    if found is not None and not any(j[0][1][0].startswith("model search") and len(j[1].get("bound", [])) >= 2 for j in res):
        corr.append(("some interleaving of three copies of the program the daemon shows under strace reaches two bound "
                     "processes in the model (not the F-C15-unlink transition): [%s]; the forced live run did not reproduce it"
                     % " ".join(found), {"obligation": "StartSearchModel search on the observed program", "scenario": "forced",
                                         "schedule": found, "program": prog}))
    ctx.log("forced interleavings done: %d schedules (%d not realised), search: %s"
            % (len(jobs), unreal, ctx.cov.get("interleaving_search", "-")[:60]))


# ---------------------------------------------------------------------------------------------------
# (g) started with descriptors 0-2 closed (regression for D6-closed-stdio-drops-lock)
# ---------------------------------------------------------------------------------------------------
def scenario_closed_fds(ctx, exe, spec):
    """spec: tag, closed (subset of 0,1,2 closed at exec), foreground.  Start A that way; then a second start without
    --force on the same paths must exit with an error and leave A holding the lock, listening on the same inode, named
    by the pid file and serving; A's clean stop removes socket, lock and pid file."""
    D = Dir(ctx, spec["tag"]).as_user(spec.get("user"))
    closed, fg = spec["closed"], spec["foreground"]
    what = "munged started %s with descriptors %s closed%s" % ("with -F" if fg else "in background mode",
                                                                "{" + ",".join(map(str, closed)) + "}",
                                                                " [as user %s]" % spec["user"][0] if spec.get("user") else "")
    fails = []
    try:
        redir = " ".join("%d%s&-" % (n, "<" if n == 0 else ">") for n in closed)
        a = popen(D, ["sh", "-c", 'exec "$@" ' + redir, "sh"] + D.argv(exe, foreground=fg))
        if not fg:
            try:
                rc = a.wait(timeout=RESTART_BOUND)
            except subprocess.TimeoutExpired:
                return ["%s: the start command did not return within %d s" % (what, RESTART_BOUND)], {}
            if rc != 0:
                return ["%s: the start failed (exit %s): %s" % (what, rc, tail(D.log, 200))], {}
        if not wait_serving(D, RESTART_BOUND):
            return ["%s: it does not serve: %s" % (what, tail(D.log, 200))], {}
        bad, snap0, ps0 = check_serving_state(D, what)
        fails += bad
        b = popen(D, D.argv(exe, foreground=False))
        try:
            rc = b.wait(timeout=RESTART_BOUND)
        except subprocess.TimeoutExpired:
            b.kill()
            rc = "still running"
        if rc == 0 or rc == "still running":
            fails.append("%s: a second start without --force on the same paths did not exit with an error (%s); "
                         "live munged processes now: %s" % (what, rc, D.procs()))
        bad, snap1, ps1 = check_serving_state(D, what + ", after a second start")
        fails += bad
        for n in ("sock", "lock", "pid", "pid_content", "lock_holder"):
            if snap1[n] != snap0[n]:
                fails.append("%s: the second start changed the running daemon's %s: %s -> %s" % (what, n, snap0[n], snap1[n]))
        if not fails:
            for q in ps0:
                os.kill(q, signal.SIGTERM)
            if not wait_for(lambda: not D.procs(), 20.0):
                fails.append("%s: it did not exit within 20 s of SIGTERM" % what)
            else:
                for n in ("sock", "lock", "pid"):
                    if os.path.lexists(D.names()[n]):
                        fails.append("%s: after its clean stop the %s file still exists" % (what, n))
        return fails, {"lock_holder": snap0.get("lock_holder"), "daemon": ps0}
    finally:
        D.remove()


# ---------------------------------------------------------------------------------------------------
# finding F-C15-unlink
# ---------------------------------------------------------------------------------------------------
def scenario_overlap(ctx, exe, tag):
    """A serves; B starts with its first fcntl (the F_SETLK) delayed; A stops cleanly during the delay;
    B goes on; C starts.  Reproduced iff two daemons end up alive on the one socket path."""
    D = Dir(ctx, tag)
    try:
        a = popen(D, D.argv(exe))
        if not wait_serving(D):
            return None, "A did not reach service"
        b = popen(D, ["strace", "-f", "-o", "/dev/null", "-e", "trace=fcntl", "-e",
                      "inject=fcntl:delay_enter=2500000:when=1"] + D.argv(exe))

        def b_has_lock_open():
            for q in D.procs():
                if q == a.pid:
                    continue
                try:
                    for fd in os.listdir("/proc/%d/fd" % q):
                        if os.readlink("/proc/%d/fd/%s" % (q, fd)).startswith(D.lock):
                            return q
                except OSError:
                    pass
            return None
        bpid = wait_for(b_has_lock_open, 3.0)
        if not bpid:
            return None, "B never opened the lock file"
        time.sleep(0.1)
        os.kill(a.pid, signal.SIGTERM)
        a.wait(timeout=8)
        # B proceeds after its delay
        wait_for(lambda: os.path.exists(D.sock) and canary(D.sock) is None, 6.0)
        snap_b = D.snapshot()
        c = popen(D, D.argv(exe))
        time.sleep(1.0)
        snap_c = D.snapshot()
        live = D.procs()
        info = {"after_B": snap_b, "after_C": snap_c, "live": live, "B": bpid, "C": c.pid}
        reproduced = len(live) >= 2 and snap_b["sock"] is not None and snap_c["sock"] != snap_b["sock"]
        return reproduced, info
    finally:
        D.remove()


def scenario_holder_killed_mid_start(ctx, exe, tag, which):
    """A serves; B starts with its `which`-th fcntl delayed (1 = the F_SETLK itself, 2 = the F_GETLK that follows a
    refused F_SETLK); A is SIGKILLed during the delay; B goes on; then C starts.  Whatever B decides, at most one
    munged may end up bound to the socket path, and after C exactly one must serve."""
    D = Dir(ctx, tag)
    fails = []
    try:
        a = popen(D, D.argv(exe))
        if not wait_serving(D):
            return ["A did not reach service"], {}
        b = popen(D, ["strace", "-f", "-o", "/dev/null", "-e", "trace=fcntl", "-e",
                      "inject=fcntl:delay_enter=1200000:when=%d" % which] + D.argv(exe))
        time.sleep(0.5)                      # B is inside the delayed call
        os.kill(a.pid, signal.SIGKILL)
        a.wait(timeout=5)
        time.sleep(1.6)                      # B has gone on: either it failed, or it took over properly
        live_b = D.procs()
        c = popen(D, D.argv(exe))
        time.sleep(1.2)
        live = D.procs()
        info = {"which_fcntl": which, "live_after_B": live_b, "live_after_C": live, "snapshot": D.snapshot()}
        if len(live) > 1:
            fails.append("the lock holder was SIGKILLed while another start was between its fcntl calls (delay on fcntl #%d): "
                         "%d munged processes are alive on one socket path afterwards (%s)" % (which, len(live), live))
        elif len(live) == 0:
            fails.append("after the holder was SIGKILLed during a concurrent start, neither that start nor a fresh one serves")
        elif canary(D.sock) is not None:
            fails.append("after the holder was SIGKILLed during a concurrent start, the surviving daemon does not serve")
        return fails, info
    finally:
        D.remove()


# ---------------------------------------------------------------------------------------------------
# model-side checks through the oracle
# ---------------------------------------------------------------------------------------------------
class RefSim:
    """Independent Python reference of the step semantics, run over a program given as tokens (the abstracted
    strace of the real daemon when available).  Used to generate only-enabled random schedules, to evaluate the
    property's conclusions on them, and as a second opinion on the extracted Coq model (same observations)."""
    ST = ("notstarted", "running", "failed", "exited", "killed")

    def __init__(self, prog, k):
        self.prog = prog
        self.names = {"lock": None, "sock": None, "pid": None, "seed": None}
        self.lockown, self.listener, self.content = {}, {}, {}
        self.next = 0
        self.p = [dict(st=0, pc=0, lockfd=None, sockfd=None) for _ in range(k)]

    def alloc(self, n):
        i = self.next
        self.next += 1
        self.names[n] = i
        return i

    def die(self, q, how):
        self.lockown = {i: w for i, w in self.lockown.items() if w != q}
        self.listener = {i: w for i, w in self.listener.items() if w != q}
        self.p[q].update(st=how, lockfd=None, sockfd=None)

    def enabled(self, lab):
        kind, q = lab[0], int(lab[1:])
        pr = self.p[q]
        tok = self.prog[pr["pc"]] if pr["pc"] < len(self.prog) else None
        if kind == "s":
            return pr["st"] in (0, 1) and tok is not None and tok != "serve"
        if kind == "c":
            return pr["st"] == 1
        return pr["st"] == 1 and tok == "serve"

    def step(self, lab):
        kind, q = lab[0], int(lab[1:])
        pr = self.p[q]
        if kind == "c":
            return self.die(q, 4)
        if kind == "t":
            pr["pc"] += 1
            return
        tok = self.prog[pr["pc"]]
        fail = False
        if tok == "read_seed":
            pass                              # returns on a missing, an empty and a complete seed file alike
        elif tok == "getlk":
            i = pr["lockfd"]
            fail = i is None or self.lockown.get(i, q) != q
        elif tok == "open_lock":
            pr["lockfd"] = self.names["lock"] if self.names["lock"] is not None else self.alloc("lock")
        elif tok == "fstat_lock":
            fail = pr["lockfd"] is None
        elif tok == "setlk":
            i = pr["lockfd"]
            if i is None or self.lockown.get(i, q) != q:
                fail = True
            else:
                self.lockown[i] = q
        elif tok.startswith("unlink:"):
            self.names[tok[7:]] = None
        elif tok == "bind":
            if self.names["sock"] is not None:
                fail = True
            else:
                pr["sockfd"] = self.alloc("sock")
        elif tok == "listen":
            if pr["sockfd"] is None:
                fail = True
            else:
                self.listener[pr["sockfd"]] = q
        elif tok in ("open_pid", "open_seed"):
            n = tok[5:]
            f = self.names[n] if self.names[n] is not None else self.alloc(n)
            self.content.pop(f, None)         # O_TRUNC / new: empty
        elif tok in ("write_pid", "write_seed"):
            f = self.names[tok[6:]]
            if f is not None:
                self.content[f] = q
        elif tok == "close_sock":
            if pr["sockfd"] is not None and self.listener.get(pr["sockfd"]) == q:
                del self.listener[pr["sockfd"]]
            pr["sockfd"] = None
        elif tok == "close_lock":
            if pr["lockfd"] is not None and self.lockown.get(pr["lockfd"]) == q:
                del self.lockown[pr["lockfd"]]
            pr["lockfd"] = None
        elif tok == "exit":
            return self.die(q, 3)
        else:
            raise ValueError("token %r" % tok)
        if fail:
            return self.die(q, 2)
        pr["st"] = 1
        pr["pc"] += 1

    def serving(self, q):
        pr, nm = self.p[q], self.names
        return (pr["st"] == 1 and pr["pc"] < len(self.prog) and self.prog[pr["pc"]] == "serve"
                and nm["lock"] is not None and self.lockown.get(nm["lock"]) == q and pr["lockfd"] == nm["lock"]
                and nm["sock"] is not None and self.listener.get(nm["sock"]) == q and pr["sockfd"] == nm["sock"]
                and nm["pid"] is not None and self.content.get(nm["pid"]) == q)

    def obs(self):
        o = lambda v: "-" if v is None else str(v)
        procs = " ".join("%s/%d/%d" % (self.ST[pr["st"]], pr["pc"], self.serving(q)) for q, pr in enumerate(self.p))
        nm = self.names
        names = " ".join("%s=%s" % (n, o(nm[n])) for n in ("lock", "sock", "pid", "seed"))
        return "R %s | %s | pidfile=%s listener=%s lockholder=%s seedby=%s" % (
            procs, names, o(self.content.get(nm["pid"])), o(self.listener.get(nm["sock"])), o(self.lockown.get(nm["lock"])),
            o(self.content.get(nm["seed"])))


def model_schedules(ctx, oracle, prog, n):
    """random only-enabled schedules (starts, SIGKILLs; a third of them also clean stops) of 2..8 processes:
    the property's conclusions evaluated on the reference simulation, and the extracted Coq model's observation
    compared with the reference's line by line"""
    rng = ctx.rng
    lines, want, bad = [], [], []
    stats = {"no_term": 0, "with_term": 0, "two_past_setlk_with_term": 0, "complete_races_one_survivor": 0}
    setlk_pc = prog.index("setlk") + 1 if "setlk" in prog else 4
    for it in range(n):
        k = rng.randrange(2, 9)
        with_term = (it % 3 == 2)
        sim = RefSim(prog, k)
        toks = []
        complete = (it % 3 == 0)
        for _ in range(len(prog) * k + 1 if complete else rng.randrange(4, 14 * k)):
            labs = ["s%d" % q for q in range(k)] * 6 + ([] if complete else ["c%d" % q for q in range(k)])
            if with_term:
                labs += ["t%d" % q for q in range(k)] * 3
            labs = [l for l in labs if sim.enabled(l)]
            if not labs:
                break
            l = rng.choice(labs)
            sim.step(l)
            toks.append(l)
            past = [q for q, pr in enumerate(sim.p) if pr["st"] == 1 and pr["pc"] >= setlk_pc]
            atserve = [q for q, pr in enumerate(sim.p) if pr["st"] == 1 and pr["pc"] < len(prog) and prog[pr["pc"]] == "serve"]
            if not with_term:
                if len(past) > 1:
                    bad.append((" ".join(toks), "two live processes past F_SETLK: %s" % past))
                    break
                if any(not sim.serving(q) for q in atserve):
                    bad.append((" ".join(toks), "a daemon at service that the names do not lead to"))
                    break
            elif len(past) > 1:
                stats["two_past_setlk_with_term"] += 1
                break
        stats["with_term" if with_term else "no_term"] += 1
        if not with_term and not any(t[0] == "c" for t in toks) and all(not sim.enabled("s%d" % q) for q in range(k)):
            if sum(1 for q in range(k) if sim.serving(q)) == 1:
                stats["complete_races_one_survivor"] += 1
            else:
                bad.append((" ".join(toks), "a complete race without kills did not end with exactly one daemon"))
        lines.append("R %d %s" % (k, " ".join(toks)))
        want.append(sim.obs())
    rc, out, err = vlib.run_lines([oracle], lines, timeout=300)
    mism = [(l, a, b) for l, a, b in zip(lines, out, want) if a != b]
    if rc != 0 or len(out) != len(lines):
        mism.append(("oracle run", "rc=%d" % rc, err[-200:]))
    for l in lines:
        ctx.count(l)
    return lines, bad, mism, stats


# ---------------------------------------------------------------------------------------------------
def run(ctx):
    ctx.level = "proof"
    os.chmod(ctx.tmp, 0o755)
    t_quick = not ctx.thorough
    proved = vlib.prove(ctx, ["Properties_C15.v"], facts=["start"])
    ctx.log("proofs:", "ok" if proved else "BROKEN: " + getattr(ctx, "broken_obligation", "?"))
    ctx.cov["rule"] = ("proof: Properties_C15.v over StartModel (program as data, lock.c facts regenerated); "
                       "correspondence: abstracted strace of the rebuilt daemon (start+stop, losing start) == model "
                       "program; live evaluations = racing-start scenarios (k=2..8, barrier, random strace delays on "
                       "fcntl/unlink/bind/openat), late starts, clean stop + restart, SIGKILL injected at each "
                       "file-system/socket syscall of start-up/shutdown (write() into the pid and the seed file included: empty "
                       "files left) + restart within a bound + that daemon's clean stop; >= 3 start/serve/stop cycles on one "
                       "set of paths (seed renewed every cycle); starts on pre-made empty/short/complete seed files; forced "
                       "interleavings: the schedule (if any) a search of the extracted model finds on the program text seen "
                       "under strace, and one process parked (strace inject signal=STOP / SIGCONT) in every gap between the "
                       "lock-related calls of start-up and of shutdown while another start runs, then a third start; started "
                       "with every subset of descriptors 0-2 closed (background and -F), then a second start; socket paths of "
                       "sizeof(sun_path)-2..+1 bytes (thorough: +-4, random, past lock.c's buffer): names at every site "
                       "(strace) == StartPathModel.cprog, /proc/net/unix and directory after start, after a start on a "
                       "proper prefix, after clean stops; model "
                       "evaluations = random k-process schedules through the extracted model.  non-trivial = distinct "
                       "scenario (k, delays, kill point) or schedule")
    oracle = vlib.build_oracle(ctx, "start")
    exe, err = vlib.cc(ctx, "munged", munged_sources(), libs=["-lpthread", "-lbz2", "-lrt", "-lz", "-lcrypto"],
                       san=False)
    if exe is None:
        ctx.violation("munged does not build from /repo's sources: " + err[-500:],
                      {"obligation": "correspondence C15 (build)", "stderr": err}, found_input=False)
        return
    ctx.log("munged rebuilt from", vlib.REPO)
    concrete = []      # (text, replay)
    corr = []          # (text, replay)
    try:
        _run_live(ctx, exe, oracle, concrete, corr)
    finally:
        kill_tree(ctx)
    # verdict
    if concrete:
        seen = set()
        for text, rep in concrete:
            key = re.sub(r"\d+", "N", text)[:80]
            if key in seen:
                continue
            seen.add(key)
            if len(seen) > 4:
                break
            ctx.violation(text, rep, found_input=True)
    elif corr:
        text, rep = corr[0]
        ctx.violation(text + " (no failing live scenario found in this run)", rep, found_input=False)
    elif not proved:
        ctx.violation("proof obligation no longer checks: %s" % getattr(ctx, "broken_obligation", "?"),
                      {"obligation": getattr(ctx, "broken_obligation", "?"), "log": ctx.proof_log[-3000:]},
                      found_input=False)


def _run_live(ctx, exe, oracle, concrete, corr):
    rng = ctx.rng
    dist = {}
    replay = None
    if ctx.replay:
        replay = json.load(open(ctx.replay))
    # ---- model program and facts from the oracle
    prog = facts = None
    if oracle:
        rc, out, err = vlib.run_lines([oracle], ["P", "F"])
        if rc == 0 and len(out) == 2:
            prog, facts = out[0].split()[1:], out[1]
    if prog is None:
        corr.append(("the start oracle could not be built or run", {"obligation": "oracle start"}))
    live_prog = None
    live_pos = None
    user = nonroot_user()          # the shipped service runs munged as an unprivileged user: permission bits bite
    if user is None:
        ctx.notes.append("no unprivileged account / not root: the non-root scenarios were skipped")
    ctx.cov["nonroot_user"] = user
    # ---- (a) trace equivalence
    if replay is None or replay.get("scenario") in (None, "trace", "forced"):
        toks, det, text = strace_life(ctx, exe, "life")
        if toks is None:
            concrete.append(("a plain start + SIGTERM of the rebuilt daemon failed: %s" % det.get("why"),
                             {"scenario": "trace", "detail": det}))
        else:
            ctx.count(("trace", tuple(toks)))
            known = set(prog or []) | {"serve", "exit", "getlk"}
            if all(t in known or t.startswith("unlink:") for t in toks) and "serve" in toks and toks[-1] == "exit":
                live_prog = toks
                # (a call split by strace into "<unfinished ...>" / "<... resumed>" is still counted once, at its first
                #  half, so the ordinals hold; a split call on one of the names would have cost a token above)
                if len(det.get("pos", [])) == len(toks):
                    live_pos = det["pos"]
                else:
                    ctx.notes.append("no system-call positions for the observed program: forced interleavings skipped")
            ctx.sample({"strace_abstract": " ".join(toks)})
            dist["trace"] = dist.get("trace", 0) + 1
            if prog is not None and toks != prog:
                corr.append(("system-call order of the daemon differs from the model program: daemon [%s] model [%s]"
                             % (" ".join(toks), " ".join(prog)),
                             {"obligation": "correspondence StartModel.prog ~ strace(munged)", "scenario": "trace",
                              "daemon": toks, "model": prog}))
            if facts is not None:
                ol, sl = det.get("open_lock", {}), det.get("setlk", {})
                live_f = "F open_lock:creat=%d,excl=%d,trunc=%d,mode=%s setlk:nonblock=%d,excl=%d,whole=%d" % (
                    ol.get("creat", 0), ol.get("excl", 0), ol.get("trunc", 0), (ol.get("mode") or "?").rjust(4, "0"),
                    sl.get("nonblock", 0), sl.get("excl", 0), sl.get("whole", 0))
                if not facts.startswith(live_f):
                    corr.append(("lock.c's kernel requests seen by strace differ from the model's facts: %s vs %s"
                                 % (live_f, facts), {"obligation": "correspondence GenStart ~ strace", "scenario": "trace"}))
            # clean-stop postcondition on the live system
            aft = det["after_stop"]
            for n in ("sock", "lock", "pid"):
                if aft[n] is not None:
                    concrete.append(("after a clean stop (SIGTERM) the %s file still exists" % n,
                                     {"scenario": "trace", "after_stop": aft,
                                      "how": "start munged -F, wait for service, SIGTERM, list the directory"}))
            if aft["seed"] is None:
                concrete.append(("after a clean stop there is no seed file", {"scenario": "trace", "after_stop": aft}))
        ltoks, why = scenario_loser_trace(ctx, exe, "loser")
        if ltoks is None:
            concrete.append(("losing-start scenario could not run: %s" % why, {"scenario": "trace"}))
        else:
            ctx.count(("loser", tuple(ltoks)))
            ctx.sample({"loser_abstract": " ".join(ltoks)})
            want = ["read_seed", "open_lock", "fstat_lock", "setlk!"]
            if ltoks[:4] != want or len(ltoks) != 5 or not ltoks[4].startswith("exit!"):
                corr.append(("a start that finds the lock taken does [%s]; the model's loser does [%s exit!]"
                             % (" ".join(ltoks), " ".join(want)),
                             {"obligation": "correspondence loser trace", "scenario": "trace", "daemon": ltoks}))
    ctx.log("trace equivalence done: %d correspondence breaks" % len(corr))
    # ---- model schedules: reference simulation over the daemon's own abstract trace vs the extracted model
    if oracle and replay is None and prog is not None:
        sim_prog = live_prog if live_prog else prog
        lines, bad, mism, stats = model_schedules(ctx, oracle, sim_prog, 20000 if ctx.thorough else 1500)
        dist["model_schedules"] = len(lines)
        ctx.cov["model_schedule_stats"] = stats
        ctx.cov["traces_validated_against_impl"] = len(lines) - len(mism)
        if lines:
            ctx.sample({"schedule": lines[0]})
        for sched, why in bad[:1]:
            corr.append(("with the daemon's observed system-call order the property fails in the reference "
                         "simulation: %s after schedule [%s]" % (why, sched),
                         {"obligation": "reference simulation of the observed program", "schedule": sched,
                          "program": sim_prog}))
        for l, a, b in mism[:1]:
            corr.append(("extracted model and reference simulation of the daemon's trace disagree on %s: %s vs %s"
                         % (l, a, b), {"obligation": "correspondence StartModel ~ reference simulation",
                                       "case_line": l, "model": a, "reference": b}))
    # ---- phases (f) and (b) run beside (c), (e), (d): they share nothing but the verdict lists
    def phase_fb():
        # ---- (f) forced interleavings of the observed program
        if oracle and live_prog and live_pos and (replay is None or replay.get("scenario") == "forced"):
            if replay is None:
                forced_interleavings(ctx, exe, oracle, live_prog, live_pos, concrete, corr, dist, expected_prog=prog)
            else:
                r = force_schedule(ctx, exe, "fr", live_prog, replay["schedule"].split(), live_pos)
                ctx.count(("forced-replay", replay["schedule"]))
                if r["realised"] and len(r["bound"]) >= 2:
                    concrete.append(("%d live munged processes (pids %s) are bound to the one socket path at once after the "
                                     "interleaving [%s]" % (len(r["bound"]), r["bound"], r["schedule"]),
                                     {"scenario": "forced", "schedule": r["schedule"], "program": live_prog, "result": r}))
                else:
                    ctx.notes.append("replay of the forced interleaving: %s" % r)
        # ---- (b) races
        specs = []
        if replay and replay.get("scenario") == "race":
            specs = [dict(replay["spec"], tag="rp%d" % i) for i in range(12)]
        elif replay is None:
            nrace = 150 if ctx.thorough else 14
            for i in range(nrace):
                k = 2 + (i % 7)
                delays = None
                if i % 2 == 1:
                    delays = []
                    for _ in range(k):
                        if rng.random() < 0.6:
                            d = {}
                            for sc in ("fcntl", "unlink", "bind", "openat"):
                                if rng.random() < 0.5:
                                    d[sc] = rng.choice([200, 1000, 5000, 20000]) if sc != "openat" else rng.choice([100, 500])
                            delays.append(d or None)
                        else:
                            delays.append(None)
                specs.append({"tag": "r%d" % i, "k": k, "delays": delays, "late": 2 if i % 3 == 0 else 1,
                              "stop": i % 2 == 0})
        if specs:
            with ThreadPoolExecutor(max_workers=6) as ex:
                res = list(ex.map(lambda s: (s, scenario_race(ctx, exe, s)), specs))
            for s, (fails, fct) in res:
                ctx.count(("race", s["k"], json.dumps(s.get("delays"), sort_keys=True), s.get("late"), s.get("stop")))
                dist["race_k%d" % s["k"]] = dist.get("race_k%d" % s["k"], 0) + 1
                if fails:
                    sp = {k: v for k, v in s.items() if k != "tag"}
                    concrete.append((fails[0], {"scenario": "race", "spec": sp, "all_failures": fails, "facts": fct,
                                                "how": "start k munged on one socket together (barrier), then late "
                                                       "starts, compare socket inode / pid file / lock holder, canary"}))
            ctx.sample({"race": specs[0], "result": res[0][1][1]})
            ctx.log("races done: %d scenarios, %d with failures" % (len(specs), sum(1 for _, (f, _) in res if f)))
    import threading
    fb_err = []
    def fb_guard():
        try:
            phase_fb()
        except BaseException as e:          # re-raised below: never silently pass
            fb_err.append(e)
    fb = threading.Thread(target=fb_guard)
    fb.start()
    # ---- (c) crash points
    cspecs = []
    if replay and replay.get("scenario") == "crash":
        cspecs = [dict(replay["spec"], tag="cp%d" % i) for i in range(3)]
    elif replay is None:
        cal = calibrate(ctx, exe)
        if cal is None:
            concrete.append(("calibration run (start, SIGTERM) under strace failed", {"scenario": "crash"}))
        else:
            ctx.cov["crash_kill_points"] = {k: ["%s#%d" % x for x in v] for k, v in cal.items()}
            up, down = cal["up"], cal["down"]
            for sc, n in up:
                cspecs.append({"tag": "cu-%s%d" % (sc, n), "phase": "up", "sc": sc, "n": n})
            for sc, n in down:
                cspecs.append({"tag": "cd-%s%d" % (sc, n), "phase": "down", "sc": sc, "n": n})
            cspecs.append({"tag": "cs", "phase": "serve", "sc": None, "n": None})
        # the same in the deployment mode: background, munged's own log file, pid/seed/log of the killed life inherited
        # by the next, under the invoking shell's umask 0 / 022 / 077 (quick: every third kill point + the two writes)
        calb = calibrate(ctx, exe, background=True)
        if calb is None:
            concrete.append(("calibration run (background start, SIGTERM) under strace failed", {"scenario": "crash"}))
        else:
            ctx.cov["crash_kill_points_background"] = {k: ["%s#%d" % x for x in v] for k, v in calb.items()}
            pts = [("up", sc, n) for sc, n in calb["up"]] + [("down", sc, n) for sc, n in calb["down"]]
            if not ctx.thorough:
                pts = [pt for i, pt in enumerate(pts) if i % 3 == 0 or pt[1] == "write"]
            for i, (ph, sc, n) in enumerate(pts):
                cspecs.append({"tag": "cb%d" % i, "phase": ph, "sc": sc, "n": n, "background": True,
                               "umask": (0, 0o22, 0o77)[i % 3]})
            for i, um in enumerate((0, 0o22, 0o77)):
                cspecs.append({"tag": "cbs%d" % i, "phase": "serve", "sc": None, "n": None, "background": True, "umask": um})
        # ... and with the daemon under a non-root euid that owns all its paths (quick: every fourth point + the writes)
        if user and cal is not None:
            pts = [("up", sc, n) for sc, n in cal["up"]] + [("down", sc, n) for sc, n in cal["down"]]
            if not ctx.thorough:
                pts = [pt for i, pt in enumerate(pts) if i % 4 == 1 or pt[1] == "write"]
            for i, (ph, sc, n) in enumerate(pts):
                cspecs.append({"tag": "cn%d" % i, "phase": ph, "sc": sc, "n": n, "user": user})
            cspecs.append({"tag": "cns", "phase": "serve", "sc": None, "n": None, "user": user})
        if user and calb is not None:
            pts = [("up", sc, n) for sc, n in calb["up"]] + [("down", sc, n) for sc, n in calb["down"]]
            if not ctx.thorough:
                pts = [pt for i, pt in enumerate(pts) if i % 4 == 1 or pt[1] == "write"]
            for i, (ph, sc, n) in enumerate(pts):
                cspecs.append({"tag": "cm%d" % i, "phase": ph, "sc": sc, "n": n, "background": True, "umask": 0o22, "user": user})
            cspecs.append({"tag": "cms", "phase": "serve", "sc": None, "n": None, "background": True, "umask": 0o22, "user": user})
    if cspecs:
        with ThreadPoolExecutor(max_workers=8) as ex:
            def timed(sp):
                t0 = time.time()
                r = scenario_crash(ctx, exe, sp)
                r[1]["secs"] = round(time.time() - t0, 1)
                return sp, r
            res = list(ex.map(timed, cspecs))
            ctx.cov["crash_scenario_seconds"] = {sp["tag"]: r[1].get("secs") for sp, r in res}
        lefts = {}
        for s, (fails, fct) in res:
            ctx.count(("crash", s["phase"], s["sc"], s["n"], s.get("background"), s.get("umask"), bool(s.get("user"))))
            dist["crash_" + s["phase"]] = dist.get("crash_" + s["phase"], 0) + 1
            lefts["%s%s%s:%s#%s" % ("nonroot:" if s.get("user") else "", "bg%03o:" % s["umask"] if s.get("background") else "",
                                    s["phase"], s["sc"], s["n"])] = ",".join("%s=%s" % (n, v) for n, v in sorted(fct.get("left", {}).items()))
            if fails:
                sp = {k: v for k, v in s.items() if k != "tag"}
                concrete.append((fails[0], {"scenario": "crash", "spec": sp, "all_failures": fails,
                                            "how": "strace -f -e inject=<sc>:signal=KILL:when=<n> munged -F ... "
                                                   "(SIGTERM once serving for a shutdown point); then munged "
                                                   "(no --force) on the same paths"}))
        ctx.cov["files_left_at_kill_point"] = lefts
        for need, what in (("0 bytes", "seed"), ("0 bytes", "pid")):
            if replay is None and not any(("%s=%s" % (what, need)) in v for v in lefts.values()):
                ctx.notes.append("no kill point left an empty %s file in this run" % what)
        ctx.log("crash points done: %d kill points, %d with failures" % (len(cspecs), sum(1 for _, (f, _) in res if f)))
    # ---- (g) descriptors 0-2 closed at exec
    gspecs = []
    if replay and replay.get("scenario") == "closedfds":
        gspecs = [dict(replay["spec"], tag="cf0")]
    elif replay is None:
        i = 0
        for fg in (False, True):
            for mask in range(8):
                gspecs.append({"tag": "cf%d" % i, "closed": [n for n in (0, 1, 2) if mask >> n & 1], "foreground": fg})
                i += 1
            if user:
                for closed in ([], [0, 1, 2]):
                    gspecs.append({"tag": "cf%d" % i, "closed": closed, "foreground": fg, "user": user})
                    i += 1
    if gspecs:
        with ThreadPoolExecutor(max_workers=8) as ex:
            res = list(ex.map(lambda sp: (sp, scenario_closed_fds(ctx, exe, sp)), gspecs))
        for sp, (fails, fct) in res:
            ctx.count(("closedfds", tuple(sp["closed"]), sp["foreground"], bool(sp.get("user"))))
            dist["closedfds"] = dist.get("closedfds", 0) + 1
            if fails:
                concrete.append((fails[0], {"scenario": "closedfds", "spec": {k: v for k, v in sp.items() if k != "tag"},
                                            "all_failures": fails, "facts": fct,
                                            "how": "sh -c 'exec \"$@\" 0<&- 1>&- 2>&-' sh munged [-F] -S s ... (the listed "
                                                   "descriptors closed); then munged -S s ... again (no --force): must exit "
                                                   "non-0; F_GETLK on s.lock must name the first daemon"}))
        ctx.log("closed descriptors done: %d scenarios, %d with failures" % (len(gspecs), sum(1 for _, (f, _) in res if f)))
    # ---- (e) seed file: cycles and pre-made seed states
    especs = []
    if replay and replay.get("scenario") in ("cycles", "seedstate", "bgcycles", "seedfound", "stopcmd"):
        especs = [dict(replay["spec"], tag="se0", kind=replay["scenario"])]
    elif replay is None:
        sb = seed_bytes_fact()
        especs.append({"tag": "cy", "kind": "cycles", "cycles": 5 if ctx.thorough else 3})
        for um in (0, 0o22, 0o77):
            especs.append({"tag": "bc%o" % um, "kind": "bgcycles", "cycles": 5 if ctx.thorough else 3, "umask": um})
        especs.append({"tag": "bcs", "kind": "bgcycles", "cycles": 3, "umask": 0o22, "syslog": True})
        if user:
            especs.append({"tag": "cyn", "kind": "cycles", "cycles": 3, "user": user})
            especs.append({"tag": "bcn", "kind": "bgcycles", "cycles": 3, "umask": 0o22, "user": user})
            especs.append({"tag": "bcn7", "kind": "bgcycles", "cycles": 3, "umask": 0o77, "user": user})
        for sz in ([0, 1, sb - 1, sb, sb + 1] + ([sb // 2, 4 * sb] if ctx.thorough else [])):
            especs.append({"tag": "ss%d" % sz, "kind": "seedstate", "size": sz})
        for i, fnd in enumerate(("absent", "good", "mode0644", "mode0660", "owner", "symlink")):
            especs.append({"tag": "sf%d" % i, "kind": "seedfound", "found": fnd})
            if user and (ctx.thorough or fnd in ("mode0644", "symlink")):
                especs.append({"tag": "sfn%d" % i, "kind": "seedfound", "found": fnd, "user": user})
        for i, (dm, us) in enumerate((("none", None), ("fg", None), ("bg", None)) + ((("bg", user), ("fg", user), ("none", user)) if user else ())):
            especs.append({"tag": "sc%d" % i, "kind": "stopcmd", "daemon": dm, "user": us})
    if especs:
        with ThreadPoolExecutor(max_workers=10) as ex:
            fn = {"cycles": scenario_cycles, "seedstate": scenario_seedstate, "bgcycles": scenario_bg_cycles,
                  "seedfound": scenario_seedfound, "stopcmd": scenario_stop_cmd}
            res = list(ex.map(lambda sp: (sp, fn[sp["kind"]](ctx, exe, sp)), especs))
        for sp, (fails, fct) in res:
            ctx.count((sp["kind"], sp.get("cycles"), sp.get("size"), sp.get("umask"), sp.get("syslog"), bool(sp.get("user")),
                       sp.get("found"), sp.get("daemon")))
            hist = fct.get("left_after_each_life") or []
            if oracle and sp["kind"] == "bgcycles" and not sp.get("syslog") and hist and "log" in hist[0]:
                rc_, out_, _ = vlib.run_lines([oracle], ["L %d" % sp["umask"]])
                m_ = re.match(r"L created=(\d+) accepted=(\d)", out_[0]) if rc_ == 0 and out_ else None
                if m_ and m_.group(1) != hist[0]["log"].split("/")[0]:
                    corr.append(("a munged started in the background under umask %03o creates its log file with mode %s; "
                                 "StartLogModel says %s" % (sp["umask"], hist[0]["log"].split("/")[0], m_.group(1)),
                                 {"obligation": "correspondence StartLogModel.log_created_mode ~ stat(log file)",
                                  "scenario": "bgcycles", "spec": {k: v for k, v in sp.items() if k not in ("tag", "kind")}}))
            dist[sp["kind"]] = dist.get(sp["kind"], 0) + 1
            if fails:
                spx = {k: v for k, v in sp.items() if k not in ("tag", "kind")}
                if sp.get("syslog") and any("lock file is held by 0" in f for f in fails):
                    # log_close_file() closes stderr; without /dev/log the lock file lands on descriptor 2 and
                    # daemonize_fini's dup2 drops the lock (proposed repair: seeded/fixes/C15-syslog-closes-stderr.diff)
                    ctx.violation(fails[0] + " (munged --syslog in background mode: log_close_file() frees descriptor 2, the lock "
                                  "file is opened on it where /dev/log is absent, daemonize_fini's dup2 closes it)",
                                  {"finding_key": SYSLOG_FINDING_KEY, "scenario": sp["kind"], "spec": spx,
                                   "all_failures": fails, "facts": fct}, found_input=True)
                    continue
                concrete.append((fails[0], {"scenario": sp["kind"], "spec": spx, "all_failures": fails, "facts": fct,
                                            "how": "cycles: munged -F ...; wait for service; SIGTERM; stat + sha256 of the seed "
                                                   "file; again on the same paths.  seedstate: head -c <size> /dev/urandom > seed; "
                                                   "chmod 600 seed; munged -F --seed-file=seed ...; must serve within %d s"
                                                   % RESTART_BOUND}))
        ctx.sample({"seed": {k: v for k, v in especs[0].items() if k != "tag"}, "result": res[0][1][1]})
        ctx.log("seed file done: %d scenarios, %d with failures" % (len(especs), sum(1 for _, (f, _) in res if f)))
    # ---- (d) socket path names: lengths around sizeof(sun_path) / the copy size / the bound of the length test
    sizes = {"sun_path": 108, "copy_size": 108, "len_bound": 108, "lock_name_max": 1023}
    if oracle:
        rc, out, err = vlib.run_lines([oracle], ["S"])
        if rc == 0 and len(out) == 1 and out[0].startswith("S "):
            sizes.update({k: int(v) for k, v in (t.split("=") for t in out[0].split()[1:])})
    pspecs = []
    if replay and replay.get("scenario") == "pathlen":
        pspecs = [dict(replay["spec"], tag="pp0")]
    elif replay is None:
        cut = max(2, sizes["copy_size"])
        lens = set()
        for v in (sizes["sun_path"], sizes["copy_size"], sizes["len_bound"]):
            lens |= set(range(v - 2, v + 2)) if not ctx.thorough else set(range(v - 4, v + 5))
        if ctx.thorough:
            lo = len(ctx.tmp) + 12
            import random as _random
            rng2 = _random.Random(ctx.seed * 7919 + 15)       # (ctx.rng is in use by the races running beside this phase)
            lens |= {rng2.randrange(lo, sizes["sun_path"] - 3) for _ in range(8)}
            lens |= {sizes["sun_path"] + 20, 300, sizes["lock_name_max"] - 5, sizes["lock_name_max"] - 4,
                     sizes["lock_name_max"] + 8}
        for n in sorted(lens):
            if n > len(ctx.tmp) + 10:
                pspecs.append({"tag": "pl%d" % n, "n": n, "cut": cut, "neighbour": True})
    if pspecs:
        with ThreadPoolExecutor(max_workers=6) as ex:
            res = list(ex.map(lambda sp: (sp, scenario_pathlen(ctx, exe, oracle, sp)), pspecs))
        acc = {}
        for sp, (fails, cbreaks, fct) in res:
            ctx.count(("pathlen", sp["n"], sp.get("neighbour")))
            dist["pathlen"] = dist.get("pathlen", 0) + 1
            acc[str(sp["n"])] = "accepted" if fct.get("accepted") else "refused(exit %s)" % fct.get("exit")
            spx = {k: v for k, v in sp.items() if k != "tag"}
            if fails:
                concrete.append((fails[0], {"scenario": "pathlen", "spec": spx, "all_failures": fails, "facts": fct,
                                            "sizes": sizes,
                                            "how": "d=$(mktemp -d); chmod 755 $d; S=$d/ssss... padded to exactly n bytes; "
                                                   "munged -F -S $S --key-file .. --pid-file .. --seed-file ..; compare the "
                                                   "Path column of /proc/net/unix with $S; (neighbour) start a second munged "
                                                   "on the first cut-1 bytes of $S; SIGTERM both; ls $d"}))
            corr.extend(cbreaks)
        ctx.cov["socket_path_lengths"] = acc
        ctx.sample({"pathlen": {k: v for k, v in pspecs[0].items() if k != "tag"}, "result": res[0][1][2]})
        ctx.log("socket path lengths done: %s; %d with failures" % (
            " ".join("%s:%s" % (k, v.split("(")[0]) for k, v in sorted(acc.items(), key=lambda kv: int(kv[0]))),
            sum(1 for _, (f, _, _) in res if f)))
    # ---- the holder dies while another start is between its lock calls
    if replay is None:
        for which in ((1, 2) if ctx.thorough else (2,)):
            fl, info = scenario_holder_killed_mid_start(ctx, exe, "hk%d" % which, which)
            ctx.count(("holder-killed-mid-start", which))
            dist["holder_killed_mid_start"] = dist.get("holder_killed_mid_start", 0) + 1
            if fl:
                concrete.append((fl[0], {"scenario": "holder-killed-mid-start", "info": info,
                                         "how": "start A; start B under strace -e inject=fcntl:delay_enter=1200000:when=%d; "
                                                "kill -9 A during the delay; wait; start C" % which}))
    fb.join()
    if fb_err:
        raise fb_err[0]
    # ---- finding F-C15-unlink (thorough, or when replaying it)
    if (ctx.thorough and replay is None and not os.environ.get("VERIF_C15_SKIP_FINDING")) or \
            (replay and replay.get("scenario") == "overlap"):
        for attempt in range(3):
            rep, info = scenario_overlap(ctx, exe, "ov%d" % attempt)
            ctx.count(("overlap", attempt))
            if rep:
                ctx.violation("two live munged on one socket path after a clean stop overlapping a start "
                              "(lock file unlinked while locked): B pid %s orphaned, C pid %s serving"
                              % (info["B"], info["C"]),
                              {"finding_key": FINDING_KEY, "scenario": "overlap", "info": info,
                               "model_witness": "C15_shutdown_overlap_refuted: overlap_sched 0 1 2",
                               "how": "start A; start B under strace -e inject=fcntl:delay_enter=2500000:when=1; "
                                      "SIGTERM A once B has the lock file open; wait; start C"}, found_input=True)
                break
        else:
            ctx.notes.append("F-C15-unlink did not reproduce in 3 attempts: %s" % (info,))
        dist["overlap"] = 1
    ctx.cov["input_distribution"] = dist
