"""C05 — a credential decodes successfully at most once per daemon (replay-cache component; the
credential pipeline / live-daemon phase is added by the maintainer after component_phase)."""
import vlib
from props import replay_common

MANIFEST = dict(
    level=("proof", "Coq theorems over an executable model of hash.c + replay.c (ReplayModel; constants and the sampled "
           "behaviour of replay_key_f / replay_cmp_f / replay_is_expired regenerated from the source on every run), for "
           "every slot function (any collision pattern), every table satisfying hash.c's chain invariant and every "
           "operation sequence: the table refines a set of (mac16, t_expired) keys; among sequential presentations the "
           "first of a key is Inserted and every later one Exists; other keys (equal bucket, equal expiry, same MAC other "
           "expiry) never change a verdict; failed attempts are invisible; for every schedule of k concurrent requests "
           "with one atomic insert each, exactly one per fresh key is Inserted.  Tied to the code by running model "
           "(extracted) and replay.c+hash.c (ASan/UBSan/LSan, virtual clock, real threads) on ~1.2k histories per quick "
           "run with a full table dump after every operation.", "7 C05"),
    note="Component level: dec_process' ordering (replay check last, retry exception) and the live concurrent rig are the "
         "pipeline part.  Premise stated, not proved: distinct credentials have distinct (mac16, t_expired).  Trusted: Coq "
         "kernel+vm_compute, gen_facts probe, extraction, harness/driver glue; the C code is modelled and tied by "
         "differential testing, not verified.  Not modelled: ENOMEM paths, got_benchmark.",
    technique="Coq proof (inductive invariant over sorted chains, LTS of atomic inserts) + facts translator + "
              "differential correspondence incl. threads")

PROP = "C05"


def run(ctx):
    ctx.level = "proof"
    proved = vlib.prove(ctx, ["Properties_C05.v", "Properties_C05_pipeline.v"], facts=["replay", "cred", "base64", "cfun"])
    ctx.log("proofs:", "ok" if proved else "BROKEN: " + getattr(ctx, "broken_obligation", "?"))
    ctx.cov["rule"] = ("proof: Properties_C05.v over ReplayModel (facts from replay.c); correspondence: the same histories "
                       "through /repo's replay.c+hash.c and the extracted model, table dumped through hash_for_each after "
                       "every operation; histories = random insert/remove/find/purge/tick sequences over key universes "
                       "built from near-misses (same MAC other expiry, one late byte different, same first 4 bytes, same "
                       "slot of the 65537 table with other bytes, equal expiry) on 1/2/3/7-slot and real-size tables, "
                       "purge ticks at all 60 phases around an expiry second, k=2..32 concurrent requests on 1/2/8 "
                       "threads; every history is non-trivial (distinct by content)")
    res = replay_common.component_phase(ctx, PROP, proved)
    from props import c05_live
    c05_live.live_phase(ctx)
    if not proved and not ctx.violations:
        ctx.violation("proof obligation no longer checks: %s" % getattr(ctx, "broken_obligation", "?"),
                      {"obligation": getattr(ctx, "broken_obligation", "?"), "log": ctx.proof_log[-3000:]},
                      found_input=False)
    return res


MANIFEST["level"] = (MANIFEST["level"][0], MANIFEST["level"][1] + " On the live daemon: concurrent first-attempt decoders, undeliverable replies, and purge histories (credentials whose TTL exceeds the decoder's --max-ttl, decoded at chosen clock readings with the periodic purge fast-forwarded in between by harness/vtimer.c, compared with dec_process + CredHistory.r_purge and checked for a second success).", MANIFEST["level"][2])
