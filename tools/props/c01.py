"""C01 — encode then decode returns the identical payload, identity and options."""
import time
import os, subprocess, zlib
import vlib, rig, credcorr

MANIFEST = dict(
    level=("proof", "Coq theorem `roundtrip` over CredModel (for every configuration pair sharing a key, every well-formed "
           "request, identity, salt, IV, time: encode then first authorized in-window decode returns payload, length, "
           "encoder uid/gid, resolved cipher/MAC/zip, capped TTL, restrictions, origin address, encode time) under stated "
           "hypotheses on the primitives (block cipher invertible per block, decompress inverts compress, MAC length), with "
           "CBC, PKCS#5, base64, armor and both packers defined and proved in Coq; exact credential-length formula for the "
           "length gate. Tied to the code by byte-identical re-encoding of every live credential by the extracted model "
           "(libgcrypt/zlib/bzlib primitives) and field-by-field comparison of every decode reply, over payload sizes at "
           "block/base64/limit boundaries x cipher x MAC x zip x TTL x restrictions, incl. the 1 MiB limit through libmunge.",
           "7 C01"),
    note="Trusted: Coq kernel, extraction, stubs.c (libgcrypt/zlib/bzlib), rig. Primitive hypotheses are premises of the "
         "theorem; OpenSSL vs libgcrypt agreement is observed by the correspondence, not proved.",
    technique="Coq proof (layer-by-layer inverses, induction over blocks/groups) + live differential correspondence")

ANY = 0xFFFFFFFF
CIPHERS = [0, 1, 2, 3, 4, 5]
MACS = [1, 2, 3, 4, 5, 6]
ZIPS = [0, 1, 2, 3]
MACLEN = {2: 16, 3: 20, 4: 20, 5: 32, 6: 64}
KEYLEN = {0: 0, 2: 16, 3: 16, 4: 16, 5: 32}


def payload(rng, kind, n):
    if kind == "zeros":
        return bytes(n)
    if kind == "text":
        return (b"The quick brown fox jumps over the lazy dog. " * (n // 45 + 1))[:n]
    if kind == "random":
        return bytes(rng.getrandbits(8) for _ in range(min(n, 4096))) * (n // 4096) + bytes(rng.getrandbits(8) for _ in range(n % 4096)) if n > 4096 else bytes(rng.getrandbits(8) for _ in range(n))
    if kind == "compressed":
        z = zlib.compress((b"abc" * n))
        return (z * (n // max(len(z), 1) + 1))[:n]
    return b""


def resolve(c, m, z, n):
    rc = 4 if c == 1 else c
    rm = 5 if m == 1 else m
    rz = 0 if z == 1 else z
    if n == 0:
        rz = 0
    return rc, rm, rz


def run(ctx):
    ctx.level = "proof"
    have_props = os.path.exists(os.path.join(vlib.COQ, "Properties_C01.v"))
    proved = vlib.prove(ctx, ["Properties_C01.v", "Properties_C01_lib.v"], facts=["cred", "base64", "libfun"]) if have_props else False
    ctx.log("proofs:", "ok" if proved else "BROKEN/absent: " + getattr(ctx, "broken_obligation", "Properties_C01.v"))
    ctx.cov["rule"] = ("cases = payload size in {0,1,7,8,9,15,16,17,23,24,25,47,48,49,255,256,257,...,64 KiB, ~780 KiB} x content "
                       "{zeros,text,random,compressed} x cipher {none,default,blowfish,cast5,aes128,aes256} x MAC {default,md5,sha1,"
                       "ripemd160,sha256,sha512} x zip {none,default,bzlib,zlib} (full product on small payloads incl. the invalid "
                       "cipher/MAC pairs) x TTL set x restrictions x encoder identity; each: encode on the live daemon, re-encode "
                       "with the extracted model from the recovered salt/IV (byte-identical), decode on both, compare all fields, "
                       "and evaluate the property directly; length gate through libmunge around the 1 MiB limit. "
                       "non-trivial = distinct request tuple")
    try:
        exe, orc = credcorr.build_all(ctx)
    except RuntimeError as e:
        ctx.violation(str(e), {"obligation": "build"}, found_input=False)
        return
    rng = ctx.rng
    fails, mism = [], []
    dist = {}

    def roundtrip(cr, c, m, z, data, ttl=0, au=ANY, ag=ANY, eu=1000, eg=1001, du=0, dg=0, kind="product"):
        r, diff = cr.encode_both(uid=eu, gid=eg, cipher=c, mac=m, zip_=z, ttl=ttl, auth_uid=au, auth_gid=ag, data=data)
        ctx.count((c, m, z, len(data), data[:16], ttl, au, ag, eu, eg))
        dist[kind] = dist.get(kind, 0) + 1
        if diff:
            mism.append(cr.mismatches[-1])
        case = dict(cipher=c, mac=m, zip=z, len=len(data), ttl=ttl, auth_uid=au, auth_gid=ag, euid=eu, egid=eg, data_head=data[:24].hex())
        if r is None:
            fails.append({"why": "no ENC_RSP", **case})
            return
        rc, rm, rz = resolve(c, m, z, len(data))
        valid = (rc in KEYLEN) and (rm in MACLEN) and (rz in (0, 2, 3)) and MACLEN.get(rm, 0) >= KEYLEN.get(rc, 99)
        if not valid:
            if r["error_num"] == 0:
                fails.append({"why": "encode accepted an unsupported/incompatible cipher-MAC-zip choice", **case})
            elif r["data_len"] != 0:
                fails.append({"why": "encode error reply carries data", **case})
            return
        if r["error_num"] != 0:
            fails.append({"why": "encode of a supported request failed: %d %s" % (r["error_num"], r["error_str"]), **case})
            return
        if 4 + len(r["data"]) > (1 << 20):
            return    # credential does not fit a decode request: covered by the length-gate cases
        d, mm, diff = cr.decode_both(r["data"], uid=du, gid=dg)
        if diff:
            mism.append(cr.mismatches[-1])
        if d is None:
            fails.append({"why": "no DEC_RSP", **case})
            return
        mt = getattr(cr, 'max_ttl_cfg', 3600)
        want_ttl = min(min(ttl, mt) if ttl else 300, mt)     # encode: 0 -> default, else clamp; decode: cap again
        problems = []
        if d["error_num"] != 0:
            problems.append("error %d %s" % (d["error_num"], d["error_str"]))
        else:
            if d["data"] != data or d["data_len"] != len(data):
                problems.append("payload differs (len %d vs %d)" % (d["data_len"], len(data)))
            if (d["cred_uid"], d["cred_gid"]) != (eu, eg):
                problems.append("identity %s vs %s" % ((d["cred_uid"], d["cred_gid"]), (eu, eg)))
            if (d["cipher"], d["mac"]) != (rc, rm):
                problems.append("cipher/mac %s vs %s" % ((d["cipher"], d["mac"]), (rc, rm)))
            if d["zip"] not in ((rz, 0) if rz else (0,)):
                problems.append("zip %d vs requested %d" % (d["zip"], rz))
            if d["ttl"] != want_ttl:
                problems.append("ttl %d vs %d" % (d["ttl"], want_ttl))
            if (d["auth_uid"], d["auth_gid"]) != (au, ag):
                problems.append("restrictions differ")
            if d["time0"] != cr.now or d["time1"] != cr.now or d["addr_len"] != 4:
                problems.append("times/address differ")
        if problems:
            fails.append({"why": "round trip broken: " + "; ".join(problems), **case})
        if kind != "product" or rng.random() < 0.01:
            ctx.sample(dict(case, decoded_error=d["error_num"], decoded_zip=d["zip"]), limit=10)

    key = bytes(rng.getrandbits(8) for _ in range(128))
    cr = credcorr.CredRig(ctx, exe, orc, key=key, tag="c01", nthreads=4)
    if not cr.ok:
        ctx.violation("daemon does not start", {"obligation": "start"}, found_input=False)
        return
    # full option product on small payloads (incl. default and invalid pairs)
    for c in CIPHERS:
        for m in MACS:
            for z in ZIPS:
                for n in ((0, 1, 15, 16, 17, 300) if ctx.thorough else (0, 17, 300)):
                    roundtrip(cr, c, m, z, payload(rng, "text", n))
    for bad in ((6, 5, 0), (255, 5, 0), (4, 0, 0), (4, 7, 0), (4, 255, 0), (4, 5, 4), (4, 5, 255)):
        roundtrip(cr, bad[0], bad[1], bad[2], b"x" * 20, kind="invalid-code")
    # sizes at block / base64 / limit boundaries x contents x a cipher/mac/zip sample
    sizes = [0, 1, 2, 3, 7, 8, 9, 15, 16, 17, 23, 24, 25, 31, 32, 33, 47, 48, 49, 63, 64, 65, 255, 256, 257, 1023, 1024, 1025, 4095, 4096, 4097]
    sample = [(4, 5, 0), (2, 3, 3), (5, 6, 2), (0, 2, 3), (3, 4, 0)]
    for n in sizes:
        for kind in ("zeros", "text", "random", "compressed"):
            for (c, m, z) in (sample if ctx.thorough else [sample[(n + len(kind)) % len(sample)], sample[(n * 7 + 1) % len(sample)]]):
                roundtrip(cr, c, m, z, payload(rng, kind, n), kind="sizes")
    for n in ([65535, 65536, 200000, 786000] if ctx.thorough else [65536, 786000]):
        for (c, m, z) in (sample[:3] if n < 700000 or ctx.thorough else sample[:1]):
            roundtrip(cr, c, m, z, payload(rng, "text" if z else "random", n), kind="large")
    # the largest payloads an encode request can carry, compressible: the credential is small, so it fits a decode request
    for n in ((1048536, 1048555, 1048556) if ctx.thorough else (1048556,)):
        roundtrip(cr, 4, 5, 3, (b"largest compressible payload " * (n // 29 + 1))[:n], kind="largest-compressed")
    # extreme compression ratios (round 8: a "decompression-bomb" limit valid for zlib only refused bzlib's own output):
    # long runs of one byte value and short periods, both libraries, with and without a cipher
    for n in ((100000, 300000, 700000, 1048556) if ctx.thorough else (300000, 1048556)):
        for z in (2, 3):
            for ci, (c, data) in enumerate(((0, bytes(n)), (4, b"\xaa" * n), (5, (b"ab" * (n // 2 + 1))[:n]))):
                if ctx.thorough or ci != (2 if z == 2 else 1):
                    roundtrip(cr, c, 5, z, data, kind="high-ratio")
    # TTLs, restrictions, identities
    for ttl in (0, 1, 299, 300, 301, 3599, 3600, 3601, 2 ** 31, 2 ** 32 - 1):
        roundtrip(cr, 4, 5, 0, b"ttl", ttl=ttl, kind="ttl")
    # "every daemon default configuration": the same TTL set on daemons with a small --max-ttl (below the default TTL)
    for mt in ((100, 1, 299) if ctx.thorough else (100,)):
        cr2 = credcorr.CredRig(ctx, exe, orc, key=key, tag="c01mt%d" % mt, max_ttl=mt)
        cr2.max_ttl_cfg = mt
        if cr2.ok:
            for ttl in (0, 1, mt - 1 if mt > 1 else 1, mt, mt + 1, 300, 3600, 2 ** 31, 2 ** 32 - 1):
                roundtrip(cr2, 4, 5, 0, b"ttl under small max", ttl=ttl, kind="ttl-small-max")
            if cr2.mismatches:
                mism.extend(cr2.mismatches)
            cr2.stop()
    for (au, ag, du, dg) in ((ANY, ANY, 7, 8), (7, ANY, 7, 8), (ANY, 8, 7, 8), (7, 8, 7, 8), (0, 0, 0, 0), (2 ** 31, 2 ** 31 + 1, 2 ** 31, 2 ** 31 + 1)):
        roundtrip(cr, 4, 5, 0, b"restricted", au=au, ag=ag, du=du, dg=dg, kind="restriction")
    for (eu, eg) in ((0, 0), (1, 2), (65534, 65535), (65536, 65537), (2 ** 31 - 1, 2 ** 31), (2 ** 32 - 2, 2 ** 32 - 2)):
        roundtrip(cr, 3, 3, 3, b"identity " * 10, eu=eu, eg=eg, kind="identity")
    # "when FIRST decoded by an authorized client": attempts by clients that are not authorized come before it
    for (au, ag, du, dg, wu, wg, data) in ((7, ANY, 7, 8, 9, 8, b"uid-restricted"), (ANY, 8, 7, 8, 7, 9, b""), (0, ANY, 0, 0, 65534, 65534, b"for root"),
                                           (65534, 65534, 65534, 65534, 0, 0, b"not for root")):
        r, diff = cr.encode_both(uid=1000, gid=1001, cipher=4, mac=5, zip_=0, auth_uid=au, auth_gid=ag, data=data)
        if r is None or r["error_num"] != 0:
            continue
        outcomes = []
        for _ in range(2):
            w, mm, diff = cr.decode_both(r["data"], uid=wu, gid=wg)
            outcomes.append(w and w["error_num"])
            if diff:
                mism.append(cr.mismatches[-1])
        d, mm, diff = cr.decode_both(r["data"], uid=du, gid=dg)
        if diff:
            mism.append(cr.mismatches[-1])
        ctx.count(("refused-then-first", au, ag, du, dg, wu, wg))
        dist["refused-then-first"] = dist.get("refused-then-first", 0) + 1
        if d is None or d["error_num"] != 0 or d["data"] != data:
            fails.append({"why": "round trip broken: a credential restricted to (uid %d, gid %d) gives error %s to its FIRST authorized decoder "
                                 "(uid %d gid %d) after attempts by the unauthorized client (uid %d gid %d) answered %s"
                                 % (au, ag, d and (d["error_num"], d["error_str"]), du, dg, wu, wg, outcomes),
                          "cred_hex": r["data"].hex()})
    # "compression reported as none when it would not shrink the data": payloads built to land on and around the tie
    # (n random bytes then zeros), cipher none so the stored interior's length can be read off the credential
    ties = 0
    for n, k in [(n, k) for n in (range(0, 144) if ctx.thorough else list(range(0, 40, 4)) + list(range(40, 144, 26))) for k in range(4, 13)]:
        for z in (2, 3):
            data = bytes(rng.getrandbits(8) for _ in range(n)) + bytes(k)
            r, diff = cr.encode_both(uid=1000, gid=1001, cipher=0, mac=2, zip_=z, data=data)
            if diff:
                mism.append(cr.mismatches[-1])
            if r is None or r["error_num"] != 0:
                continue
            p_ = cr.o.parse(r["data"])
            ctx.count(("zip-tie", n, z, data))
            dist["zip-tie"] = dist.get("zip-tie", 0) + 1
            if p_ is None:
                continue
            import hostile as _h
            body = _h.unarmor(r["data"])
            stored = len(body) - 5 - 16          # outer header (no realm, no IV) and the 16-byte md5 MAC
            plain = 8 + 1 + 4 + 28 + len(data)   # salt, addr_len, addr, 7 words, payload
            ties += (stored in (plain - 1, plain, plain + 1) and p_["msg"]["zip"] != 0) or (p_["msg"]["zip"] == 0)
            if p_["msg"]["zip"] != 0 and stored >= plain:
                fails.append({"why": "round trip broken: compression type %d is reported although it does not shrink the data (stored interior "
                                     "%d bytes, uncompressed %d bytes); 'none' is required" % (p_["msg"]["zip"], stored, plain),
                              "cipher": 0, "mac": 2, "zip": z, "data_hex": data.hex()})
    dist["zip-tie-exact"] = ties
    # random requests
    for _ in range(600 if ctx.thorough else 120):
        c, m, z = rng.choice([0, 1, 2, 3, 4, 5]), rng.choice([1, 2, 3, 4, 5, 6]), rng.choice(ZIPS)
        n = rng.choice([rng.randrange(0, 64), rng.randrange(0, 2000), rng.randrange(0, 20000)])
        roundtrip(cr, c, m, z, payload(rng, rng.choice(["zeros", "text", "random", "compressed"]), n),
                  ttl=rng.choice([0, 1, 60, 3600, 99999]), eu=rng.randrange(0, 2 ** 32 - 1), eg=rng.randrange(0, 2 ** 32 - 1), kind="random")
    # length gate through libmunge: largest payload that still decodes, first that does not, request limit
    lm, err = rig.build_lmclient(ctx)
    if lm is None:
        ctx.violation("libmunge client does not build: " + err[-300:], {"obligation": "build libmunge"}, found_input=False)
    else:
        p = subprocess.Popen([lm, cr.d.sock], stdin=subprocess.PIPE, stdout=subprocess.PIPE, text=True)

        def ask(l):
            p.stdin.write(l + "\n"); p.stdin.flush()
            return p.stdout.readline().split()

        def ref(n):
            return bytes((i * 131 + 7) & 0xff for i in range(n))
        for (c, m, z) in ((0, 5, 0), (4, 5, 0)):
            # credential length = 6 + 4*ceil((outer+mac+inner)/3) + 1 (+NUL); find the boundary by bisection on the daemon
            lo, hi = 700000, 800000
            while hi - lo > 1:
                mid = (lo + hi) // 2
                e = ask("E @%d %d %d %d 0 %d %d" % (mid, c, m, z, ANY, ANY))
                ok = e[1] == "0" and 4 + len(e[2]) // 2 + 1 <= (1 << 20)
                lo, hi = (mid, hi) if ok else (lo, mid)
            for n in (lo - 1, lo, lo + 1, lo + 2, 1048000, 1048544, 1048545, 1048556, 1048557, 1048560, 1100000):
                e = ask("E @%d %d %d %d 0 %d %d" % (n, c, m, z, ANY, ANY))
                ctx.count(("lengthgate", c, m, z, n))
                dist["lengthgate"] = dist.get("lengthgate", 0) + 1
                if e[1] != "0":
                    if e[1] != "3" or e[2] != "-":
                        fails.append({"why": "encode of %d bytes failed with error %s (expected success or EMUNGE_BAD_LENGTH=3)" % (n, e[1]), "len": n})
                    continue
                d = ask("D " + e[2])
                if d[1] == "0":
                    got = b"" if d[13] == "-" else bytes.fromhex(d[13])
                    if got != ref(n) or int(d[12]) != n:
                        fails.append({"why": "payload of %d bytes came back altered or truncated (len %s)" % (n, d[12]), "len": n})
                elif d[1] != "3" or d[13] != "-":
                    fails.append({"why": "decode of a %d-byte payload's credential failed with error %s (expected success or EMUNGE_BAD_LENGTH=3)" % (n, d[1]), "len": n})
                ctx.sample({"lengthgate_payload": n, "cipher": c, "enc_err": e[1], "dec_err": d[1]}, limit=12)
        # "metadata equal to what was requested" as the APPLICATION sees it: options set on a libmunge context, read back from the
        # decoding context (munge_encode/munge_decode marshal every field a second time); three routes per request:
        # library -> library, library -> wire client, wire client -> library
        def lm_fields(d):
            return dict(err=int(d[1]), cipher=int(d[2]), mac=int(d[3]), zip=int(d[4]), ttl=int(d[5]), t0=int(d[6]), t1=int(d[7]), uid=int(d[8]),
                        gid=int(d[9]), au=int(d[10]), ag=int(d[11]), len=int(d[12]), data=b"" if d[13] == "-" else bytes.fromhex(d[13]))

        def lm_meta(route, c, m, z, data, ttl, au, ag, eu, eg, du, dg):
            ctx.count(("lm-meta", route, c, m, z, len(data), ttl, au, ag, eu, eg))
            dist["lm-meta"] = dist.get("lm-meta", 0) + 1
            case = dict(route=route, cipher=c, mac=m, zip=z, len=len(data), ttl=ttl, auth_uid=au, auth_gid=ag, euid=eu, egid=eg, data_hex=data[:48].hex())
            used = "!" if (len(data) + ttl) % 3 == 0 else ""         # a context the application has used before (with failed calls)
            case["used_context"] = bool(used)
            if route[0] == "L":
                e = ask("E%s %s %d %d %d %d %d %d %d %d" % (used, data.hex() or "-", c, m, z, ttl, au, ag, eu, eg))
                if len(e) < 3 or e[1] != "0":
                    fails.append({"why": "round trip broken: munge_encode() of a supported request failed with error %s" % (e[1] if len(e) > 1 else "?"), **case})
                    return
                cred = bytes.fromhex(e[2])
            else:
                r, _ = rig.encode(cr.d.sock, uid=eu, gid=eg, cipher=c, mac=m, zip_=z, ttl=ttl, auth_uid=au, auth_gid=ag, data=data)
                if r is None or r["error_num"] != 0:
                    return
                cred = r["data"].rstrip(b"\0")
            if route[1] == "L":
                f = lm_fields(ask("D%s %s %d %d" % (used, cred.hex(), du, dg)))
            else:
                q, _ = rig.decode(cr.d.sock, cred + b"\0", uid=du, gid=dg)
                if q is None:
                    fails.append({"why": "no DEC_RSP", **case})
                    return
                f = dict(err=q["error_num"], cipher=q["cipher"], mac=q["mac"], zip=q["zip"], ttl=q["ttl"], t0=q["time0"], t1=q["time1"], uid=q["cred_uid"],
                         gid=q["cred_gid"], au=q["auth_uid"], ag=q["auth_gid"], len=q["data_len"], data=q["data"])
            rc, rm, rz = resolve(c, m, z, len(data))
            want_ttl = min(min(ttl, 3600) if ttl else 300, 3600)
            bad = []
            if f["err"] != 0:
                bad.append("error %d" % f["err"])
            else:
                if f["data"] != data or f["len"] != len(data):
                    bad.append("payload differs (len %d vs %d)" % (f["len"], len(data)))
                if (f["uid"], f["gid"]) != (eu, eg):
                    bad.append("identity %s vs %s" % ((f["uid"], f["gid"]), (eu, eg)))
                if (f["cipher"], f["mac"]) != (rc, rm):
                    bad.append("cipher/mac %s vs %s" % ((f["cipher"], f["mac"]), (rc, rm)))
                if f["zip"] not in ((rz, 0) if rz else (0,)):
                    bad.append("zip %d vs requested %d" % (f["zip"], rz))
                if f["ttl"] != want_ttl:
                    bad.append("ttl %d vs %d" % (f["ttl"], want_ttl))
                if (f["au"], f["ag"]) != (au, ag):
                    bad.append("restrictions %s vs %s" % ((f["au"], f["ag"]), (au, ag)))
                if f["t0"] != cr.now or f["t1"] != cr.now:
                    bad.append("encode/decode times %s vs %d" % ((f["t0"], f["t1"]), cr.now))
            if bad:
                fails.append({"why": "round trip broken (%s): %s" % ({"LL": "munge_encode -> munge_decode", "LW": "munge_encode -> wire decode",
                                                                       "WL": "wire encode -> munge_decode"}[route], "; ".join(bad)), **case})
        lm_cases = [(c, m, z) for c in (0, 1, 2, 3, 4, 5) for m in (1, 2, 3, 4, 5, 6) for z in ZIPS]
        lm_cases = [t for t in lm_cases if MACLEN.get(resolve(*t, 1)[1], 0) >= KEYLEN.get(resolve(*t, 1)[0], 99)]
        rng.shuffle(lm_cases)
        for i, (c, m, z) in enumerate(lm_cases if ctx.thorough else lm_cases[:36]):
            n = rng.choice([0, 1, rng.randrange(2, 64), rng.randrange(64, 3000), rng.randrange(3000, 70000)])
            data = payload(rng, rng.choice(["zeros", "text", "random"]), n)
            ttl = rng.choice([0, 1, 60, 299, 301, 3599, 3600, 3601, 99999, 2 ** 31 - 1, 2 ** 31, 2 ** 31 + 1, 3000000000, 2 ** 32 - 2, 2 ** 32 - 1])
            eu, eg = rng.choice([(0, 0), (1000, 1001), (65534, 65533), (2 ** 31 + 5, 2 ** 31 + 6), (2 ** 32 - 2, 2 ** 32 - 3)])
            au, ag, du, dg = rng.choice([(ANY, ANY, 7, 8), (7, ANY, 7, 9), (ANY, 8, 6, 8), (7, 8, 7, 8), (0, 0, 0, 0), (2 ** 31 + 1, 2 ** 31 + 2, 2 ** 31 + 1, 2 ** 31 + 2),
                                         (ANY, ANY, 0, 0)])
            lm_meta(("LL", "LW", "WL")[i % 3], c, m, z, data, ttl, au, ag, eu, eg, du, dg)
        p.stdin.close()
        p.wait()
        # "when first decoded": the application's ONE munge_decode() call, also when a reply is lost on the way and the library
        # silently repeats the request (the daemon has already recorded the credential by then)
        import proxy
        px = proxy.FaultProxy(os.path.join(cr.d.dir, "px01"), cr.d.sock)
        p2 = subprocess.Popen([lm, px.listen_path], stdin=subprocess.PIPE, stdout=subprocess.PIPE, text=True)

        def ask2(l):
            p2.stdin.write(l + "\n"); p2.stdin.flush()
            return p2.stdout.readline().split()
        for (c, m, z, n) in ((4, 5, 0, 40), (0, 3, 3, 3000), (2, 6, 2, 70000)):
            for plan in ([("L", 0)], [("L", 30), ("L", 0)]):
                px.set_plan([])
                e = ask2("E @%d %d %d %d 0 %d %d" % (n, c, m, z, ANY, ANY))
                if e[1] != "0":
                    continue
                px.set_plan(plan)
                d = ask2("D " + e[2])
                ctx.count(("lost-reply", c, m, z, n, len(plan)))
                dist["lost-reply"] = dist.get("lost-reply", 0) + 1
                got = b"" if (len(d) < 14 or d[13] == "-") else bytes.fromhex(d[13])
                if len(d) < 14 or d[1] != "0" or got != ref(n):
                    fails.append({"why": "round trip broken: the application's first munge_decode() of a fresh credential (%d-byte payload, cipher %d "
                                         "mac %d zip %d) returned error %s when %d reply/replies were lost on the way and libmunge repeated the "
                                         "request" % (n, c, m, z, d[1] if len(d) > 1 else "?", len(plan)), "len": n})
        p2.stdin.close()
        p2.wait()
        px.close()
    # authorized through supplementary membership, with a group database whose lines exceed the daemon's initial buffer
    exe_n, err_n = rig.build_daemon(ctx, name="munged-c01nss", san="address", extra_src=[os.path.join(vlib.HARNESS, "nss_shim.c")],
                                    wraps=credcorr.NSS_WRAPS)
    if exe_n is not None:
        big = ["m%03d" % i for i in range(260)]
        dbn = {"groups": [(799, ["amy"]), (800, big), (801, ["zed"]), (802, big[:200] + ["zed"])],
               "users": [("amy", 3098), ("zed", 3100)] + [(u, 4000 + i) for i, u in enumerate(big)]}
        dn = rig.Daemon(ctx, exe_n, tag="c01nss", nss_db=dbn)
        if dn.start():
            time.sleep(0.5)
            for (uid_, g_) in ((3098, 799), (3100, 801), (3100, 802), (4007, 800)):
                r_, _ = rig.encode(dn.sock, uid=1000, gid=1001, auth_gid=g_, data=b"for the group")
                q_, _ = rig.decode(dn.sock, r_["data"], uid=uid_, gid=77) if r_ and r_["error_num"] == 0 else (None, None)
                ctx.count(("nss-long-lines", uid_, g_))
                dist["nss-long-lines"] = dist.get("nss-long-lines", 0) + 1
                if q_ is None or q_["error_num"] != 0 or q_["data"] != b"for the group":
                    fails.append({"why": "round trip broken: a credential restricted to GID %d, first decoded by uid %d who is listed in that group "
                                         "(group database with lines above 1 KiB before/at that group), gives %s"
                                         % (g_, uid_, q_ and (q_["error_num"], q_["error_str"])), "gid": g_})
            dn.stop()
    rc, rep = cr.stop()
    if rep.strip():
        ctx.violation("sanitizer report from the daemon during C01 cases", {"report": rep[:3000]}, found_input=False)
    ctx.cov["input_distribution"] = dist
    ctx.cov["traces_validated_against_impl"] = ctx.cov["evaluations"]
    seen = set()
    for f in fails:
        k = f["why"][:48]
        if k in seen:
            continue
        seen.add(k)
        ctx.violation(f["why"] + ("" if proved else "  [and the proof obligation no longer checks: %s]"
                                 % getattr(ctx, "broken_obligation", "?")), f, found_input=True)
    if not fails and mism:
        ctx.violation("model and daemon disagree on %d cases (first: %s %s); the property evaluated directly holds on all cases"
                      % (len(mism), mism[0]["op"], mism[0]["diff"]), {"obligation": "correspondence CredModel ~ munged (C01)", "first": mism[0]},
                      found_input=False)
    if not fails and not mism and not proved:
        ctx.violation("proof obligation no longer checks: %s" % getattr(ctx, "broken_obligation", "Properties_C01.v missing"),
                      {"obligation": getattr(ctx, "broken_obligation", "?"), "log": ctx.proof_log[-3000:]}, found_input=False)
