"""C03 — credential identity is the kernel-attested identity of the requester."""
import os, struct
import vlib, rig, credcorr

MANIFEST = dict(
    level=("proof", "Coq theorems over CredModel: enc_pre overwrites the identity fields with the kernel-reported peer for "
           "every request content; the INNER layer carries exactly those words at the documented offsets; end to end "
           "(corollary of the round trip) the uid/gid a decoder is told are the encoder's peer ids for all 32-bit values; the "
           "authorization decision uses the decoding request's own peer. Tied to the code by live requests from processes "
           "with effective ids across the 32-bit range, crafted raw ENC_REQs carrying uid/gid-looking fields, alternating "
           "identities on a one-thread daemon, each credential parsed by the extracted model and decoded by the daemon.",
           "7 C03"),
    note="That getsockopt(SO_PEERCRED) reports the connecting process's effective ids is the kernel's contract (trusted).",
    technique="Coq proof (frame lemmas + round-trip corollary) + live differential correspondence with setegid/seteuid clients")

ANY = 0xFFFFFFFF
IDS = [0, 1, 1000, 65534, 65535, 65536, 2 ** 31 - 1, 2 ** 31, 2 ** 32 - 2]


def run(ctx):
    import conc
    ctx.level = "proof"
    proved = vlib.prove(ctx, ["Properties_C03.v", "Properties_CredSource.v"], facts=["cred", "base64", "cfun", "credsrc"])   # CredSource: enc/dec_authenticate translated from the C text = the model (failure of auth_recv included)
    ctx.log("proofs:", "ok" if proved else "BROKEN: " + getattr(ctx, "broken_obligation", "?"))
    ctx.cov["rule"] = ("clients with (euid, egid) in {0,1,1000,65534,65535,65536,2^31-1,2^31,2^32-2}^2 (quick: a covering subset) "
                       "send well-formed ENC_REQs, ENC_REQs whose payload/realm/restriction fields are uid/gid-looking words, "
                       "ENC_REQ headers followed by a DEC_RSP-shaped body or trailing identity words; every credential is parsed "
                       "by the extracted model and decoded by the daemon: recorded uid/gid must equal the peer; identities "
                       "alternate on a single worker thread; restricted credentials are decoded by varying peers. "
                       "non-trivial = distinct (peer, request shape)")
    try:
        exe, orc = credcorr.build_all(ctx)
    except RuntimeError as e:
        ctx.violation(str(e), {"obligation": "build"}, found_input=False)
        return
    # a second build: substituted group/passwd databases + a switch that makes the kernel's identity lookup fail
    exe2, err2 = rig.build_daemon(ctx, name="munged-c03f", san="address",
                                  extra_src=[os.path.join(vlib.HARNESS, "nss_shim.c"), os.path.join(vlib.HARNESS, "peercred_fault.c")],
                                  wraps=credcorr.NSS_WRAPS + ["getsockopt"])
    if exe2 is None:
        ctx.violation("munged does not build with the identity-fault shim: " + err2[-300:], {"obligation": "build"}, found_input=False)
        return
    rng = ctx.rng
    cr = credcorr.CredRig(ctx, exe, orc, tag="c03", nthreads=1)
    if not cr.ok:
        ctx.violation("daemon does not start", {"obligation": "start"}, found_input=False)
        return
    fails, mism = [], []
    dist = {}
    pairs = [(u, g) for u in IDS for g in IDS] if ctx.thorough else \
        [(IDS[i], IDS[(i * 4 + 3) % len(IDS)]) for i in range(len(IDS))] + [(IDS[(i * 2 + 1) % len(IDS)], IDS[i]) for i in range(len(IDS))]

    def check_cred(kind, u, g, cred):
        p = cr.o.parse(cred)
        d, m, diff = cr.decode_both(cred, uid=7, gid=8)
        ctx.count((kind, u, g))
        dist[kind] = dist.get(kind, 0) + 1
        if diff:
            mism.append(cr.mismatches[-1])
        got_model = (p["msg"]["cred_uid"], p["msg"]["cred_gid"]) if p else None
        got_daemon = (d["cred_uid"], d["cred_gid"]) if d and d["error_num"] == 0 else None
        if got_model != (u, g) or got_daemon != (u, g):
            fails.append({"why": "credential requested by euid=%d egid=%d (%s request) records identity %s (independent parse) / %s "
                                 "(daemon decode)" % (u, g, kind, got_model, got_daemon), "peer": (u, g), "kind": kind})
        ctx.sample({"kind": kind, "peer": [u, g], "recorded": got_daemon}, limit=10)

    for (u, g) in pairs:
        # plain request
        r, diff = cr.encode_both(uid=u, gid=g, data=b"plain")
        if diff:
            mism.append(cr.mismatches[-1])
        if r is None or r["error_num"] != 0:
            fails.append({"why": "encode failed for peer %s: %s" % ((u, g), r and r["error_str"]), "peer": (u, g)})
            continue
        check_cred("plain", u, g, r["data"])
        # the header's retry counter is a byte the client controls: a request flagged as a retransmission, arriving right
        # after a request of ANOTHER peer on the recycled descriptor, still carries the identity the kernel attests for ITS
        # connection (round 8: an identity remembered per descriptor number and reused when retry > 0)
        other_u, other_g = (0, 0) if u else (4242, 4243)
        for rt in ((1, 2, 3, 4, 5, 255) if ctx.thorough else (1, 4)):
            rig.encode(cr.d.sock, uid=other_u, gid=other_g, data=b"previous peer")
            e, st = rig.encode(cr.d.sock, uid=u, gid=g, retry=rt, data=b"flagged as retry %d" % rt)
            if e and e["error_num"] == 0:
                check_cred("retry-flagged", u, g, e["data"])
            else:
                ctx.count(("retry-flagged", u, g, rt, "refused"))
        # request stuffed with other identities everywhere a client controls bytes
        fake_u, fake_g = (0, 0) if u else (4242, 4243)
        words = struct.pack(">II", fake_u, fake_g) * 6
        r, diff = cr.encode_both(uid=u, gid=g, data=words, realm=words[:16], auth_uid=ANY, auth_gid=ANY, ttl=fake_u or 1)
        if r and r["error_num"] == 0:
            check_cred("stuffed", u, g, r["data"])
        # raw: ENC_REQ header + DEC_RSP-shaped body (error fields, cipher.., time0, time1, cred_uid, cred_gid, auth..)
        body = rig.enc_req_body(data=b"x")
        decrsp_like = bytes([0, 0, 4, 5, 0, 0]) + struct.pack(">IB", 300, 4) + b"\x7f\0\0\1" + \
            struct.pack(">IIIIIII", 1, 2, fake_u, fake_g, ANY, ANY, 0)
        for kind, raw in (("trailing-words", rig.hdr(2, 0, len(body) + 8) + body + struct.pack(">II", fake_u, fake_g)),
                          ("decrsp-body", rig.hdr(2, 0, len(decrsp_like)) + decrsp_like)):
            h, b, rawrep, st = rig.transact(cr.d.sock, raw, uid=u, gid=g)
            if h and h[2] == rig.T_ENC_RSP:
                try:
                    e = rig.parse_enc_rsp(b)
                except rig.ParseError:
                    e = None
                if e and e["error_num"] == 0:
                    check_cred(kind, u, g, e["data"])
                else:
                    ctx.count((kind, u, g, "refused"))
            else:
                ctx.count((kind, u, g, "closed"))
    # the decoder's identity: a credential restricted to (u, g) decodes only for that peer, whoever asked before
    for (u, g) in pairs[:6]:
        r, _ = cr.encode_both(uid=5, gid=6, auth_uid=u, auth_gid=g, data=b"for you only")
        if r is None or r["error_num"] != 0:
            continue
        for (du, dg) in ((u ^ 1, g), (u, g ^ 1), (u, g)):
            if du > 2 ** 32 - 2 or dg > 2 ** 32 - 2:
                continue
            d, m, diff = cr.decode_both(r["data"], uid=du, gid=dg)
            ctx.count(("dec-peer", u, g, du, dg))
            dist["dec-peer"] = dist.get("dec-peer", 0) + 1
            if diff:
                mism.append(cr.mismatches[-1])
            want = 0 if (du, dg) == (u, g) else 18
            if (du, dg) != (u, g):
                # the same unauthorized peer again, flagged as a retransmission, right after a request of the authorized
                # peer (any request: an encode) on the recycled descriptor
                rig.encode(cr.d.sock, uid=u, gid=g, data=b"authorized peer was here")
                d2, _ = rig.decode(cr.d.sock, r["data"], uid=du, gid=dg, retry=1)
                ctx.count(("dec-peer-retry", u, g, du, dg))
                dist["dec-peer-retry"] = dist.get("dec-peer-retry", 0) + 1
                if d2 is None or d2["error_num"] != 18 or d2["data_len"] != 0:
                    fails.append({"why": "credential restricted to uid=%d gid=%d, asked for by peer uid=%d gid=%d in a request flagged as "
                                         "retry 1 right after a request of the authorized peer, gave error %s with %s payload bytes, expected 18 "
                                         "(the identity of an EARLIER connection decided)" % (u, g, du, dg, d2 and d2["error_num"], d2 and d2["data_len"]),
                                  "cred_hex": r["data"].hex()})
            if d is None or d["error_num"] != want:
                fails.append({"why": "credential restricted to uid=%d gid=%d decoded by peer uid=%d gid=%d gave error %s, expected %d"
                                     % (u, g, du, dg, d and d["error_num"], want)})
    # "nothing in the request can set or influence" the decoder's identity either: credentials built from the format
    # description under this daemon's key (a peer node's) whose fields in front of the decision - origin address of every
    # length, with the wanted identity spelled in every 4-byte position - try to reach it
    import pyref, struct as _st
    for (ru, rg) in ((4242, ANY), (ANY, 4343), (4242, 4343), (0, ANY)):
        want_u = ru if ru != ANY else 1000
        want_g = rg if rg != ANY else 1000
        for alen in (0, 3, 4, 5, 8, 12, 16, 20, 24, 64, 255):
            for pat in ("uid", "gid", "uidgid"):
                word = {"uid": _st.pack("=I", want_u), "gid": _st.pack("=I", want_g), "uidgid": _st.pack("=II", want_u, want_g)}[pat]
                addr = (word * 70)[:alen]
                if pat != "uid" and alen in (4,):
                    continue
                cred = pyref.mint(cr.d.key, mac=5, cipher=0, addr=addr, time0=cr.now, ttl=300, uid=5, gid=6, auth_uid=ru, auth_gid=rg,
                                  data=b"not for uid 1000")
                d, _ = rig.decode(cr.d.sock, cred, uid=1000 if ru != 1000 else 1001, gid=1000)
                ctx.count(("dec-origin", ru, rg, alen, pat))
                dist["dec-origin"] = dist.get("dec-origin", 0) + 1
                if d is not None and (d["error_num"] in (0, 15, 16, 17) or d["data_len"] != 0):
                    fails.append({"why": "a credential restricted to (uid %s, gid %s), built under the daemon's key with a %d-byte origin address "
                                         "spelling that identity, was decoded for the peer uid=1000 gid=1000: error %d, %d payload bytes - a field "
                                         "of the request reached the identity used for the authorization decision"
                                         % (ru, rg, alen, d["error_num"], d["data_len"]), "cred_hex": cred.hex()})
    # --- the decoder's identity in the supplementary-group decision: membership of the DECODING uid counts, never
    #     that of the uid recorded in the credential
    db = {"groups": [(800, ["mem"]), (801, ["enc"])], "users": [("mem", 6001), ("enc", 6002), ("out", 6003)]}
    members = [(6001, 800), (6002, 801)]
    flag = os.path.join(ctx.tmp, "peercred-fault")
    cg = credcorr.CredRig(ctx, exe2, orc, tag="c03g", nthreads=1, nss_db=db)
    cg.d.env["VERIF_PEERCRED_FAULT"] = flag
    if cg.ok:
        cg.d.stop()
        cg.d.start()          # restart with the environment variable in place
        import time as _t
        _t.sleep(0.4)
        for (eu, ag, du, want) in ((6002, 800, 6001, 0), (6001, 800, 6003, 18), (6001, 800, 6002, 18), (6002, 801, 6001, 18), (6003, 801, 6002, 0)):
            r, _ = cg.encode_both(uid=eu, gid=9000 + eu, auth_gid=ag, data=b"group restricted")
            if r is None or r["error_num"] != 0:
                continue
            d, m, diff = cg.decode_both(r["data"], uid=du, gid=9500, members=members)
            ctx.count(("dec-suppgroup", eu, ag, du))
            dist["dec-suppgroup"] = dist.get("dec-suppgroup", 0) + 1
            if diff:
                mism.append(cg.mismatches[-1])
            if d is None or d["error_num"] != want:
                fails.append({"why": "credential of uid %d restricted to gid %d, decoded by uid %d (supplementary membership: %s): error %s, expected %d "
                                     "- the membership that counts is the decoding client's" % (eu, ag, du, (du, ag) in members, d and d["error_num"], want),
                              "kind": "dec-suppgroup"})
        # --- fault: the kernel's identity lookup fails.  No credential may be issued or decoded on a guessed identity.
        open(flag, "w").close()
        for (u, g) in ((4242, 2424242424), (0, 0), (1000, 1000)):
            r, st = rig.encode(cg.d.sock, uid=u, gid=g, data=b"identity lookup fails")
            ctx.count(("peercred-fault-enc", u, g))
            dist["peercred-fault"] = dist.get("peercred-fault", 0) + 1
            # a reply that reports the failure but carries a credential all the same (round 8) is an issued credential too
            if r is not None and (r["error_num"] == 0 or r.get("data")):
                p = cg.o.parse(r["data"])
                fails.append({"why": "SO_PEERCRED lookup failed for a client with euid=%d egid=%d, yet a credential was issued (reply error %d, %d "
                                     "credential bytes) recording identity %s"
                                     % (u, g, r["error_num"], len(r["data"]), p and (p["msg"]["cred_uid"], p["msg"]["cred_gid"])), "kind": "peercred-fault"})
        os.unlink(flag)
        goods = []
        for (au, ag) in ((77, ANY), (0, ANY), (ANY, 0), (0, 0)):      # incl. the identity a zeroed, never-filled lookup would yield
            good, _ = rig.encode(cg.d.sock, uid=31, gid=32, auth_uid=au, auth_gid=ag, data=b"restricted")
            if good and good["error_num"] == 0:
                goods.append((au, ag, good["data"]))
        open(flag, "w").close()
        for (au, ag, gc) in goods:
            for (u, g) in ((77, 1), (78, 1), (0, 0), (4321, 4321)):
                d, st = rig.decode(cg.d.sock, gc, uid=u, gid=g)
                ctx.count(("peercred-fault-dec", au, ag, u, g))
                dist["peercred-fault"] = dist.get("peercred-fault", 0) + 1
                if d is not None and (d["error_num"] in (0, 15, 16, 17) or d["data_len"] != 0):
                    fails.append({"why": "SO_PEERCRED lookup failed for a decoding client (euid=%d egid=%d), yet the credential restricted to "
                                         "(uid %d, gid %d) was disclosed (error %d)" % (u, g, au, ag, d["error_num"]), "kind": "peercred-fault"})
        os.unlink(flag)
        c = rig.canary(cg.d.sock)
        if c:
            fails.append({"why": "after the identity-lookup faults: " + c, "kind": "peercred-fault"})
        rcg, repg = cg.stop()
        if repg.strip():
            ctx.violation("sanitizer report from the daemon during the C03 fault cases", {"report": repg[:3000]}, found_input=False)
    rc, rep = cr.stop()
    if rep.strip():
        ctx.violation("sanitizer report from the daemon during C03 cases", {"report": rep[:3000]}, found_input=False)
    # the statement does not depend on how the daemon was started: the same under the documented options that change which
    # services run (--benchmark disables the timers and the group map; --num-threads; --origin)
    for opts in (["--benchmark"], ["--num-threads=1", "--origin=127.0.0.1"]):
        co = credcorr.CredRig(ctx, exe, orc, tag="c03opt", nthreads=2, extra=opts)
        if not co.ok:
            ctx.violation("daemon does not start with %s" % " ".join(opts), {"obligation": "start"}, found_input=False)
            continue
        for (u, g) in pairs[:5] + [(54321, 12345)]:
            r, st = rig.encode(co.d.sock, uid=u, gid=g, cipher=0, data=b"opt")
            ctx.count(("opts", tuple(opts), u, g))
            dist["options"] = dist.get("options", 0) + 1
            if r is None or r["error_num"] != 0:
                fails.append({"why": "encode failed for peer %s under %s: %s" % ((u, g), opts, r and r["error_str"]), "kind": "options"})
                continue
            p_ = co.o.parse(r["data"])
            got = (p_["msg"]["cred_uid"], p_["msg"]["cred_gid"]) if p_ else None
            if got != (u, g):
                fails.append({"why": "under %s a credential requested by euid=%d egid=%d records identity %s" % (" ".join(opts), u, g, got),
                              "kind": "options", "cred_hex": r["data"].hex()})
            # the decoding client's identity is the kernel's too: a credential for uid 0 only is not for (u, g) != root
            r0, st = rig.encode(co.d.sock, uid=5, gid=6, auth_uid=0, data=b"root only")
            if r0 and r0["error_num"] == 0 and u != 0:
                d, st = rig.decode(co.d.sock, r0["data"], uid=u, gid=g)
                if d is None or d["error_num"] in (0, 15, 16, 17) or d["data_len"] != 0:
                    fails.append({"why": "under %s a credential restricted to uid 0 was disclosed to the client euid=%d egid=%d: %s"
                                         % (" ".join(opts), u, g, d and (d["error_num"], d["data"][:20])), "kind": "options"})
        rco, repo = co.stop()
        if repo.strip():
            ctx.violation("sanitizer report from the daemon under %s" % " ".join(opts), {"report": repo[:3000]}, found_input=False)
    # ... nor on where the daemon runs relative to its clients: munged in its own PID namespace (a container sharing the socket
    # directory): the kernel then reports pid 0 for the peer, uid and gid as ever
    import shutil
    if shutil.which("unshare"):
        dn = rig.Daemon(ctx, exe, tag="c03ns", nthreads=2, launcher=["unshare", "--pid", "--fork", "--kill-child=TERM"])
        if dn.start():
            for (u, g) in pairs[:4] + [(54321, 12345), (0, 7)]:
                r, st = rig.encode(dn.sock, uid=u, gid=g, cipher=0, mac=5, zip_=0, data=b"ns")
                ctx.count(("pidns", u, g))
                dist["pid-namespace"] = dist.get("pid-namespace", 0) + 1
                if r is None or r["error_num"] != 0:
                    fails.append({"why": "munged in its own PID namespace: encode failed for peer %s: %s" % ((u, g), r and r["error_str"]), "kind": "pidns"})
                    continue
                got = conc.cred_ids(r["data"]) if True else None
                if got != (u, g):
                    fails.append({"why": "munged in its own PID namespace: a credential requested by euid=%d egid=%d records identity %s"
                                         % (u, g, got), "kind": "pidns", "cred_hex": r["data"].hex()})
                r0, st = rig.encode(dn.sock, uid=5, gid=6, auth_uid=0, data=b"root only")
                if r0 and r0["error_num"] == 0 and u != 0:
                    dd, st = rig.decode(dn.sock, r0["data"], uid=u, gid=g)
                    if dd is None or dd["error_num"] in (0, 15, 16, 17) or dd["data_len"] != 0:
                        fails.append({"why": "munged in its own PID namespace: a credential restricted to uid 0 was disclosed to euid=%d egid=%d"
                                             % (u, g), "kind": "pidns"})
            dn.stop()
        else:
            ctx.notes.append("munged could not be started under unshare --pid (phase skipped)")
    # per-connection: clients with different identities (values >= 2^31 included) being authenticated at the same instant
    probs, rep, nreq = conc.identity_race(ctx, exe, nclients=12, seconds=20.0 if ctx.thorough else 5.0, nthreads=8)
    dist["concurrent-identity-requests"] = nreq
    ctx.count(("identity-race", 12))
    ctx.log("identity race: %d requests, %d problems" % (nreq, len(probs)))
    for pb in probs:
        fails.append(dict(pb, kind="race"))
    if rep.strip():
        ctx.violation("sanitizer report from the daemon during the concurrent identity phase", {"report": rep[:3000]}, found_input=False)
    ctx.cov["input_distribution"] = dist
    ctx.cov["traces_validated_against_impl"] = ctx.cov["evaluations"]
    seen = set()
    for f in fails:
        k = f["why"][:40] + str(f.get("kind"))
        if k in seen:
            continue
        seen.add(k)
        ctx.violation(f["why"], f, found_input=True)
    if not fails and mism:
        ctx.violation("model and daemon disagree on %d cases (first: %s)" % (len(mism), mism[0]["diff"]),
                      {"obligation": "correspondence CredModel ~ munged (C03)", "first": mism[0]}, found_input=False)
    if not fails and not mism and not proved:
        ctx.violation("proof obligation no longer checks: %s" % getattr(ctx, "broken_obligation", "?"),
                      {"obligation": getattr(ctx, "broken_obligation", "?"), "log": ctx.proof_log[-3000:]}, found_input=False)


MANIFEST["level"] = (MANIFEST["level"][0], MANIFEST["level"][1] + ' Also 8 client processes with distinct identities (values >= 2^31 included) being authenticated at the same instant on a 2-thread daemon (tools/conc.py).', MANIFEST["level"][2])
