"""C18, clock arithmetic: /repo's clock.c (linked unchanged, clock_gettime pinned) against (1) the functions translated
from its C text (gen/GenClockFun.v) and TimerModel's ts_add_ms / ts_le, evaluated with vm_compute inside Coq on the same
cases, and (2) an independent statement of the property: the deadline is exactly `ms` milliseconds after the reading, it
is a valid timespec (0 <= tv_nsec < 10^9: pthread_cond_timedwait answers EINVAL otherwise, which is fatal to munged),
and `expired` is exactly deadline <= now."""
import os, sys
sys.path.insert(0, os.path.dirname(os.path.dirname(os.path.abspath(__file__))))
import vlib

NS = 10 ** 9


def gen_cases(ctx):
    r = ctx.rng
    n = 6000 if ctx.thorough else 900
    cases = []
    # boundary grid: every reading/relative time whose nanosecond sum lands on, one below and one above the second
    for ms in (0, 1, 2, 999, 1000, 1001, 1999, 2000, 2001, 32768000, 32767999, 60000, 3600000, -1, -1000):
        frac = (ms % 1000) * 10 ** 6 if ms > 0 else 0
        for nsec in {0, 1, NS - 1, NS - frac if 0 < frac else 0, max(0, NS - frac - 1), min(NS - 1, NS - frac + 1)}:
            cases.append("A 0 %d %d %d" % (r.choice([0, 1, 1700000000, 2 ** 31 - 1, 2 ** 32 - 1]), nsec % NS, ms))
    for _ in range(n):
        k = r.random()
        sec = r.choice([0, 1, r.randrange(0, 2 ** 33), 1700000000 + r.randrange(0, 10 ** 6)])
        ms = r.choice([r.randrange(1, 5000), r.randrange(1, 40000000), r.randrange(1, 1000)])
        frac = (ms % 1000) * 10 ** 6
        if k < 0.45:
            nsec = (NS - frac + r.choice([-1, 0, 1, 0, 0])) % NS if r.random() < 0.6 else r.randrange(0, NS)
            cases.append("A 0 %d %d %d" % (sec, nsec, ms))
        elif k < 0.5:
            cases.append("A -1 %d %d %d" % (sec, r.randrange(0, NS), ms))
        elif k < 0.75:
            a = (sec, r.randrange(0, NS))
            b = r.choice([a, (a[0], (a[1] + r.choice([-1, 1])) % NS), (a[0] + r.choice([-1, 1]), r.randrange(0, NS)),
                          (r.randrange(0, 2 ** 33), r.randrange(0, NS))])
            cases.append("L %d %d %d %d" % (a + b))
        else:
            a = (sec, r.randrange(0, NS))
            b = r.choice([a, (a[0], (a[1] + r.choice([-1, 1])) % NS), (a[0] + r.choice([-1, 1]), r.randrange(0, NS)),
                          (a[0] + 1, 0), (a[0], NS - 1)])
            cases.append("E %d %d %d %d %d" % ((0 if r.random() < 0.9 else -1,) + a + b))
    return cases


def spec(line):
    """the property, stated independently (exact integer arithmetic on nanoseconds)"""
    f = line.split()
    v = [int(x) for x in f[1:]]
    if f[0] == "A":
        g, s, n, ms = v
        if g != 0:
            return "-1 -7 -7"
        t = s * NS + n + (ms * 10 ** 6 if ms > 0 else 0)
        return "0 %d %d" % (t // NS, t % NS)
    if f[0] == "L":
        return "1" if v[0] * NS + v[1] <= v[2] * NS + v[3] else "0"
    g, s, n, ts, tn = v
    return "-1" if g != 0 else ("1" if ts * NS + tn <= s * NS + n else "0")


def coq_term(line):
    f = line.split()
    v = ["(%s)" % x for x in f[1:]]
    if f[0] == "A":
        return ("(let '(rv, (s, n)) := src_clock_get_timespec %s (%s, %s) (-7, -7) %s in [rv; s; n], "
                "let '(s, n) := ts_add_ms (%s, %s) %s in [s; n])" % (v[0], v[1], v[2], v[3], v[1], v[2], v[3]))
    if f[0] == "L":
        return "([src_clock_is_timespec_le (%s, %s) (%s, %s)], [b2z (ts_le (%s, %s) (%s, %s))])" % (v[0], v[1], v[2], v[3], v[0], v[1], v[2], v[3])
    return "([src_clock_is_timespec_expired %s (%s, %s) (%s, %s)], [b2z (ts_le (%s, %s) (%s, %s))])" % (v[0], v[1], v[2], v[3], v[4], v[3], v[4], v[1], v[2])


def clock_phase(ctx, proved):
    R = vlib.REPO
    exe, err = vlib.cc(ctx, "clockh", [os.path.join(vlib.HARNESS, "clock_harness.c"), os.path.join(R, "src/munged/clock.c")],
                       libs=["-Wl,--wrap=clock_gettime"])
    if exe is None:
        ctx.violation("clock harness does not build against /repo: " + err[-500:],
                      {"obligation": "correspondence C18 clock (build)", "stderr": err}, found_input=False)
        return
    replay = None
    if getattr(ctx, "replay", None):
        import json
        replay = json.load(open(ctx.replay)).get("clock_case")
        if not replay:
            return
    cases = [replay] if replay else gen_cases(ctx)
    rc, out, err = vlib.run_lines([exe], cases, timeout=120)
    kinds = {}
    for c in cases:
        kinds[c[0]] = kinds.get(c[0], 0) + 1
        ctx.count("clock:" + c)
    bad = []
    for i, c in enumerate(cases):
        got = out[i].strip() if i < len(out) else "<no answer: rc %s %s>" % (rc, err[-300:])
        if got != spec(c):
            bad.append((c, got, spec(c)))
    # the same cases inside Coq: translated functions and the model
    mism = []
    coq_ok = None
    if os.path.exists(os.path.join(vlib.COQ, "ClockFun.vo")) or os.path.exists(os.path.join(vlib.COQ, "gen", "GenClockFun.vo")):
        step = 400
        coq_ok = 0
        for k in range(0, len(cases), step):
            chunk = cases[k:k + step]
            res, cerr = vlib.coq_eval_sample(ctx, "From Coq Require Import ZArith List. Import ListNotations. Local Open Scope Z_scope.\n"
                                             "From MV.gen Require Import GenClockFun.\nFrom MV Require Import TimerModel.",
                                             ["[%s]" % "; ".join(coq_term(c) for c in chunk)])
            if res is None:
                ctx.notes.append("clock: vm_compute evaluation failed: " + cerr[-300:])
                coq_ok = None
                break
            import re
            txt = res[0]
            pairs = re.findall(r"\(\s*\[([^\]]*)\],\s*\[([^\]]*)\]\s*\)", txt)
            if len(pairs) != len(chunk):
                ctx.notes.append("clock: cannot parse vm_compute output (%d of %d)" % (len(pairs), len(chunk)))
                coq_ok = None
                break
            for c, (a, b) in zip(chunk, pairs):
                src = [x.strip().replace("(", "").replace(")", "").replace(" ", "") for x in a.split(";")]
                mod = [x.strip().replace("(", "").replace(")", "").replace(" ", "") for x in b.split(";")]
                i = cases.index(c)
                got = out[i].split() if i < len(out) else []
                ok_rc = c.split()[1] == "0" or c[0] == "L"
                if got != src:
                    mism.append((c, " ".join(got), "translated: " + " ".join(src)))
                elif ok_rc and src[-len(mod):] != mod:
                    mism.append((c, " ".join(got), "model: " + " ".join(mod)))
                else:
                    coq_ok += 1
    ctx.cov["clock"] = {"cases": len(cases), "kinds": kinds, "failing_property": len(bad),
                        "agree_with_translated_and_model_in_coq": coq_ok, "mismatches": len(mism)}
    ctx.log("clock.c: %d cases %s, %d fail the property, %s agree inside Coq, %d mismatches" % (len(cases), kinds, len(bad), coq_ok, len(mism)))
    if bad:
        c, got, want = bad[0]
        f = c.split()
        what = {"A": "clock_get_timespec with clock_gettime -> rc %s reading (%s, %s), ms %s" % tuple(f[1:5]) if c[0] == "A" else "",
                "L": "clock_is_timespec_le", "E": "clock_is_timespec_expired"}[c[0]]
        ctx.violation("clock.c: %s: case `%s` answers `%s`, the exact deadline / order is `%s` (%d failing cases; a tv_nsec outside "
                      "0..10^9-1 makes pthread_cond_timedwait fail with EINVAL in the timer thread, which is fatal to munged; a "
                      "wrong deadline or order fires timers early/late or out of order)" % (what, c, got, want, len(bad)),
                      {"clock_case": c, "impl_output": got, "expected": want, "n_failing": len(bad),
                       "more": bad[1:5]})
    elif mism and proved:
        c, got, other = mism[0]
        ctx.violation("clock.c and its Coq counterparts disagree on %d cases (first: `%s` impl=`%s` %s) but the property evaluated "
                      "directly holds" % (len(mism), c, got, other),
                      {"obligation": "correspondence GenClockFun/TimerModel ~ clock.c", "clock_case": c, "impl": got, "coq": other},
                      found_input=False)
