"""Live-daemon phase of C05: concurrent first-attempt decoders of one credential, distinct credentials minted by
identical requests in the same second, failed decodes that must not consume, the retry exception."""
import multiprocessing, os, time
import vlib, rig, credcorr

ANY = 0xFFFFFFFF


def _worker(args):
    sock, cred, uid, gid, retry, barrier_t = args
    # start together
    while time.time() < barrier_t:
        time.sleep(0.0005)
    r, st = rig.decode(sock, cred, uid=uid, gid=gid, retry=retry)
    return (r["error_num"], r["data"]) if r else (-1, st.encode())


def undelivered_phase(ctx, cr, fails, dist):
    """Replies that cannot be delivered: only an undelivered SUCCESS gives the record back; an undelivered 'replayed'
    (or expired / unauthorized ...) reply must leave the record of the earlier successful decode in place."""
    for kind in ("replayed", "unauthorized", "success-then"):
        cr.set_clock(1500000000)
        r, _ = rig.encode(cr.d.sock, uid=11, gid=12, auth_uid=(77 if kind == "unauthorized" else ANY), data=b"undelivered " + kind.encode())
        cred = r["data"]
        du = 77 if kind == "unauthorized" else 5
        if kind == "success-then":
            rig.decode_undeliverable(cr.d.sock, cred, uid=du, gid=1)      # success that cannot be delivered: rolled back
            cr.o.ask("DECF %s %d 1 %d - S,S,S,S,S" % (cred.hex(), du, cr.now))
            d, m, diff = cr.decode_both(cred, uid=du, gid=1)
            want = 0
        else:
            d0, m0, diff0 = cr.decode_both(cred, uid=du, gid=1)            # decoded once, delivered
            for _ in range(3):
                # a second presentation (replayed), resp. a refused one, whose reply cannot be delivered
                rig.decode_undeliverable(cr.d.sock, cred, uid=(du if kind == "replayed" else 78), gid=1)
            d, m, diff = cr.decode_both(cred, uid=du, gid=1)
            want = 17
        ctx.count(("undelivered", kind))
        dist["undelivered"] = dist.get("undelivered", 0) + 1
        if d is None or d["error_num"] != want:
            fails.append({"why": "after %s reply/replies that could not be delivered, the next decode of the credential gives %s, expected %d "
                                 "(only an undelivered SUCCESS may give the record back)" % (kind, d and (d["error_num"], d["error_str"]), want),
                          "kind": "undelivered-" + kind})


def live_phase(ctx):
    try:
        exe, orc = credcorr.build_all(ctx)
    except RuntimeError as e:
        ctx.violation(str(e), {"obligation": "build"}, found_input=False)
        return
    fails = []
    dist = {"concurrent": 0, "same-second": 0, "no-consume": 0, "retry": 0, "undelivered": 0}
    for nthreads in ((1, 2, 8, 16) if ctx.thorough else (1, 2, 8)):
        cr = credcorr.CredRig(ctx, exe, orc, tag="c05t%d" % nthreads, nthreads=nthreads)
        if not cr.ok:
            ctx.violation("daemon does not start with %d threads" % nthreads, {"obligation": "start"}, found_input=False)
            return
        pool = multiprocessing.Pool(32)
        try:
            # k concurrent first-attempt decoders of ONE credential: exactly one success, all others replayed
            for k in ((2, 3, 4, 8, 16, 32) if ctx.thorough else (2, 8, 32)):
                for rep in range(6 if ctx.thorough else 3):
                    r, _ = rig.encode(cr.d.sock, uid=11, gid=12, data=b"once-only %d %d" % (k, rep))
                    cred = r["data"]
                    t = time.time() + 0.05
                    res = pool.map(_worker, [(cr.d.sock, cred, 100 + i, 200 + i, 0, t) for i in range(k)])
                    ctx.count(("concurrent", nthreads, k, rep))
                    dist["concurrent"] += 1
                    ok = [x for x in res if x[0] == 0]
                    rp = [x for x in res if x[0] == 17]
                    if len(ok) != 1 or len(ok) + len(rp) != k:
                        fails.append({"why": "%d concurrent first-attempt decoders of one credential on %d worker threads: %d "
                                             "successes, %d replayed, others %s (exactly one success expected)"
                                             % (k, nthreads, len(ok), len(rp), [x[0] for x in res if x[0] not in (0, 17)][:5]),
                                      "k": k, "nthreads": nthreads})
                    ctx.sample({"concurrent_decoders": k, "threads": nthreads, "successes": len(ok), "replayed": len(rp)}, limit=6)
            # identical requests minted in the same (virtual) second: all distinct, none reported as replayed
            creds = []
            for i in range(40 if ctx.thorough else 20):
                r, _ = rig.encode(cr.d.sock, uid=11, gid=12, cipher=(0 if i % 2 else 4), data=b"identical request")
                creds.append(r["data"])
            ctx.count(("same-second", nthreads, len(creds)))
            dist["same-second"] += 1
            if len(set(creds)) != len(creds):
                fails.append({"why": "two identical encode requests in the same second produced the same credential"})
            for c in creds:
                d, m, diff = cr.decode_both(c)
                if d is None or d["error_num"] != 0:
                    fails.append({"why": "a credential minted by an identical request in the same second was reported as error %s "
                                         "(distinct credentials must not shadow each other)" % (d and d["error_num"])})
                    break
            # failed decodes (unauthorized, expired, rewound, corrupted) never consume
            for kind in ("unauthorized", "expired", "rewound", "corrupt"):
                cr.set_clock(1500000000)
                r, _ = rig.encode(cr.d.sock, uid=11, gid=12, auth_uid=77, ttl=50, data=b"keep me")
                cred = r["data"]
                for _ in range(3):
                    if kind == "unauthorized":
                        d, m, diff = cr.decode_both(cred, uid=78, gid=1)
                        want = 18
                    elif kind == "expired":
                        cr.set_clock(1500000000 + 51)
                        d, m, diff = cr.decode_both(cred, uid=77, gid=1)
                        want = 15
                    elif kind == "rewound":
                        cr.set_clock(1500000000 - 51)
                        d, m, diff = cr.decode_both(cred, uid=77, gid=1)
                        want = 16
                    else:
                        bad = bytearray(cred); bad[20] ^= 1
                        d, m, diff = cr.decode_both(bytes(bad), uid=77, gid=1)
                        want = d["error_num"] if d and d["error_num"] not in (0, 15, 16, 17) else -99
                    if d is None or d["error_num"] != want:
                        fails.append({"why": "%s decode attempt gave error %s, expected %s" % (kind, d and d["error_num"], want)})
                cr.set_clock(1500000000)
                d, m, diff = cr.decode_both(cred, uid=77, gid=1)
                ctx.count(("no-consume", nthreads, kind))
                dist["no-consume"] += 1
                if d is None or d["error_num"] != 0 or d["data"] != b"keep me":
                    fails.append({"why": "failed (%s) decode attempts consumed the credential: the first valid decode afterwards gives %s"
                                         % (kind, d and (d["error_num"], d["error_str"])), "kind": kind})
                d, m, diff = cr.decode_both(cred, uid=77, gid=1)
                if d is None or d["error_num"] != 17:
                    fails.append({"why": "second valid decode was not reported as replayed: %s" % (d and d["error_num"])})
            undelivered_phase(ctx, cr, fails, dist)
            # the documented exception: transport retries (retry 1..5) of an already-decoded credential
            r, _ = rig.encode(cr.d.sock, uid=11, gid=12, data=b"retry")
            cred = r["data"]
            seq = [(0, 0), (0, 17), (1, 0), (5, 0), (6, 6), (0, 17)]
            for retry, want in seq:
                d, m, diff = cr.decode_both(cred, retry=retry)
                ctx.count(("retry", nthreads, retry, want))
                dist["retry"] += 1
                if d is None or d["error_num"] != want:
                    fails.append({"why": "decode with retry=%d of an already decoded credential gave %s, expected %d"
                                         % (retry, d and d["error_num"], want), "retry": retry})
        finally:
            pool.close()
            pool.join()
        mism = list(cr.mismatches)
        rc, rep = cr.stop()
        if rep.strip():
            ctx.violation("sanitizer report from the daemon during the C05 live phase", {"report": rep[:3000]}, found_input=False)
        if mism and not fails:
            ctx.violation("model and daemon disagree in the C05 live phase on %d cases (first: %s)" % (len(mism), mism[0]["diff"]),
                          {"obligation": "correspondence CredModel ~ munged (C05 live)", "first": mism[0]}, found_input=False)
    ctx.cov.setdefault("input_distribution", {}).update({"live-" + k: v for k, v in dist.items()})
    seen = set()
    for f in fails:
        k = f["why"][:50]
        if k in seen:
            continue
        seen.add(k)
        ctx.violation(f["why"], f, found_input=True)
