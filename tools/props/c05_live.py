"""Live-daemon phase of C05: concurrent first-attempt decoders of one credential, distinct credentials minted by
identical requests in the same second, failed decodes that must not consume, the retry exception."""
import multiprocessing, os, time
import vlib, rig, credcorr

ANY = 0xFFFFFFFF


def _worker(args):
    sock, cred, uid, gid, retry, barrier_t = args
    # start together
    while time.time() < barrier_t:
        time.sleep(0.0005)
    r, st = rig.decode(sock, cred, uid=uid, gid=gid, retry=retry)
    return (r["error_num"], r["data"]) if r else (-1, st.encode())


def undelivered_phase(ctx, cr, fails, dist):
    """Replies that cannot be delivered: only an undelivered SUCCESS gives the record back; an undelivered 'replayed'
    (or expired / unauthorized ...) reply must leave the record of the earlier successful decode in place."""
    # a retry-flagged request for an ALREADY decoded credential (allowed to replay: the documented exception) whose reply cannot
    # be delivered must not take away the record of the earlier, delivered decode: first-attempt requests stay 'replayed'
    for rt in (1, 5):
        cr.set_clock(1500000000)
        r, _ = rig.encode(cr.d.sock, uid=11, gid=12, data=b"retry-flagged undelivered %d" % rt)
        cred = r["data"]
        d0, m0, diff0 = cr.decode_both(cred, uid=5, gid=1)
        for _ in range(2):
            rig.decode_undeliverable(cr.d.sock, cred, uid=6, gid=1, retry=rt)
        d, st = rig.decode(cr.d.sock, cred, uid=7, gid=1)
        ctx.count(("undelivered", "retry-flagged", rt))
        dist["undelivered"] = dist.get("undelivered", 0) + 1
        if d0 is None or d0["error_num"] != 0:
            fails.append({"why": "setup: first decode failed", "kind": "undelivered-retry-flagged"})
        elif d is None or d["error_num"] != 17:
            fails.append({"why": "a credential was successfully decoded by a first-attempt request, then presented with retry=%d by a client that "
                                 "hung up before the reply; the next first-attempt decode gives %s, expected 17 (replayed): the record of the "
                                 "delivered decode was taken away" % (rt, d and (d["error_num"], d["error_str"])),
                          "cred_hex": cred.hex(), "kind": "undelivered-retry-flagged"})
    for kind in ("replayed", "unauthorized", "success-then"):
        cr.set_clock(1500000000)
        r, _ = rig.encode(cr.d.sock, uid=11, gid=12, auth_uid=(77 if kind == "unauthorized" else ANY), data=b"undelivered " + kind.encode())
        cred = r["data"]
        du = 77 if kind == "unauthorized" else 5
        if kind == "success-then":
            rig.decode_undeliverable(cr.d.sock, cred, uid=du, gid=1)      # success that cannot be delivered: rolled back
            cr.o.ask("DECF %s %d 1 %d - S,S,S,S,S" % (cred.hex(), du, cr.now))
            d, m, diff = cr.decode_both(cred, uid=du, gid=1)
            want = 0
        else:
            d0, m0, diff0 = cr.decode_both(cred, uid=du, gid=1)            # decoded once, delivered
            for _ in range(3):
                # a second presentation (replayed), resp. a refused one, whose reply cannot be delivered
                rig.decode_undeliverable(cr.d.sock, cred, uid=(du if kind == "replayed" else 78), gid=1)
            d, m, diff = cr.decode_both(cred, uid=du, gid=1)
            want = 17
        ctx.count(("undelivered", kind))
        dist["undelivered"] = dist.get("undelivered", 0) + 1
        if d is None or d["error_num"] != want:
            fails.append({"why": "after %s reply/replies that could not be delivered, the next decode of the credential gives %s, expected %d "
                                 "(only an undelivered SUCCESS may give the record back)" % (kind, d and (d["error_num"], d["error_str"]), want),
                          "kind": "undelivered-" + kind})


def partial_reply_phase(ctx, cr, fails, dist):
    """a SUCCESS reply too large for the socket buffer, of which the client takes the first bytes and then goes away: that reply
    was not delivered either - the credential must stay decodable (exactly one first-attempt request SUCCEEDS)"""
    import socket as _s
    for size, take in ((700000, 11), (400000, 1), (300000, 70000)):
        cr.set_clock(1500000000)
        r, _ = rig.encode(cr.d.sock, uid=11, gid=12, cipher=4, mac=5, zip_=0, data=bytes(range(256)) * (size // 256))
        if r is None or r["error_num"] != 0:
            continue
        cred = r["data"]
        body = rig.dec_req_body(cred)
        try:
            c = rig.connect_as(cr.d.sock, 5, 1)
            c.setsockopt(_s.SOL_SOCKET, _s.SO_RCVBUF, 4096)
            c.sendall(rig.hdr(rig.T_DEC_REQ, 0, len(body)) + body)
            got = b""
            c.settimeout(10)
            while len(got) < take:
                x = c.recv(take - len(got))
                if not x:
                    break
                got += x
            time.sleep(0.05)
            c.close()
        except OSError:
            got = b""
        # the daemon finishes that request (its write fails or ends short), then serves the next one
        res = []
        for _ in range(3):
            d, st = rig.decode(cr.d.sock, cred, uid=6, gid=1)
            res.append(d and d["error_num"])
            if d is not None:
                break
            time.sleep(0.3)
        d2, st = rig.decode(cr.d.sock, cred, uid=7, gid=1)
        ctx.count(("partial-reply", size, take))
        dist["partial-reply"] = dist.get("partial-reply", 0) + 1
        if res[-1] != 0:
            fails.append({"why": "the reply to a successful decode (%d-byte payload) was only partly written - the client took %d byte(s) and hung up - "
                                 "and the client never came back: no request has SUCCEEDED for this credential, yet the next first-attempt decode "
                                 "is answered %s (expected 0, then 17)" % (size, len(got), res[-1]), "kind": "partial-reply", "payload_bytes": size})
        elif d2 is None or d2["error_num"] != 17:
            fails.append({"why": "after a partly delivered reply and one delivered success the next decode gives %s, expected 17"
                                 % (d2 and d2["error_num"]), "kind": "partial-reply"})


def purge_phase(ctx, orc, fails, dist):
    """'at most once' across the life of the replay record: credentials whose TTL exceeds the decoding daemon's --max-ttl
    (minted by a peer holding the same key: the reference), decodes at chosen clock readings, and the periodic purge firing
    in between (timer thread fast-forwarded, harness/vtimer.c).  Every reply is compared with the model (dec_process +
    CredHistory.r_purge), and the clause itself is evaluated: no credential is successfully decoded twice."""
    exe, err = rig.build_daemon(ctx, name="munged-vt", san="address", extra_src=rig.vtimer_src(), wraps=rig.VTIMER_WRAPS)
    if exe is None:
        ctx.violation("munged does not build with the timer fast-forward shim: " + err[-300:], {"obligation": "build"}, found_input=False)
        return []
    T = 1500000000
    rng = ctx.rng
    mism = []
    for max_ttl in ((5, 60, 300) if ctx.thorough else (5, 60)):
        cr = credcorr.CredRig(ctx, exe, orc, tag="c05p%d" % max_ttl, max_ttl=max_ttl, clock=T, extra=["--group-update-time=3600"])
        if not cr.ok:
            ctx.violation("daemon does not start (purge phase)", {"obligation": "start"}, found_input=False)
            return mism
        peer = credcorr.Oracle(orc, cr.d.keyfile, max_ttl=3600)
        try:
            for ttl in (max_ttl + 1, max_ttl + 40, 2000):
                for rep in range(3 if ctx.thorough else 2):
                    e = peer.enc(rng.choice([0, 4]), 5, 0, b"", ttl, ANY, ANY, b"purge-phase %d %d" % (ttl, rep), 0, 11, 12, T,
                                 bytes(rng.getrandbits(8) for _ in range(8)), bytes(rng.getrandbits(8) for _ in range(16)))
                    if e["error_num"] != 0:
                        continue
                    cred = e["data"]
                    # a history: decode, decode again, purge after the capped life, decode inside the ORIGINAL ttl, ...
                    offs = sorted(rng.sample(range(0, max_ttl + 1), 2)) + [max_ttl + 1 + rng.randrange(0, 30)]
                    hist = [("dec", offs[0]), ("dec", offs[1]), ("purge", offs[2]), ("dec", offs[2]),
                            ("purge", min(ttl, offs[2] + 70)), ("dec", min(ttl, offs[2] + 70))]
                    succ = 0
                    log = []
                    if rep == 0:
                        cr.d.sighup(settle=0.15)       # a reconfiguration (cancels and re-queues the group-map timer) must not disturb the purge service
                        log.append("SIGHUP")
                    for ev, dt in hist:
                        cr.set_clock(T + dt)
                        if ev == "purge":
                            cr.d.advance_timers(61000)
                            cr.o.purge(T + dt)
                            log.append("purge@+%d" % dt)
                            continue
                        d, m, diff = cr.decode_both(cred, uid=5, gid=6)
                        log.append("decode@+%d->%s" % (dt, d and d["error_num"]))
                        if diff:
                            mism.append(dict(cr.mismatches[-1], history=list(log), max_ttl=max_ttl, ttl=ttl))
                        if d is not None and d["error_num"] == 0:
                            succ += 1
                    ctx.count(("purge-history", max_ttl, ttl, rep, tuple(hist)))
                    dist["purge-history"] = dist.get("purge-history", 0) + 1
                    if succ > 1:
                        fails.append({"why": "a credential (ttl %d, decoder --max-ttl %d) was successfully decoded %d times on one daemon: %s"
                                             % (ttl, max_ttl, succ, " ".join(log)), "cred_hex": cred.hex(), "history": log,
                                      "max_ttl": max_ttl, "kind": "purge-history"})
        finally:
            peer.close()
            rc, rep = cr.stop()
        if rep.strip():
            ctx.violation("sanitizer report from the daemon during the C05 purge phase", {"report": rep[:3000]}, found_input=False)
    return mism


def straddle_phase(ctx, orc, fails, dist):
    """'at most once' when a decode request STRADDLES the purge that follows the credential's expiry: the request is received
    (and its decode time sampled) in the last valid second X, the purge runs in second X+1 and discards the record of the
    earlier decode, and only then does the request reach replay_insert().  The schedule is forced on the unchanged daemon code
    by holding the worker at the entrance of replay_insert() (harness/replay_gate.c, -Wl,--wrap) while the clock is stepped
    and the timer thread fast-forwarded.  No credential may be successfully decoded twice.  Every reply is also compared with
    the model: the history is replayed on the oracle with the two clock readings of each decode (dec_process2: received at t1,
    replay step at t2) and the purge in between; for the held request t1 = X, t2 = X+late, and the expected reply is
    EMUNGE_CRED_EXPIRED with the soft-error shape (the decoded fields stay).  Returns the model/daemon mismatches."""
    import threading
    gate_c = os.path.join(vlib.HARNESS, "replay_gate.c")
    exe, err = rig.build_daemon(ctx, name="munged-vtg", san="address", extra_src=rig.vtimer_src() + [gate_c],
                                wraps=rig.VTIMER_WRAPS + ["replay_insert"])
    if exe is None:
        ctx.violation("munged does not build with the replay gate: " + err[-300:], {"obligation": "build"}, found_input=False)
        return
    T = 1500000000
    rng = ctx.rng
    mism = []

    def cmp_model(what, d, m, log, cred, t1, t2):
        if d is None:
            diff = "daemon gave no reply; model says error %d %r" % (m["error_num"], m["error_str"])
        else:
            diff = next(("field %s: daemon %r, model %r" % (f, d[f] if f != "data" else d[f][:40], m[f] if f != "data" else m[f][:40])
                         for f in credcorr.FIELDS if d[f] != m[f]), None)
        if diff:
            mism.append({"op": "straddle " + what, "cred_hex": cred[:3000].hex(), "t1": t1, "t2": t2, "diff": diff, "history": list(log)})
    for max_ttl, nthreads in (((5, 2), (60, 4), (3600, 2)) if ctx.thorough else ((5, 2), (60, 4))):
        cr = credcorr.CredRig(ctx, exe, orc, tag="c05s%d" % max_ttl, max_ttl=max_ttl, nthreads=nthreads, clock=T,
                              extra=["--group-update-time=3600"])
        if not cr.ok:
            ctx.violation("daemon does not start (straddle phase)", {"obligation": "start"}, found_input=False)
            return mism
        gate = cr.d.clockfile + ".gate"
        held = gate + ".held"

        def set_gate(v):
            with open(gate + ".tmp", "w") as f:
                f.write(v)
            os.replace(gate + ".tmp", gate)
        set_gate("0")
        try:
            for ttl, late in ((1, 1), (max_ttl, 1), (max_ttl, 45), (max(1, max_ttl // 2), 2)):
                r, _ = rig.encode(cr.d.sock, uid=11, gid=12, cipher=rng.choice([0, 4]), mac=5, zip_=0, ttl=ttl, data=b"straddle %d" % ttl)
                if r is None or r["error_num"] != 0:
                    continue
                cred = r["data"]
                X = T + min(ttl, max_ttl)              # last valid second
                log = []
                cr.set_clock(X)
                d1, _ = rig.decode(cr.d.sock, cred, uid=5, gid=6)
                log.append("decode received@X -> %s" % (d1 and d1["error_num"]))
                cmp_model("first decode", d1, cr.o.dec(cred, 0, 5, 6, X, now2=X), log, cred, X, X)
                d2, _ = rig.decode(cr.d.sock, cred, uid=5, gid=6)
                log.append("decode received@X -> %s" % (d2 and d2["error_num"]))
                cmp_model("second decode", d2, cr.o.dec(cred, 0, 5, 6, X, now2=X), log, cred, X, X)
                # third request: received at X, held in front of replay_insert()
                if os.path.exists(held):
                    os.unlink(held)
                set_gate("1")
                res = {}
                th = threading.Thread(target=lambda: res.update(r=rig.decode(cr.d.sock, cred, uid=5, gid=6)[0]))
                th.start()
                t0 = time.time()
                while not os.path.exists(held) and time.time() - t0 < 10:
                    time.sleep(0.01)
                was_held = os.path.exists(held)
                cr.set_clock(X + late)
                cr.d.advance_timers(61000, settle=0.5)        # the purge runs at X+late: the record of the first decode is discarded
                log.append("request received@X held before replay_insert: %s; clock -> X+%d; purge" % (was_held, late))
                set_gate("0")
                th.join(15)
                d3 = res.get("r")
                log.append("held request answered -> %s" % (d3 and d3["error_num"]))
                if was_held:
                    # the model's history: purge at X+late, then the held request with (t1, t2) = (X, X+late)
                    cr.o.purge(X + late)
                    m3 = cr.o.dec(cred, 0, 5, 6, X, now2=X + late)
                    cmp_model("held request (t1 = X, t2 = X+%d)" % late, d3, m3, log, cred, X, X + late)
                    if d3 is not None and d3["error_num"] == 15 and (d3["data_len"] != len(b"straddle %d" % ttl) or d3["cred_uid"] != 11):
                        fails.append({"why": "the held request was answered 'expired' but without the decoded fields (a soft error keeps "
                                             "them): data_len %d cred_uid %d; %s" % (d3["data_len"], d3["cred_uid"], "; ".join(log)),
                                      "cred_hex": cred.hex(), "history": log, "max_ttl": max_ttl, "kind": "straddle-shape"})
                d4, _ = rig.decode(cr.d.sock, cred, uid=5, gid=6)
                log.append("decode received@X+%d -> %s" % (late, d4 and d4["error_num"]))
                if was_held:
                    cmp_model("decode after the straddle", d4, cr.o.dec(cred, 0, 5, 6, X + late, now2=X + late), log, cred, X + late, X + late)
                cr.set_clock(T)
                ctx.count(("straddle", max_ttl, ttl, late))
                dist["straddle"] = dist.get("straddle", 0) + 1
                succ = sum(1 for d in (d1, d2, d3, d4) if d is not None and d["error_num"] == 0)
                if not was_held:
                    ctx.notes.append("straddle phase: the request was not held (gate not reached): %s" % log)
                if succ > 1:
                    fails.append({"why": "a credential (ttl %d, decoder --max-ttl %d, last valid second X) was successfully decoded %d times on one "
                                         "daemon by first-attempt requests: %s  [the history of C05_stale_time_refuted / C07_stale_time_refuted: "
                                         "a rule without a fresh clock reading after replay_insert violates C05_first_attempts_at_most_once / "
                                         "C07_second_presentation_never_accepted]" % (ttl, max_ttl, succ, "; ".join(log)),
                                  "cred_hex": cred.hex(), "history": log, "max_ttl": max_ttl, "kind": "straddle"})
                elif d1 is None or d1["error_num"] != 0 or d2 is None or d2["error_num"] != 17:
                    fails.append({"why": "in-time decodes of a fresh credential answered %s then %s (expected 0 then 17): %s"
                                         % (d1 and d1["error_num"], d2 and d2["error_num"], "; ".join(log)),
                                  "cred_hex": cred.hex(), "history": log, "max_ttl": max_ttl, "kind": "straddle"})
        finally:
            set_gate("0")
            rc, rep = cr.stop()
        if rep.strip():
            ctx.violation("sanitizer report from the daemon during the C05 straddle phase", {"report": rep[:3000]}, found_input=False)
    return mism


def live_phase(ctx):
    try:
        exe, orc = credcorr.build_all(ctx)
    except RuntimeError as e:
        ctx.violation(str(e), {"obligation": "build"}, found_input=False)
        return
    fails = []
    dist = {"concurrent": 0, "same-second": 0, "no-consume": 0, "retry": 0, "undelivered": 0}
    for nthreads in ((1, 2, 8, 16) if ctx.thorough else (1, 2, 8)):
        cr = credcorr.CredRig(ctx, exe, orc, tag="c05t%d" % nthreads, nthreads=nthreads)
        if not cr.ok:
            ctx.violation("daemon does not start with %d threads" % nthreads, {"obligation": "start"}, found_input=False)
            return
        pool = multiprocessing.Pool(32)
        try:
            # k concurrent first-attempt decoders of ONE credential: exactly one success, all others replayed
            for k in ((2, 3, 4, 8, 16, 32) if ctx.thorough else (2, 8, 32)):
                for rep in range(6 if ctx.thorough else 3):
                    r, _ = rig.encode(cr.d.sock, uid=11, gid=12, data=b"once-only %d %d" % (k, rep))
                    cred = r["data"]
                    t = time.time() + 0.05
                    res = pool.map(_worker, [(cr.d.sock, cred, 100 + i, 200 + i, 0, t) for i in range(k)])
                    ctx.count(("concurrent", nthreads, k, rep))
                    dist["concurrent"] += 1
                    ok = [x for x in res if x[0] == 0]
                    rp = [x for x in res if x[0] == 17]
                    if len(ok) != 1 or len(ok) + len(rp) != k:
                        fails.append({"why": "%d concurrent first-attempt decoders of one credential on %d worker threads: %d "
                                             "successes, %d replayed, others %s (exactly one success expected)"
                                             % (k, nthreads, len(ok), len(rp), [x[0] for x in res if x[0] not in (0, 17)][:5]),
                                      "k": k, "nthreads": nthreads})
                    ctx.sample({"concurrent_decoders": k, "threads": nthreads, "successes": len(ok), "replayed": len(rp)}, limit=6)
            # identical requests minted in the same (virtual) second: all distinct, none reported as replayed
            creds = []
            for i in range(40 if ctx.thorough else 20):
                r, _ = rig.encode(cr.d.sock, uid=11, gid=12, cipher=(0 if i % 2 else 4), data=b"identical request")
                creds.append(r["data"])
            ctx.count(("same-second", nthreads, len(creds)))
            dist["same-second"] += 1
            if len(set(creds)) != len(creds):
                fails.append({"why": "two identical encode requests in the same second produced the same credential"})
            for c in creds:
                d, m, diff = cr.decode_both(c)
                if d is None or d["error_num"] != 0:
                    fails.append({"why": "a credential minted by an identical request in the same second was reported as error %s "
                                         "(distinct credentials must not shadow each other)" % (d and d["error_num"])})
                    break
            # ... and MANY of them: a long-lived daemon has handed out thousands of salts and IVs; the n-th identical request of
            # a second must still get a credential of its own (whatever is cached, pooled or recycled inside the PRNG front end)
            if nthreads == 2:
                for ciph, nreq in ((4, 1200 if ctx.thorough else 800), (0, 1500 if ctx.thorough else 1100)):
                    bulk = []
                    for i in range(nreq):
                        r, _ = rig.encode(cr.d.sock, uid=11, gid=12, cipher=ciph, data=b"identical request, bulk")
                        if r is None or r["error_num"] != 0:
                            break
                        bulk.append(r["data"])
                    ctx.count(("same-second-bulk", ciph, len(bulk)))
                    dist["same-second-bulk"] = dist.get("same-second-bulk", 0) + len(bulk)
                    seen_at = {}
                    dup = None
                    for i, c in enumerate(bulk):
                        if c in seen_at:
                            dup = (seen_at[c], i)
                            break
                        seen_at[c] = i
                    if dup:
                        fails.append({"why": "identical encode requests #%d and #%d of the same second (cipher %d) were given the SAME credential: "
                                             "the second one's first decode can only be reported as replayed" % (dup[0] + 1, dup[1] + 1, ciph),
                                      "cred_hex": bulk[dup[0]].hex()})
                    else:
                        for i, c in enumerate(bulk):
                            d, _ = rig.decode(cr.d.sock, c)
                            if d is None or d["error_num"] != 0:
                                fails.append({"why": "credential #%d of %d minted by identical requests in the same second: its FIRST decode is answered "
                                                     "with error %s" % (i + 1, len(bulk), d and d["error_num"]), "cred_hex": c.hex()})
                                break
            # failed decodes (unauthorized, expired, rewound, corrupted) never consume
            for kind in ("unauthorized", "expired", "rewound", "corrupt"):
                cr.set_clock(1500000000)
                r, _ = rig.encode(cr.d.sock, uid=11, gid=12, auth_uid=77, ttl=50, data=b"keep me")
                cred = r["data"]
                for _ in range(3):
                    if kind == "unauthorized":
                        d, m, diff = cr.decode_both(cred, uid=78, gid=1)
                        want = 18
                    elif kind == "expired":
                        cr.set_clock(1500000000 + 51)
                        d, m, diff = cr.decode_both(cred, uid=77, gid=1)
                        want = 15
                    elif kind == "rewound":
                        cr.set_clock(1500000000 - 51)
                        d, m, diff = cr.decode_both(cred, uid=77, gid=1)
                        want = 16
                    else:
                        bad = bytearray(cred); bad[20] ^= 1
                        d, m, diff = cr.decode_both(bytes(bad), uid=77, gid=1)
                        want = d["error_num"] if d and d["error_num"] not in (0, 15, 16, 17) else -99
                    if d is None or d["error_num"] != want:
                        fails.append({"why": "%s decode attempt gave error %s, expected %s" % (kind, d and d["error_num"], want)})
                cr.set_clock(1500000000)
                d, m, diff = cr.decode_both(cred, uid=77, gid=1)
                ctx.count(("no-consume", nthreads, kind))
                dist["no-consume"] += 1
                if d is None or d["error_num"] != 0 or d["data"] != b"keep me":
                    fails.append({"why": "failed (%s) decode attempts consumed the credential: the first valid decode afterwards gives %s"
                                         % (kind, d and (d["error_num"], d["error_str"])), "kind": kind})
                d, m, diff = cr.decode_both(cred, uid=77, gid=1)
                if d is None or d["error_num"] != 17:
                    fails.append({"why": "second valid decode was not reported as replayed: %s" % (d and d["error_num"])})
            undelivered_phase(ctx, cr, fails, dist)
            if nthreads == 1:
                partial_reply_phase(ctx, cr, fails, dist)
            # the documented exception: transport retries (retry 1..5) of an already-decoded credential
            r, _ = rig.encode(cr.d.sock, uid=11, gid=12, data=b"retry")
            cred = r["data"]
            seq = [(0, 0), (0, 17), (1, 0), (5, 0), (6, 6), (0, 17)]
            for retry, want in seq:
                d, m, diff = cr.decode_both(cred, retry=retry)
                ctx.count(("retry", nthreads, retry, want))
                dist["retry"] += 1
                if d is None or d["error_num"] != want:
                    fails.append({"why": "decode with retry=%d of an already decoded credential gave %s, expected %d"
                                         % (retry, d and d["error_num"], want), "retry": retry})
        finally:
            pool.close()
            pool.join()
        mism = list(cr.mismatches)
        rc, rep = cr.stop()
        if rep.strip():
            ctx.violation("sanitizer report from the daemon during the C05 live phase", {"report": rep[:3000]}, found_input=False)
        if mism and not fails:
            ctx.violation("model and daemon disagree in the C05 live phase on %d cases (first: %s)" % (len(mism), mism[0]["diff"]),
                          {"obligation": "correspondence CredModel ~ munged (C05 live)", "first": mism[0]}, found_input=False)
    pm = purge_phase(ctx, orc, fails, dist)
    sm = straddle_phase(ctx, orc, fails, dist) or []
    from props import c07 as _c07
    qf = []
    _c07.queued_across_expiry(ctx, orc, qf, dist)
    for f in qf:
        fails.append(dict(f, why=f["why"]))
    if pm and not fails:
        ctx.violation("model and daemon disagree in the C05 purge histories on %d cases (first: %s; history %s)"
                      % (len(pm), pm[0]["diff"], " ".join(pm[0]["history"])),
                      {"obligation": "correspondence CredModel+r_purge ~ munged (C05 purge histories)", "first": pm[0]}, found_input=False)
    if sm and not fails:
        ctx.violation("model and daemon disagree in the C05 straddle histories on %d cases (first: %s; history %s)"
                      % (len(sm), sm[0]["diff"], "; ".join(sm[0]["history"])),
                      {"obligation": "correspondence CredModel.dec_process2+r_purge ~ munged (C05 straddle)", "first": sm[0]}, found_input=False)
    ctx.cov.setdefault("input_distribution", {}).update({"live-" + k: v for k, v in dist.items()})
    seen = set()
    for f in fails:
        k = f["why"][:50]
        if k in seen:
            continue
        seen.add(k)
        ctx.violation(f["why"] + ("" if getattr(ctx, "proof_ok", True) else "  [and the proof obligation no longer checks: %s]"
                                  % getattr(ctx, "broken_obligation", "?")), f, found_input=True)
