"""C11 — concurrent requests are isolated from one another and race-free."""
import multiprocessing, os, signal, time
import vlib, rig, credcorr

MANIFEST = dict(
    level=("proof", "Coq theorems: dec_process factors into a cache-independent computation and ONE step on the replay cache; "
           "for every interleaving of any number of concurrent encode/decode requests the replies and the cache equal those "
           "of the sequential execution in the order of the critical sections (linearizability by an inductive invariant over "
           "schedules); each reply is a function of its own request, peer and clock plus one membership bit. Freedom from "
           "data races of the C code is OBSERVED: the daemon rebuilt with ThreadSanitizer (and ASan in a second build) serves "
           "many concurrent clients with distinct identities, payloads and options over 1..16 workers, with SIGHUP storms "
           "(group-map refresh through the substituted databases) and timers firing; any sanitizer report, any reply that "
           "does not match its own request, and any duplicate-decode count other than one is a violation.", "7 C11"),
    note="Partial: absence of data races cannot be stated about a Gallina model; it is observed by TSan on the schedules that "
         "occur. Send-failure roll-back (C13) is excluded from the linearizability statement, as the source itself documents.",
    technique="Coq proof (one-atomic-action reduction, invariant over schedules) + TSan/ASan live concurrency validation")

ANY = 0xFFFFFFFF


def _client(args):
    """one client process: its own identity, payload and options; returns a list of problems"""
    sock, idx, rounds, shared_cred, seed = args[:5]
    t_min = args[5] if len(args) > 5 else 0
    import random, itertools
    rng = random.Random(seed)
    uid, gid = 1000 + idx, 2000 + idx
    problems = []
    ok_shared = 0
    for r in itertools.count():
        if (r >= rounds and time.time() >= t_min) or len(problems) > 5:
            break
        payload = b"client-%d-round-%d-" % (idx, r) + bytes(rng.getrandbits(8) for _ in range(rng.randrange(0, 200)))
        c, m, z = rng.choice([0, 2, 3, 4, 5]), rng.choice([5, 6]), rng.choice([0, 2, 3])
        ttl = rng.choice([0, 10, 100])
        e, st = rig.encode(sock, uid=uid, gid=gid, cipher=c, mac=m, zip_=z, ttl=ttl, auth_uid=uid, data=payload)
        if e is None or e["error_num"] != 0:
            problems.append("client %d: encode failed: %s %s" % (idx, st, e and e["error_str"]))
            continue
        d, st = rig.decode(sock, e["data"], uid=uid, gid=gid)
        if d is None:
            problems.append("client %d: no decode reply (%s)" % (idx, st))
            continue
        if d["error_num"] != 0 or d["data"] != payload or (d["cred_uid"], d["cred_gid"]) != (uid, gid) or \
                d["cipher"] != c or d["mac"] != m or d["auth_uid"] != uid or d["ttl"] != (ttl or 300):
            problems.append("client %d (uid %d) got a reply that is not its own: error %d uid %d gid %d cipher %d len %d payload-head %r"
                            % (idx, uid, d["error_num"], d["cred_uid"], d["cred_gid"], d["cipher"], d["data_len"], d["data"][:24]))
        if not (idx % 12 == 0 and idx < 40) and r % 2 == 1:
            # a lookup through the group map by every client (the answer depends on the database version; only its arrival is required)
            e8, st = rig.encode(sock, uid=uid, gid=gid, auth_gid=700, data=b"g")
            if e8 and e8["error_num"] == 0:
                d8, st = rig.decode(sock, e8["data"], uid=uid, gid=gid)
                if d8 is None:
                    problems.append("client %d: no reply to a GID-restricted decode (%s)" % (idx, st))
        if idx % 12 == 0 and idx < 40 and r % 2 == 0:
            # this client's user is listed in group 700 by EVERY version of the group database that the SIGHUP loop writes,
            # so a credential restricted to GID 700 is his whatever refresh of the group map is in progress
            e7, st = rig.encode(sock, uid=uid, gid=gid, auth_gid=700 + (r // 2) % 8, data=payload)
            d7, st = rig.decode(sock, e7["data"], uid=uid, gid=gid) if e7 and e7["error_num"] == 0 else (None, st)
            if d7 is None or d7["error_num"] != 0 or d7["data"] != payload:
                problems.append("client %d (uid %d, a member of groups 700..707 in every version of the group database) was refused a "
                                "credential restricted to one of them while the group map was being refreshed: %s"
                                % (idx, uid, d7 and (d7["error_num"], d7["error_str"])))
        if t_min and not (idx % 12 == 0 and idx < 40):
            # ... and every other client asks on behalf of one of those always-listed users each round (acting under that user's
            # uid for this one request), so that a group map that is incomplete for a moment is met by some request
            su = 1000 + 12 * ((idx + r) % 4)
            e9, st = rig.encode(sock, uid=uid, gid=gid, auth_gid=700 + (idx + r) % 8, data=payload)
            d9, st = rig.decode(sock, e9["data"], uid=su, gid=2999) if e9 and e9["error_num"] == 0 else (None, st)
            if d9 is not None and (d9["error_num"] != 0 or d9["data"] != payload):
                problems.append("uid %d, a member of groups 700..707 in every version of the group database, was refused a credential restricted to "
                                "gid %d while the group map was being refreshed: %s" % (su, 700 + (idx + r) % 8, (d9["error_num"], d9["error_str"])))
        # an unauthorized peek at somebody else's restricted credential must fail with MY ids in the message
        d2, st = rig.decode(sock, e["data"], uid=uid + 1, gid=gid)
        if d2 is None or d2["error_num"] != 18 or ("UID=%d" % (uid + 1)) not in d2["error_str"] or d2["data_len"] != 0:
            problems.append("client %d: foreign decode answered %s" % (idx, d2 and (d2["error_num"], d2["error_str"])))
    if shared_cred is not None:
        d, st = rig.decode(sock, shared_cred, uid=uid, gid=gid)
        if d is not None and d["error_num"] == 0:
            ok_shared = 1
        elif d is None or d["error_num"] != 17:
            problems.append("client %d: shared credential answered %s" % (idx, d and (d["error_num"], d["error_str"])))
    return problems, ok_shared


def _hostile(args):
    """a misbehaving client alongside the well-behaved ones: requests whose receive fails in the daemon (bad magic, short
    header then hang-up, oversize length, wrong type, immediate close)"""
    sock, t_end, seed = args
    import random, socket as _s, struct as _st
    rng = random.Random(seed)
    n = 0
    shapes = [b"\0\0\0\0" + bytes(7), rig.MAGIC_BYTES + b"\x04", rig.hdr(2, 0, 0x7FFFFFFF), rig.hdr(9, 0, 4) + b"abcd", b"",
              rig.hdr(4, 0, 100) + b"short body"]
    # ... and well-formed decode requests whose credential fails at each later stage in the daemon (armor, cipher finalisation
    # = a damaged last block, MAC, decompression): whatever a failed library call leaves behind in the worker thread that
    # served it (error queues, contexts, scratch buffers) must not colour the requests that thread serves next
    try:
        import hostile as _h, pyref as _p
        for (c_, m_, z_) in ((4, 5, 0), (5, 6, 3), (2, 3, 2)):
            g, _st2 = rig.encode(sock, uid=1, gid=1, cipher=c_, mac=m_, zip_=z_, data=b"to be damaged " * 20)
            if g is None or g["error_num"] != 0:
                continue
            body = _h.unarmor(g["data"])
            for off in (1, 2, 17, len(body) // 2, len(body) - 6):
                b = bytearray(body)
                b[-off] ^= 0x5a
                cred = _p.armor(bytes(b))
                shapes.append(rig.hdr(4, 0, 4 + len(cred)) + rig.dec_req_body(cred))
            cred = _p.armor(body[:-3])
            shapes.append(rig.hdr(4, 0, 4 + len(cred)) + rig.dec_req_body(cred))
    except Exception:
        pass
    while time.time() < t_end:
        try:
            c = _s.socket(_s.AF_UNIX, _s.SOCK_STREAM)
            c.settimeout(1.0)
            c.connect(sock)
            c.sendall(rng.choice(shapes))
            if rng.random() < 0.2:
                try:
                    c.recv(64)
                except OSError:
                    pass
            c.close()
        except OSError:
            pass
        n += 1
    return n


def _hammer(args):
    """refused decodes from one identity, back to back: every reply must name THIS client's ids"""
    sock, idx, n, cred = args
    uid, gid = 31000 + idx, 32000 + idx
    want = "UID=%d GID=%d" % (uid, gid)
    bad = []
    for _ in range(n):
        d, st = rig.decode(sock, cred, uid=uid, gid=gid)
        if d is None or d["error_num"] != 18 or not d["error_str"].endswith(want) or d["data_len"] != 0:
            bad.append("client uid=%d gid=%d got %r" % (uid, gid, d and (d["error_num"], d["error_str"])))
            if len(bad) > 3:
                break
    return bad


def _racer(args):
    """decode creds[r] at the agreed instant of round r; returns the error numbers"""
    sock, idx, creds, t_start, dt = args
    out = []
    for r, c in enumerate(creds):
        t = t_start + r * dt
        while time.time() < t:
            pass
        d, st = rig.decode(sock, c, uid=100 + idx, gid=200 + idx)
        out.append(d["error_num"] if d else -1)
    return out


def run_races(ctx, exe, label, nthreads, nclients, rounds):
    """many rounds of nclients simultaneous first-attempt decodes of ONE fresh credential: exactly one success each;
    and concurrent refused decodes from distinct identities (shared static buffers show up here)"""
    d = rig.Daemon(ctx, exe, tag=label, nthreads=nthreads)
    if not d.start(wait=20):
        return ["daemon (%s) does not start" % label], ""
    problems = []
    creds = []
    for r in range(rounds):
        e, _ = rig.encode(d.sock, uid=1, gid=1, data=b"race %d" % r)
        creds.append(e["data"])
    pool = multiprocessing.Pool(nclients)
    try:
        t_start = time.time() + 0.5
        res = pool.map(_racer, [(d.sock, i, creds, t_start, 0.006) for i in range(nclients)])
        for r in range(rounds):
            col = [res[i][r] for i in range(nclients)]
            if col.count(0) != 1 or col.count(0) + col.count(17) != nclients:
                problems.append("round %d: %d of %d simultaneous first-attempt decoders of one credential succeeded (others: %s)"
                                % (r, col.count(0), nclients, sorted(set(col) - {0, 17})))
                if len(problems) > 3:
                    break
        restricted, _ = rig.encode(d.sock, uid=1, gid=1, auth_uid=424242, data=b"not for you")
        for b in pool.map(_hammer, [(d.sock, i, max(rounds, 100), restricted["data"]) for i in range(min(nclients, 8))]):
            problems += b
    finally:
        pool.terminate()
        pool.join()
    rc, rep = d.stop(timeout=30)
    return problems, rep


def run_load(ctx, exe, label, nthreads, nclients, rounds, sighup):
    stable = ["u0", "u12", "u24", "u36"]      # members of every group in every version of the database

    def version(step):
        return {"groups": [(700 + j, stable + ["u%d" % i for i in range(1 + j, 40, step) if "u%d" % i not in stable]) for j in range(8)],
                "users": [("u%d" % i, 1000 + i) for i in range(40)]}
    db = version(3)
    # a slow directory service (10 ms per group entry): a refresh of the group map is in progress most of the time
    # ... and the periodic refresh (every second) runs as well, so that SIGHUP-triggered and periodic refreshes overlap
    d = rig.Daemon(ctx, exe, tag=label, nthreads=nthreads, nss_db=db, env={"VERIF_NSS_DELAY_US": "10000"} if sighup else None,
                   extra=["--group-update-time=1"] if sighup else ())
    if not d.start(wait=20):
        return ["daemon (%s) does not start" % label], ""
    time.sleep(0.5)
    shared, _ = rig.encode(d.sock, uid=1, gid=1, data=b"shared")
    pool = multiprocessing.Pool(nclients)
    problems = []
    try:
        t0 = time.time()
        res = pool.map_async(_client, [(d.sock, i, rounds, shared["data"], ctx.seed * 1000 + i, t0 + ((12.0 if ctx.thorough else 5.5) if sighup else (8.0 if ctx.thorough else 3.0)))
                                       for i in range(nclients)])
        # misbehaving clients at the same time (their descriptors are closed on the daemon's error path while others connect)
        hpool = multiprocessing.Pool(5)
        hres = hpool.map_async(_hostile, [(d.sock, t0 + ((12.0 if ctx.thorough else 5.5) if sighup else (8.0 if ctx.thorough else 3.0)), ctx.seed * 31 + k) for k in range(5)])
        # SIGHUPs in bursts (every 50 ms: refreshes requested while one is running) alternating with SIGHUPs AIMED at a running
        # periodic refresh (it starts --group-update-time = 1 s after the previous rebuild was logged and takes ~0.1 s)
        phase, phase_t, found, aim_at, aims = "burst", time.time(), 0, None, 0
        while not res.ready():
            if sighup:
                now = time.time()
                if phase == "burst":
                    d.write_nss(version(2 + int(now * 10) % 3))
                    d.p.send_signal(signal.SIGHUP)
                    time.sleep(0.04)
                    if now - phase_t > 0.6:
                        phase, aims, aim_at, found = "aim", 0, None, d.log_text().count("Found ")
                else:
                    n_found = d.log_text().count("Found ")
                    if n_found > found:
                        found, aim_at = n_found, now + 1.0 + 0.045
                    if aim_at is not None and now >= aim_at:
                        d.write_nss(version(2 + int(now * 10) % 3))
                        d.p.send_signal(signal.SIGHUP)
                        aim_at, aims = None, aims + 1
                        if aims >= 3:
                            phase, phase_t = "burst", time.time()
            time.sleep(0.01)
            if time.time() - t0 > 120:
                problems.append("load did not finish within 120 s (%s)" % label)
                break
        out = res.get(timeout=5) if res.ready() else []
    finally:
        for pl in (pool, hpool):
            try:
                pl.terminate()
                pl.join()
            except Exception:       # multiprocessing asserts when a pool is torn down with tasks still outstanding
                pass
    succ = 0
    for p, ok in out:
        problems += p
        succ += ok
    if out and succ != 1:
        problems.append("%d of %d concurrent decoders of one credential succeeded (exactly one expected; %s)" % (succ, nclients, label))
    c = rig.canary(d.sock)
    if c:
        problems.append("after the load: " + c)
    rc, rep = d.stop(timeout=30)
    # the log is shared state too: every record is one line '<name>: <Priority>: text' (no fused records, no empty lines)
    import re
    pat = re.compile(r"^[^:\n]*munged[^:\n]*: (Emergency|Alert|Critical|Error|Warning|Notice|Info|Debug): [^\n]*$")
    bad_lines = []
    for ln in (d.stderr or "").split("\n")[:-1]:
        if not pat.match(ln) or len(re.findall(r"munged[^:\s]*: (?:Emergency|Alert|Critical|Error|Warning|Notice|Info|Debug): ", ln)) != 1:
            if "Sanitizer" in ln or ln.startswith("==") or ln.startswith("    #") or ln.startswith("SUMMARY"):
                continue
            bad_lines.append(ln[:200])
    if bad_lines:
        problems.append("the daemon's log has %d malformed line(s) under concurrent load (records of different requests fused or split): %r"
                        % (len(bad_lines), bad_lines[:2]))
    return problems, rep


def burst_phase(ctx, exe):
    """m simultaneous clients, more than the daemon has free descriptors: the acceptor has to wait for the backlog; every client
    that is eventually accepted gets the reply a sequential execution would give, and the daemon goes on serving"""
    import socket as _s, subprocess
    d = rig.Daemon(ctx, exe, tag="c11burst", nthreads=4)
    if not d.start(wait=20):
        return ["daemon does not start (burst phase)"]
    problems = []
    try:
        subprocess.run(["prlimit", "--pid", str(d.p.pid), "--nofile=24:24"], capture_output=True)
        rig.canary(d.sock)
        for rnd in range(2):
            idle = []
            for i in range(40):
                try:
                    c = _s.socket(_s.AF_UNIX, _s.SOCK_STREAM)
                    c.settimeout(1)
                    c.connect(d.sock)
                    idle.append(c)
                except OSError:
                    break
            time.sleep(0.4)
            for c in idle:
                c.close()
            # the burst is over: requests of ordinary clients must be answered again (generous limit: the workers first have to
            # notice the closed connections)
            ok = None
            t0 = time.time()
            while time.time() - t0 < 15:
                try:
                    ok = rig.canary(d.sock)
                except rig.DaemonUnresponsive:
                    ok = "no reply"
                if not ok:
                    break
                time.sleep(0.5)
            ctx.count(("burst", rnd, len(idle)))
            if ok:
                problems.append("after a burst of %d simultaneous connections against a daemon with 24 descriptors (round %d) ordinary requests are "
                                "no longer answered within 15 s: %s" % (len(idle), rnd + 1, ok))
                break
    finally:
        d.stop(timeout=20)
    return problems


def closed_std_phase(ctx, exe):
    import socket as _s
    d = rig.Daemon(ctx, exe, tag="c11nofd", nthreads=8, launcher=("/bin/sh", "-c", 'exec "$@" 0<&- 1>&- 2>&-', "sh"))
    if not d.start(wait=20):
        return ["munged -F does not start with descriptors 0, 1 and 2 closed"]
    problems = []
    try:
        g, st = rig.encode(d.sock, uid=12345, gid=12345, auth_uid=1, data=b"not yours")
        quiet = []
        for _ in range(3):                      # clients that have connected and not yet sent anything (the daemon waits for
            c = _s.socket(_s.AF_UNIX, _s.SOCK_STREAM)       # their header for its I/O time limit; the rest happens inside it)
            c.connect(d.sock)
            quiet.append(c)
        time.sleep(0.05)
        for i in range(12):                     # other clients' refused requests: the daemon logs each with the client's ids
            rig.decode(d.sock, g["data"] if g and g["error_num"] == 0 else b"MUNGE:AAAA:\0", uid=22000 + i, gid=23000 + i)
        for i, c in enumerate(quiet):
            c.settimeout(0.3)
            try:
                got = c.recv(4096)
            except OSError:
                got = b""
            if got:
                problems.append("munged -F started with descriptors 0-2 closed: a client that had connected and sent NOTHING received %d bytes: %r "
                                "(another client's refusal, written by the daemon's logger to the descriptor number the connection was given)"
                                % (len(got), got[:120]))
                break
        for c in quiet:
            c.close()
        cn = rig.canary(d.sock)
        if cn:
            problems.append("munged -F started with descriptors 0-2 closed: " + cn)
    finally:
        d.stop(timeout=20)
    return problems


def run(ctx):
    ctx.level = "proof"
    proved = vlib.prove(ctx, ["Properties_C11.v"], facts=["cred", "base64"])
    ctx.log("proofs:", "ok" if proved else "BROKEN: " + getattr(ctx, "broken_obligation", "?"))
    ctx.cov["rule"] = ("live validation: N client processes with distinct (uid, gid, payload, cipher, MAC, zip, ttl, restriction) "
                       "encode and decode concurrently against the daemon rebuilt from /repo with ThreadSanitizer and, separately, "
                       "AddressSanitizer, over 1/2/8/16 worker threads, with and without SIGHUP storms that reload the "
                       "(substituted) group database; every reply must match the client's own request, every foreign decode must "
                       "be refused naming the prober's ids, exactly one of the concurrent decoders of a shared credential "
                       "succeeds; any sanitizer report is a violation. non-trivial = one client round")
    builds = []
    for san in ("thread", "address"):
        exe, err = rig.build_daemon(ctx, name="munged-" + san, san=san, extra_src=[os.path.join(vlib.HARNESS, "nss_shim.c")],
                                    wraps=credcorr.NSS_WRAPS)
        if exe is None:
            ctx.violation("munged does not build with -fsanitize=%s: %s" % (san, err[-300:]), {"obligation": "build"}, found_input=False)
            return
        builds.append((san, exe))
    configs = [(1, 8, 3, False), (2, 16, 3, True), (8, 32, 3, True)] + ([(16, 64, 6, True), (2, 64, 6, False), (8, 32, 10, True)] if ctx.thorough else [])
    dist = {}
    found = []
    for san, exe in builds:
        for (nt, nc, rounds, hup) in (configs if san == "thread" else configs[1:2] + (configs[3:4] if ctx.thorough else [])):
            label = "%s-t%d-c%d%s" % (san, nt, nc, "-hup" if hup else "")
            problems, rep = run_load(ctx, exe, label, nt, nc, rounds, hup)
            for i in range(nc * rounds):
                ctx.count((label, i))
            dist[label] = nc * rounds
            ctx.sample({"config": label, "clients": nc, "rounds": rounds, "problems": len(problems), "sanitizer_report_bytes": len(rep)}, limit=12)
            if problems:
                found.append((label, problems[0], {"config": label, "problems": problems[:10]}))
            if rep.strip():
                kind = "data race" if "data race" in rep else ("sanitizer error" if "ERROR" in rep or "WARNING: ThreadSanitizer" in rep else None)
                if kind:
                    import re
                    loc = re.findall(r"#\d+ (\w+) (/[^\s:]+/src/[^\s:]+):(\d+)", rep)[:4]
                    found.append((label, "%s reported by -fsanitize=%s under concurrent load: %s" % (kind, san, loc),
                                  {"config": label, "report": rep[:4000]}))
            ctx.log("%s: %d problems, sanitizer report %d bytes" % (label, len(problems), len(rep)))
    # races: simultaneous decoders of one credential, many rounds; concurrent refusals
    for san, exe in builds:
        nt, nc, rounds = (8, 16, 1500 if ctx.thorough else 400) if san == "address" else (4, 8, 300 if ctx.thorough else 120)
        label = "%s-race-t%d-c%d" % (san, nt, nc)
        problems, rep = run_races(ctx, exe, label, nt, nc, rounds)
        for i in range(rounds):
            ctx.count((label, i))
        dist[label] = rounds
        if problems:
            found.append((label, problems[0], {"config": label, "problems": problems[:10]}))
        if rep.strip() and ("data race" in rep or "ERROR" in rep):
            import re
            loc = re.findall(r"#\d+ (\w+) (/[^\s:]+/src/[^\s:]+):(\d+)", rep)[:4]
            found.append((label, "%s reported by -fsanitize=%s in the race phase: %s" % ("data race" if "data race" in rep else "sanitizer error", san, loc),
                          {"config": label, "report": rep[:4000]}))
        ctx.log("%s: %d problems, sanitizer report %d bytes" % (label, len(problems), len(rep)))
    # the daemon's own output is shared state too: started in the foreground with descriptors 0-2 CLOSED (a minimal supervisor),
    # nothing it logs about other clients' requests may appear on a client's connection
    for why in burst_phase(ctx, builds[1][1]):
        found.append(("burst", why, {"config": "RLIMIT_NOFILE=24, 40 simultaneous connections"}))
    dist["burst"] = 2
    pr = closed_std_phase(ctx, builds[1][1])
    dist["closed-std"] = 1
    for why in pr:
        found.append(("closed-std", why, {"config": "munged -F started with descriptors 0,1,2 closed"}))
    # replies that cannot be delivered while the same credential is being presented by others: only an undelivered SUCCESS
    # gives the record back (C13); an undelivered 'replayed' must not make the credential decodable again (sequential order exists)
    from props import c05_live
    try:
        orc = vlib.build_oracle(ctx, "cred")
        if orc:
            cru = credcorr.CredRig(ctx, builds[1][1], orc, tag="c11und", nthreads=4)
            if cru.ok:
                uf, ud = [], {}
                c05_live.undelivered_phase(ctx, cru, uf, ud)
                dist["undelivered"] = ud.get("undelivered", 0)
                for f in uf:
                    found.append(("undelivered", f["why"], f))
                cru.stop()
    except rig.DaemonUnresponsive:
        raise
    ctx.cov["input_distribution"] = dist
    seen = set()
    for label, why, obj in found:
        k = why[:50]
        if k in seen:
            continue
        seen.add(k)
        ctx.violation(why, obj, found_input=True)
    if not found and not proved:
        ctx.violation("proof obligation no longer checks: %s" % getattr(ctx, "broken_obligation", "?"),
                      {"obligation": getattr(ctx, "broken_obligation", "?"), "log": ctx.proof_log[-3000:]}, found_input=False)
