"""C17 — supplementary-group answers equal the group and user databases."""
import time
import itertools, json, os, re
from concurrent.futures import ThreadPoolExecutor
import vlib
from props import c17_pair

MANIFEST = dict(
    level=("proof", "Coq theorems over an executable model of gids.c (+ the hash/xgetgr/xgetpw behaviour it relies "
           "on; reserved uid, buffer start sizes and growth factor regenerated from the source on every run): membership "
           "answer <-> the databases for all group/passwd contents with the two exclusions the code has (empty member name, "
           "uid (uid_t)-1); per-uid lists increasing and duplicate-free; early exit loses nothing; any ERANGE restart "
           "schedule yields the map of one clean scan (15 restarts succeed, the 16th fails, any other error fails); buffer "
           "doubling reaches every entry; a completed update installs the new build iff it succeeded and (check off | "
           "stat failed | mtime > previous load start), else map and load time are unchanged; SIGHUP resets the flag but "
           "does not by-pass the mtime test; for all interleavings of edits, update halves, SIGHUPs and lookups every answer "
           "is the exact answer for one whole database version (LTS with the swap as one step).  The refresh clause is proved over "
           "a model of the PAIR gids.c + timer.c (GidsTimerModel: refresh = callback on the timer thread in three parts, "
           "SIGHUP = gids_update from another thread at any point, also inside a running refresh; Properties_C17_refresh.v): a "
           "SIGHUP is never lost (a timer that was due when gids_update ran stays pending until a refresh STARTS, for every "
           "event sequence), the timer thread is never stuck, the refresh that starts after a SIGHUP reads the databases with "
           "every edit made before it and installs exactly their build when obliged to load and the build succeeds, every "
           "answer is the exact answer for the version read by the last loading refresh; the variant with a timer_cancel "
           "before `gids->timer = 0` is refuted by a witness.  Two stronger readings are "
           "refuted with witnesses replayed on the C code (edit in the second the load started; passwd-only edit).  Tied to "
           "the code by running the extracted LTS and gids.c/hash.c/xgetgr.c/xgetpw.c (ASan+UBSan+LSan, NSS/stat/time "
           "wrapped at link time, two ERANGE platform variants, a TSan build with a concurrent lookup thread) on the same "
           "generated histories; and by running /repo's gids.c AND timer.c together (harness/gids_timer_harness.c: virtual "
           "clock, scripted databases and transient NSS failures, SIGHUPs delivered from another thread at three points inside "
           "a running _gids_map_update) against the extracted pair model on generated event scripts, with the refresh clause "
           "evaluated directly on the implementation's log.", "7 C17"),
    note="Trusted: Coq kernel+vm_compute, gen_facts probe, extraction (ExtrOcamlBasic), harness/driver glue, the fake NSS "
         "of the harness.  The C code is modelled, not verified: hash tables are association lists in the model, malloc "
         "failure paths and EINTR are not modelled, a build reads the databases in one step (the version opened at "
         "setgrent(); the pair harness serves a scan the version that was current when it opened the databases).  In the "
         "pair model timer.c is abstracted to what gids.c uses (sorted stable active list, detached batch that cannot be "
         "cancelled, ids below LONG_MAX sets; C18's TimerModel is the detailed model) and the clock is in ms.  Mutual "
         "exclusion of the swap rests on the gids mutex: observed (TSan, old-or-new checker), not proved.",
    technique="Coq proof (induction over databases/schedules/traces, LTS invariant) + translator for constants + "
              "differential correspondence on generated databases and histories + gids.c and timer.c linked together "
              "under a virtual clock with SIGHUPs parked inside refreshes + independent Python evaluation of the property")

WRAP = ["-Wl,--wrap=getgrent_r,--wrap=setgrent,--wrap=endgrent,--wrap=getpwnam_r,--wrap=stat,--wrap=lstat,--wrap=time"]
SENT = 0xFFFFFFFF
GRBUF_INIT = 1024
GID_HASH = 2053
UID_HASH = 4099


def read_facts():
    global SENT, GRBUF_INIT
    try:
        t = open(os.path.join(vlib.COQ, "gen", "GenGids.v")).read()
        SENT = int(re.search(r"uid_sentinel : N := (\d+)", t).group(1))
        GRBUF_INIT = int(re.search(r"grbuf_init : N := (\d+)", t).group(1))
    except Exception:
        pass


# --------------------------------------------------------------------------- the property, in Python
def parse_db(s):
    if s == "-":
        return []
    db = []
    for e in s.split(";"):
        g, _, ms = e.partition(":")
        db.append((int(g), ["" if m == "~" else m for m in ms.split(",")] if ms else []))
    return db


def parse_pw(s):
    if s == "-":
        return []
    return [(("" if n == "~" else n), (None if u == "!" else int(u)))
            for n, u in (e.split("=") for e in s.split(","))]


def pw_uid(pw, n):
    """what the user database maps the name to: first entry wins; lookup error or absence = nothing"""
    for k, u in pw:
        if k == n:
            return u
    return None


def spec_member(db, pw, u, g):
    """The property: yes iff some entry with gid g lists a name the user database maps to u
    (stated exclusions: the empty name; the reserved uid)."""
    if u == SENT:
        return False
    for gid, names in db:
        if gid == g and any(n != "" and pw_uid(pw, n) == u for n in names):
            return True
    return False


def entry_need(e):
    return 8 * (len(e[1]) + 1) + 6 + sum(len(n) + 1 for n in e[1])


def build_outcome(db, sched, variant):
    """(succeeds, entries delivered in the last pass) for a fault schedule"""
    passes = 1
    for kind, k in sched:
        if k > len(db):
            return True, db
        if kind == "f":
            return False, db[:k]
        if passes < 16:
            passes += 1
        else:
            return False, db[:k]
    return True, db


def parse_sched(s):
    return [(it[0], int(it[1:])) for it in s.split(".")] if s else []


def expected_tokens(line, got=None):
    """Independent evaluation of the property on a history: which database version must be
    visible after each step, and what each lookup must answer.  The property obliges an update
    to reload when the mtime check is off/disabled, stat() fails or mtime is newer than the
    previous load; it does not forbid reloading more often, so when the implementation's own
    tokens [got] are given, its report of "rebuild attempted" is followed where a reload is
    optional, and the fields that are not part of the property (stat called, next timer, buffer
    size) are taken from it.  Without [got] the minimal behaviour is predicted."""
    f = line.split(" ")
    variant = f[0][1]
    interval, dostat = (int(x) for x in f[1][1:].split(","))
    us, _, gs = f[2][1:].partition("|")
    U = [int(x) for x in us.split(",")] if us else []
    G = [int(x) for x in gs.split(",")] if gs else []
    db, pw, mtime = [], [], 0
    loaded, t_last = None, 0
    dostat = 1 if dostat else 0
    timer = 0
    grlen = GRBUF_INIT
    out = []

    def ans(u, g):
        return "1" if loaded is not None and spec_member(loaded[0], loaded[1], u, g) else "0"

    def sweep():
        return "".join(ans(u, g) for u in U for g in G)

    for op in f[3:]:
        if not op:
            continue
        c, a = op[0], op[1:]
        if c == "G":
            db = parse_db(a)
        elif c == "P":
            pw = parse_pw(a)
        elif c == "M":
            mtime = None if a == "!" else int(a)
        elif c == "S":
            dostat = 1 if dostat else 0
            timer = 0
            out.append(got[len(out)] if got and len(out) < len(got) and got[len(out)].startswith("s/") else "s/0")
        elif c == "Q":
            u, g = (int(x) for x in a.split(","))
            out.append("q" + ans(u, g))
        elif c == "A":
            out.append("a" + sweep())
        elif c in "RX":
            now, _, sch = a.partition("/")
            now = int(now)
            if c == "X":                  # every concurrent lookup saw the old or the new map in full
                out.append("x1" if timer is not None else "x0no-timer")
            it = got[len(out)] if got and len(out) < len(got) else None
            m = re.match(r"r([01])([01])/([^/]*)/([^/]*)$", it or "")
            if timer is None and not m:
                out.append("r--")
                continue
            stat_called = dostat > 0
            newflag = dostat
            if dostat > 0:
                if mtime is None:
                    must, newflag = True, -1
                else:
                    must = mtime > t_last          # "modification time newer than the previous load"
            else:
                must = True
            attempt = must or (m is not None and m.group(2) == "1")
            bl = "-"
            if attempt:
                ok, delivered = build_outcome(db, parse_sched(sch), variant)
                if variant == "g":
                    need = max([entry_need(e) for e in delivered] + [0])
                    l = grlen
                    while l < need:
                        l *= 2
                    bl = str(l)
                    if ok:
                        grlen = l
                if ok:                                # a failed refresh keeps the old map
                    loaded, t_last = (db, pw), now
            dostat = newflag
            timer = interval * 1000 if interval > 0 else None
            if m:
                out.append("r%s%d/%s/%s" % (m.group(1), attempt, m.group(3), m.group(4)))
            else:
                out.append("r%d%d/%s/%s" % (stat_called, attempt, "-" if timer is None else timer, bl))
        else:
            out.append("?" + op)
    return out, U, G


def property_holds(line, impl):
    """None when the implementation's answers satisfy the property on this history"""
    if impl.startswith("!crash"):
        return "gids.c aborts (sanitizer report / fatal path): " + impl[:80]
    got = impl.split(" ") if impl else []
    want, U, G = expected_tokens(line, got)
    if "!leak" in got:
        return "memory leaked while building/swapping maps"
    for i, (w, g) in enumerate(zip(want, got)):
        if w == g:
            continue
        if w[0] == "a" and g[0] == "a" and len(w) == len(g):
            wb, gb = w[1:], g[1:]
            k = next(j for j in range(len(wb)) if wb[j] != gb[j])
            u, gid = U[k // len(G)], G[k % len(G)]
            return ("is_member(uid=%d, gid=%d) answers %s but the databases that must be visible at that point "
                    "say %s (output token #%d)" % (u, gid, gb[k], wb[k], i))
        if w[0] == "q":
            return "lookup #%d answers %s, the databases say %s" % (i, g, w)
        if w[0] == "r":
            return ("update (output token #%d) did not rebuild the map although the mtime check is off, stat() failed or "
                    "the group file is newer than the previous load: %s" % (i, g))
        if w[0] == "x":
            return "lookup concurrent with an update saw a state that is neither the old nor the new map: %s" % g
        return "step #%d: got %s expected %s" % (i, g, w)
    if len(want) != len(got):
        return "answer count differs (%d vs %d)" % (len(got), len(want))
    return None


# --------------------------------------------------------------------------- case generation
def hkey(s):
    h = 0
    for c in s.encode():
        h = (h * 32 + c) & 0xFFFFFFFF
    return h


def collision_names():
    """names sharing a uid_hash slot (and two with identical full hash)"""
    buckets = {}
    alpha = "abcdp0y"
    for n in range(1, 4):
        for t in itertools.product(alpha, repeat=n):
            s = "".join(t)
            buckets.setdefault(hkey(s) % UID_HASH, []).append(s)
    best = sorted((b for b in buckets.values() if len(b) >= 3), key=len, reverse=True)
    names = best[0][:4] if best else []
    return names + ["ap", "c0"]          # 97*32+112 == 99*32+48


UIDS = [0, 7, 8, 1000, 1000 + GID_HASH, 1000 + 2 * GID_HASH, SENT - 1, SENT]
GIDS = [0, 1, 9, 10, 11, 100, 1 << 31, SENT - 1, SENT]


def db_str(db):
    if not db:
        return "-"
    return ";".join("%d:%s" % (g, ",".join(n if n else "~" for n in ns)) for g, ns in db)


def pw_str(pw):
    if not pw:
        return "-"
    return ",".join("%s=%s" % (n, "!" if u is None else u) for n, u in pw)


class Gen:
    def __init__(self, rng):
        self.rng = rng
        self.names = ["a", "b", "c", "d", "e", "f", "zed", "u1", "u2"] + collision_names()
        self.long = ["L" + "x" * n for n in (900, 1500, 2100)]

    def pw(self, extra=()):
        r = self.rng
        pool = self.names + list(extra)
        pw = []
        for n in pool:
            x = r.random()
            if x < 0.25:
                continue                                   # unknown user
            if x < 0.32:
                pw.append((n, None))                       # lookup error
            else:
                pw.append((n, r.choice(UIDS)))             # duplicate uids are likely
        for _ in range(r.randrange(0, 3)):                 # shadowed duplicates of a name
            pw.append((r.choice(pool), r.choice(UIDS)))
        r.shuffle(pw)
        return pw

    def db(self, kind="small"):
        r = self.rng
        db = []
        for _ in range(r.randrange(0, 9)):
            g = r.choice(GIDS)
            # unknown names include all-digit ones that spell a UID somebody else holds: a name is looked up, never parsed
            ns = [r.choice(self.names + ["", "ghost"] + [str(u) for u in UIDS[:4] if u is not None])
                  for _ in range(r.choice([0, 0, 1, 2, 3, 6]))]
            db.append((g, ns))
        if kind == "huge":
            n = r.choice([140, 300, 700, 2500])
            ns = ["m%d" % i for i in range(n)]
            for _ in range(6):
                ns[r.randrange(n)] = r.choice(self.names)
            ns += ns[: r.randrange(0, 20)]                 # repeated unknown names (negative cache)
            db.insert(r.randrange(0, len(db) + 1), (r.choice(GIDS), ns))
        if kind == "long":
            db.insert(r.randrange(0, len(db) + 1), (r.choice(GIDS), [r.choice(self.long), "a", r.choice(self.long)]))
        return db

    def head(self, variant, interval=3600, dostat=1, U=UIDS, G=GIDS):
        return "V%s I%d,%d U%s|%s" % (variant, interval, dostat, ",".join(map(str, U)), ",".join(map(str, G)))

    def build_case(self, variant, kind):
        db = self.db(kind)
        pw = self.pw(self.long if kind == "long" else ())
        return "%s G%s P%s M5 R10 A" % (self.head(variant), db_str(db), pw_str(pw))

    def order_cases(self):
        """every arrival order of up to 3 of three adjacent gids (+ one far gid) for one user"""
        out = []
        for n in range(1, 4):
            for t in itertools.product([10, 11, 12], repeat=n):
                db = [(g, ["a"]) for g in t] + [(100, ["b", "a"])]
                out.append("%s G%s Pa=7,b=8 M5 R10 A" % (self.head("g", U=[7, 8], G=[9, 10, 11, 12, 13, 100]), db_str(db)))
        return out

    def sched(self, variant, ndb, budget):
        """budget = [ERANGE items still allowed in this case]: on the 'entry consumed' variant every
        ERANGE doubles xgetgrent's buffer for the rest of the process, so their number is bounded"""
        r = self.rng
        if variant == "g":
            return "f%d" % r.randrange(0, ndb + 2) if r.random() < 0.25 else ""
        if r.random() < 0.3:
            return ""
        items = []
        for _ in range(r.randrange(1, 4)):
            kind = r.choice("eeef")
            if kind == "e":
                if budget[0] <= 0:
                    continue
                budget[0] -= 1
            items.append("%s%d" % (kind, r.randrange(0, ndb + 2)))
        return ".".join(items)

    def history(self, variant, steps):
        r = self.rng
        interval = r.choice([0, 1, 60, 3600])
        dostat = r.choice([0, 1, 1, 1])
        db, pw = self.db(), self.pw()
        now = r.choice([0, 1, 1000])
        mt = r.choice([0, now - 1, now, now + 1])
        t_last = None
        budget = [10]
        ops = ["G" + db_str(db), "P" + pw_str(pw), "M%d" % max(mt, 0)]
        for _ in range(steps):
            x = r.random()
            if x < 0.22:                                    # edit the group database
                if db and r.random() < 0.6:
                    i = r.randrange(len(db))
                    g, ns = db[i]
                    ns = list(ns)
                    if ns and r.random() < 0.5:
                        ns.pop(r.randrange(len(ns)))
                    else:
                        ns.append(r.choice(self.names))
                    db = db[:i] + [(g, ns)] + db[i + 1:]
                else:
                    db = self.db(r.choice(["small", "small", "huge"]) if variant == "g" else "small")
                ops.append("G" + db_str(db))
                base = t_last if t_last is not None and r.random() < 0.7 else now
                ops.append(r.choice(["M%d" % max(base + d, 0) for d in (-1, 0, 0, 1, 1, 5)] + [""]))
            elif x < 0.32:                                  # edit the passwd database only
                pw = self.pw()
                ops.append("P" + pw_str(pw))
            elif x < 0.38:
                ops.append(r.choice(["M!", "M%d" % now, "M%d" % max(now - 1, 0), "M%d" % (now + 1)]))
            elif x < 0.48:
                ops.append("S")
            elif x < 0.80:
                now += r.choice([0, 0, 1, 1, interval, 7])
                s = self.sched(variant, len(db), budget)
                ops.append("R%d%s" % (now, "/" + s if s else ""))
                t_last = now
                ops.append("A")
            elif x < 0.9:
                ops.append("Q%d,%d" % (r.choice(UIDS), r.choice(GIDS)))
            else:
                ops.append("A")
        ops.append("A")
        return "%s %s" % (self.head(variant, interval, dostat), " ".join(o for o in ops if o))

    def threaded(self):
        r = self.rng
        n = r.choice([30, 60, 120])
        old = [(100 + i, [r.choice(["a", "b", "c"]), r.choice(["a", "b", "ghost"])]) for i in range(n)]
        new = [(g, ns if r.random() < 0.7 else [r.choice(["a", "b", "c"])]) for g, ns in old]
        if r.random() < 0.3:
            new = new[: n // 2]
        U = [7, 8, 9]
        G = [100 + i for i in range(0, n, max(1, n // 12))]
        fault = r.choice(["", "", "", "/f%d" % r.randrange(0, n)])
        return "%s G%s Pa=7,b=8,c=9 M5 R10 A G%s M20 X30%s A G%s M50 S X60 A" % (
            self.head("g", 60, 1, U, G), db_str(old), db_str(new), fault, db_str(old))


# witnesses of the two refuted stronger readings (Properties_C17.v), as case lines
WITNESS = {
    "F-C17-same-second": ("Vg I3600,1 U1000,2000|100 G100: Pa=1000 M5 R10 A G100:a M10 S R3610 A R7210 A", "a00", "a10"),
    "F-C17-passwd-only": ("Vg I3600,1 U1000,2000|100 G100:a Pa=1000 M5 R10 A Pa=2000 S R3610 A R7210 A", "a10", "a01"),
}


def wide_uid_cases(g):
    """uids that share a uid-hash bucket (congruent mod GID_HASH) but lie more than 2^31 apart, inserted in every
    order: a comparison that is not a total order on uint32 (e.g. by subtraction) loses chain entries"""
    import itertools
    base = [1000, 1000 + 600000 * GID_HASH, 1000 + 1200000 * GID_HASH, 1000 + 2000000 * GID_HASH, 7 + 1046000 * GID_HASH]
    out = []
    for trio in itertools.combinations(base, 3):
        for perm in itertools.permutations(trio):
            names = ["wa", "wb", "wc"]
            pw = list(zip(names, perm))
            for split in (0, 1):
                db = [(100, names)] if split == 0 else [(100, names[:1]), (9, names[1:]), (100, names[2:])]
                out.append("%s G%s P%s M5 R10 A" % (g.head("g", U=list(trio) + [0, SENT - 1], G=[100, 9, 10]), db_str(db), pw_str(pw)))
    return out


def gen_cases(ctx):
    g = Gen(ctx.rng)
    T = ctx.thorough
    cases = []                                            # (binary, line)
    wide = wide_uid_cases(g)
    for l in (wide if T else wide[::3]):
        cases.append(("g", l))
    for l in g.order_cases():
        cases.append(("g", l))
    for key in sorted(WITNESS):
        cases.append(("g", WITNESS[key][0]))
    # a name unknown to passwd met again (its negative answer comes from the scan's cache), leading its group, after groups
    # with resolvable members: nobody joins a group through it (round 8: a cached miss reported as a hit without a uid)
    for perm in (("a",), ("a", "b"), ("b", "a", "c")):
        for ghost in ("ghost", "nobody-here", "4294967294"):
            groups = [(100, list(perm)), (9, [ghost]), (10, [ghost, perm[0]]), (11, [ghost]), (100, [ghost, ghost])]
            pw = [(n, u) for n, u in zip(("a", "b", "c"), (1000, 7, 8))]
            cases.append(("g", "%s G%s P%s M5 R10 A" % (g.head("g", U=[1000, 7, 8, 0, 4294967294], G=[100, 9, 10, 11]), db_str(groups), pw_str(pw))))
    for _ in range(3000 if T else 500):
        cases.append(("g", g.build_case("g", "small")))
    for _ in range(200 if T else 40):
        cases.append(("g", g.build_case("g", "huge")))
    for _ in range(100 if T else 20):
        cases.append(("g", g.build_case("g", "long")))
    for _ in range(6000 if T else 700):
        cases.append(("g", g.history("g", g.rng.randrange(4, 30))))
    for _ in range(3000 if T else 400):
        cases.append(("b", g.history("b", g.rng.randrange(4, 20))))
    # the restart limit, exactly
    for n in (14, 15, 16, 17):
        cases.append(("b", "%s G10:a;11:b Pa=7,b=8 M5 R10/%s A" % (g.head("b"), ".".join(["e1"] * n))))
        cases.append(("b", "%s G10:a;11:b;12:a,b Pa=7,b=8 M5 R10/%s A S R20 A" % (
            g.head("b", 60, 0), ".".join("e%d" % g.rng.randrange(0, 4) for _ in range(n)))))
    for _ in range(300 if T else 24):
        l = g.threaded()
        cases.append(("g", l))
        cases.append(("t", l))
    return cases


# --------------------------------------------------------------------------- running
def run_parallel(exe, lines, nchunks=14, env=None, timeout=1500):
    if not lines:
        return 0, [], ""
    n = max(1, min(nchunks, len(lines)))
    size = (len(lines) + n - 1) // n
    chunks = [lines[i:i + size] for i in range(0, len(lines), size)]
    with ThreadPoolExecutor(max_workers=len(chunks)) as ex:
        res = list(ex.map(lambda ch: vlib.run_lines([exe], ch, timeout=timeout, env=env), chunks))
    outs, errs, rc = [], [], 0
    for ch, (r, o, e) in zip(chunks, res):
        rc = rc or r
        o = o + ["!crash harness-died"] * (len(ch) - len(o)) if len(o) < len(ch) else o[:len(ch)]
        outs += o
        errs.append(e)
    return rc, outs, "".join(errs)


def gallina_name(n):
    return "(map n2b [%s]%%N)" % "; ".join(str(c) for c in n.encode())


def gallina_build_expr(line):
    """bits of the first sweep of a single-build case, evaluated by vm_compute inside Coq"""
    f = line.split(" ")
    us, _, gs = f[2][1:].partition("|")
    db = parse_db(f[3][1:])
    pw = parse_pw(f[4][1:])
    dbs = "[%s]" % "; ".join("(%d, [%s])" % (g, "; ".join(gallina_name(n) for n in ns)) for g, ns in db)
    pws = "[%s]" % "; ".join("(%s, %s)" % (gallina_name(n), "None" if u is None else "Some %d" % u) for n, u in pw)
    pairs = "[%s]" % "; ".join("(%s, %s)" % (u, g) for u in us.split(",") for g in gs.split(","))
    return ("let m := Some (build (pw_of_list %s) %s) in map (fun p => is_member m (fst p) (snd p)) %s"
            % (pws, dbs, pairs))


def live_refresh_phase(ctx):
    """The whole daemon, as deployed: started in the foreground (-F) and the way the shipped service file starts it (forked
    into the background), on substituted group/user databases.  A database edit followed by SIGHUP must be reflected by the
    answers (a GID-restricted credential decoded by a member through the supplementary-group path), with the periodic
    refresh switched off (--group-update-time=0) so that only the SIGHUP can have caused it."""
    import rig, credcorr
    exe, err = rig.build_daemon(ctx, name="munged-c17live", san="address",
                                extra_src=[os.path.join(vlib.HARNESS, "nss_shim.c")], wraps=credcorr.NSS_WRAPS)
    if exe is None:
        ctx.violation("munged does not build with the NSS shim: " + err[-300:], {"obligation": "build (live refresh)"}, found_input=False)
        return
    ANY = 0xFFFFFFFF
    for fg in (True, False):
        mode = "foreground (-F)" if fg else "background (daemonized)"
        db = {"groups": [(700, ["ann"]), (701, ["bob"])], "users": [("ann", 3001), ("bob", 3002), ("cat", 3003)]}
        d = rig.Daemon(ctx, exe, tag="c17live", nthreads=2, nss_db=db, foreground=fg)
        if not d.start():
            ctx.violation("munged does not start in %s mode" % mode, {"obligation": "start (live refresh)"}, found_input=False)
            continue
        try:
            time.sleep(0.4)

            def member(uid, gid):
                r, st = rig.encode(d.sock, uid=9, gid=9, auth_gid=gid, data=b"m")
                if r is None or r["error_num"] != 0:
                    return None
                q, st = rig.decode(d.sock, r["data"], uid=uid, gid=60000)
                return None if q is None else (q["error_num"] == 0)
            hist = []
            before = (member(3002, 700), member(3001, 700))
            hist.append("initial: bob in 700 -> %s, ann in 700 -> %s" % before)
            steps = [({"groups": [(700, ["ann", "bob"]), (701, [])], "users": db["users"]}, (3002, 700, True), (3002, 701, False)),
                     ({"groups": [(700, ["cat"]), (701, ["bob"])], "users": db["users"]}, (3003, 700, True), (3001, 700, False))]
            ok = before == (False, True)
            why = None if ok else "initial answers wrong: %s" % (before,)
            for ndb, (u1, g1, w1), (u2, g2, w2) in steps:
                if why:
                    break
                d.write_nss(ndb)
                d.sighup(settle=0.2)
                got = None
                t0 = time.time()
                while time.time() - t0 < 6.0:
                    got = (member(u1, g1), member(u2, g2))
                    if got == (w1, w2):
                        break
                    time.sleep(0.25)
                hist.append("edit + SIGHUP: is_member(%d,%d) -> %s (databases say %s), is_member(%d,%d) -> %s (databases say %s)"
                            % (u1, g1, got[0], w1, u2, g2, got[1], w2))
                ctx.count(("live-refresh", fg, u1, g1))
                if got != (w1, w2):
                    why = ("munged running in the %s: 6 s after a database edit followed by SIGHUP it still answers is_member(uid=%d, gid=%d) = %s "
                           "(databases: %s) and is_member(uid=%d, gid=%d) = %s (databases: %s): the SIGHUP did not lead to a refresh"
                           % (mode, u1, g1, got[0], w1, u2, g2, got[1], w2))
            if why:
                ctx.violation(why, {"mode": mode, "history": hist, "log_tail": d.log_text()[-1500:]})
        finally:
            rc, rep = d.stop()
        if rep.strip():
            ctx.violation("sanitizer report from munged in the live refresh phase (%s)" % mode, {"report": rep[:3000]}, found_input=False)


EMFILE_KEY = "F-C17-emfile-empty-map: refresh without a free descriptor installs an empty map"


def live_emfile_phase(ctx):
    """THOROUGH tier.  A refresh that runs while munged has no free descriptor: the group database cannot be opened
    (EMFILE), the scan then sees "no more entries" at once, _gids_map_create reports success with an empty map and
    _gids_map_update swaps it in — "a failed refresh keeps the old map" is violated (Coq: C17_silent_open_failure_refuted).
    How: the whole daemon with the NSS shim (its setgrent() opens the database file named by VERIF_NSS_DB with fopen() and,
    exactly like glibc's files backend, delivers ENOENT = end of the database from getgrent_r when that open failed — the
    shim is unchanged; the descriptor shortage is REAL): `prlimit --pid` lowers RLIMIT_NOFILE of the running daemon to the
    number of descriptors it has open plus a few, idle client connections take those, then SIGHUP (refreshes on SIGHUP
    only, so that nothing repairs the map afterwards); the idle connections are closed and the answers are asked."""
    import rig, credcorr, socket, shutil
    if not shutil.which("prlimit"):
        ctx.notes.append("live EMFILE scenario skipped: no prlimit")
        return
    exe, err = rig.build_daemon(ctx, name="munged-c17emfile", san="address",
                                extra_src=[os.path.join(vlib.HARNESS, "nss_shim.c")], wraps=credcorr.NSS_WRAPS)
    if exe is None:
        ctx.violation("munged does not build with the NSS shim: " + err[-300:], {"obligation": "build (live EMFILE)"}, found_input=False)
        return
    db = {"groups": [(700, ["ann"]), (701, ["bob"])], "users": [("ann", 3001), ("bob", 3002)]}
    d = rig.Daemon(ctx, exe, tag="c17emfile", nthreads=2, nss_db=db, foreground=True)
    if not d.start():
        ctx.violation("munged does not start (live EMFILE)", {"obligation": "start (live EMFILE)"}, found_input=False)
        return
    idle, hist = [], []
    try:
        time.sleep(0.4)

        def member(uid, gid):
            r, st = rig.encode(d.sock, uid=9, gid=9, auth_gid=gid, data=b"m")
            if r is None or r["error_num"] != 0:
                return None
            q, st = rig.decode(d.sock, r["data"], uid=uid, gid=60000)
            return None if q is None else (q["error_num"] == 0)
        before = (member(3001, 700), member(3002, 701), member(3002, 700))
        hist.append("initial: ann in 700 -> %s, bob in 701 -> %s, bob in 700 -> %s" % before)
        if before != (True, True, False):
            ctx.violation("live EMFILE scenario: initial answers wrong: %s" % (before,), {"history": hist}, found_input=False)
            return
        pid = d.p.pid
        nfd = len(os.listdir("/proc/%d/fd" % pid))
        lim = nfd + 4
        rc, out, err = vlib.sh(["prlimit", "--pid", str(pid), "--nofile=%d:%d" % (lim, lim)])
        if rc != 0:
            ctx.notes.append("live EMFILE scenario skipped: prlimit failed: %s" % err[-200:])
            return
        for _ in range(40):                                  # idle clients: connect and say nothing
            c = socket.socket(socket.AF_UNIX, socket.SOCK_STREAM)
            c.settimeout(2.0)
            try:
                c.connect(d.sock)
                idle.append(c)
            except OSError:
                c.close()
                break
        full = False
        t0 = time.time()
        while time.time() - t0 < 5.0:
            if len(os.listdir("/proc/%d/fd" % pid)) >= lim:
                full = True
                break
            time.sleep(0.05)
        hist.append("RLIMIT_NOFILE=%d (had %d open), %d idle connections, descriptor table full: %s" % (lim, nfd, len(idle), full))
        d.sighup(settle=0.2)                                 # the refresh runs once the acceptor gets round to the signal
        t0 = time.time()
        while time.time() - t0 < 8.0 and d.log_text().count("Processing signal") < 1:
            time.sleep(0.1)
        time.sleep(0.8)
        hist.append("SIGHUP while no descriptor is free; munged log: %s" % " / ".join(
            l.strip() for l in d.log_text().splitlines()[-30:] if "Found" in l or "accept" in l or "ignal" in l)[-600:])
        for c in idle:
            c.close()
        idle = []
        after = None
        t0 = time.time()
        while time.time() - t0 < 12.0:                       # the workers drop the idle connections; then we are served
            after = (member(3001, 700), member(3002, 701))
            if None not in after:
                break
            time.sleep(0.3)
        hist.append("after the refresh (databases unchanged): ann in 700 -> %s, bob in 701 -> %s" % after)
        ctx.count(("live-emfile", lim))
        ctx.cov["live_emfile"] = {"history": hist}
        if full and after == (False, False):
            ctx.violation("%s: RLIMIT_NOFILE=%d, %d idle connections hold every descriptor, SIGHUP: the refresh cannot open the "
                          "group database, yet it installs the (empty) result: is_member(uid=3001, gid=700) and "
                          "is_member(uid=3002, gid=701) flip from yes to no although the databases did not change — a failed "
                          "refresh did not keep the old map" % (EMFILE_KEY.split(":")[0], lim, 40),
                          {"finding_key": EMFILE_KEY, "history": hist, "log_tail": d.log_text()[-1500:]})
        elif after not in ((True, True), (False, False)):
            ctx.notes.append("live EMFILE scenario inconclusive: %s" % (hist[-1],))
    finally:
        for c in idle:
            c.close()
        rc, rep = d.stop()
    if rep.strip() and "failed to allocate" not in rep.lower():
        ctx.notes.append("sanitizer output in the live EMFILE scenario (descriptor shortage): %s" % rep[:300])


def run(ctx):
    _run_component(ctx)
    live_refresh_phase(ctx)
    if ctx.thorough and not ctx.replay:
        live_emfile_phase(ctx)


def _run_component(ctx):
    ctx.level = "proof"
    proved = vlib.prove(ctx, ["Properties_C17.v", "Properties_C17_refresh.v"], facts=["gids"])
    read_facts()
    ctx.log("proofs:", "ok" if proved else "BROKEN: " + getattr(ctx, "broken_obligation", "?"))
    ctx.cov["rule"] = (
        "proof: Properties_C17.v over GidsModel with constants regenerated from /repo; correspondence: the same history "
        "lines through /repo's gids.c+hash.c+xgetgr.c+xgetpw.c (ASan/UBSan/LSan; NSS, stat and time wrapped; each case in "
        "a fresh process) and the extracted LTS; cases = every arrival order of <=3 adjacent gids, random databases over "
        "pools with duplicate gids/uids, unknown and failing users, the reserved uid, empty names and groups, uid_hash and "
        "gid_hash slot collisions, huge groups and long names forcing buffer growth; edit/refresh/SIGHUP/lookup histories "
        "with mtimes around the last load second, stat failures and failing builds; ERANGE-restart schedules on the "
        "'entry consumed' platform variant incl. the 15/16 limit; updates with a concurrent lookup thread (ASan and TSan "
        "builds, old-or-new checker); every lookup of a 8x9 uid/gid universe compared; pair = gids.c+timer.c together "
        "(T lines): random scripts of edits (mtimes around the load second, stat failures), clock steps and jumps around "
        "the interval, SIGHUPs at top level and at the three parking points inside refreshes (before the scan, after the "
        "databases are opened, at the end of the scan), failing builds, lookups inside refreshes; intervals 0/1/60/3600; "
        "compared token by token with the extracted GidsTimerModel and judged by an independent Python statement of "
        "'a SIGHUP is followed by a refresh that starts after it; answers come from the version that must be visible'; "
        "non-trivial = every case (distinct by content)")
    oracle = vlib.build_oracle(ctx, "gids")
    R = vlib.REPO
    src = [os.path.join(vlib.HARNESS, "gids_harness.c")] + [os.path.join(R, p) for p in (
        "src/munged/gids.c", "src/munged/hash.c", "src/common/xgetgr.c", "src/common/xgetpw.c")]
    exes = {}
    for name, kw in (("g", dict()),
                     ("b", dict(defs=["-DGIDS_ERANGE_ADVANCES", "-DHAVE_GETGRENT_R_ERANGE_BROKEN=1"])),
                     ("t", dict(san=False, extra=["-fsanitize=thread"]))):
        kw = dict(kw)
        extra = list(kw.pop("extra", [])) + WRAP
        exe, err = vlib.cc(ctx, "gidsh_" + name, src, extra=extra, libs=["-lpthread"], **kw)
        if exe is None:
            if name == "t" and "tsan" in err.lower():
                ctx.notes.append("TSan build unavailable: " + err[-200:])
                continue
            ctx.violation("gids harness (%s) does not build against /repo: %s" % (name, err[-500:]),
                          {"obligation": "correspondence C17 (build)", "stderr": err}, found_input=False)
            return
        exes[name] = exe
    cases = gen_cases(ctx)
    pair_replay = None
    if ctx.replay:
        r = json.load(open(ctx.replay))
        if "case_line" in r:
            cases = [(r.get("binary", "g"), r["case_line"])]
        elif "pair_case_line" in r:
            cases, pair_replay = [], r["pair_case_line"]
    # gids.c + timer.c together
    pres = None
    if pair_replay or not ctx.replay:
        pres = c17_pair.run(ctx, "C17", oracle, 40000 if ctx.thorough else 3000, {"C17"}, replay_line=pair_replay)
        ctx.cov["pair"] = dict(cases=pres["cases"], failing=len(pres["fails"]), mismatches=len(pres["mismatches"]),
                               **pres.get("stats", {}))
        ctx.log("gids+timer pair: %d cases, %d fail a clause, %d mismatches" % (
            pres["cases"], len(pres["fails"]), len(pres["mismatches"])))
    dist = {}
    for b, l in cases:
        k = b + ":" + ("threaded" if " X" in l else "history" if l.count(" R") > 1 else "build")
        dist[k] = dist.get(k, 0) + 1
    ctx.cov["input_distribution"] = dist
    # implementation
    impl = [None] * len(cases)
    stderr_all = ""
    for b in ("g", "b", "t"):
        idx = [i for i, c in enumerate(cases) if c[0] == b]
        if not idx or b not in exes:
            continue
        env = {"TSAN_OPTIONS": "exitcode=66 halt_on_error=1 report_signal_unsafe=0"} if b == "t" else None
        rc, outs, err = run_parallel(exes[b], [cases[i][1] for i in idx], env=env)
        stderr_all += err
        if rc == 124 or "HANG:" in err:
            hung = [cases[i] for i, o in zip(idx, outs) if o.startswith("!crash")]
            hl = [l for l in err.splitlines() if l.startswith("HANG:")]
            ctx.violation("gids.c does not return (deadlock or endless loop) on a lookup/refresh history: %s" % (hl[0][:400] if hl else "harness timed out"),
                          {"obligation": "correspondence C17 (termination)", "binary": b, "case_line": hung[0][1] if hung else "",
                           "stderr": err[-2000:]})
            return
        for i, o in zip(idx, outs):
            impl[i] = o
        ctx.log("implementation (%s) ran %d cases rc=%d" % (b, len(idx), rc))
    cases = [c for c, o in zip(cases, impl) if o is not None]
    impl = [o for o in impl if o is not None]
    # the property evaluated directly on the implementation's answers
    direct_fail = []
    for (b, l), o in zip(cases, impl):
        ctx.count((b, l))
        why = property_holds(l, o)
        if why:
            direct_fail.append((b, l, o, why))
    for b, l in cases[:2] + cases[len(cases) // 2: len(cases) // 2 + 2] + cases[-2:]:
        ctx.sample(l[:300])
    # candidate findings: witnesses of the refuted stronger readings, replayed on the C code
    cands = []
    for key in sorted(WITNESS):
        line, stale, fresh = WITNESS[key]
        for (b, l), o in zip(cases, impl):
            if l == line and b == "g":
                last = o.split(" ")[-1]
                cands.append({"key": key, "case_line": line, "impl_output": o,
                              "reproduced": last == stale, "answer_if_edit_were_reflected": fresh})
                break
    ctx.cov["candidate_findings"] = cands
    # once a candidate is adopted (listed in known_findings.json) its reproduction is reported through
    # the KNOWN-FINDING channel (status open) or as a violation (any other status, i.e. it came back)
    known_keys = {k.get("key") for k in vlib.load_known_findings() if k.get("property") == "C17"}
    for c in cands:
        if c["reproduced"] and c["key"] in known_keys:
            ctx.violation("%s: an edit made after the previous load is never reflected (final sweep %s, %s would reflect it)"
                          % (c["key"], c["impl_output"].split(" ")[-1], c["answer_if_edit_were_reflected"]),
                          {"finding_key": c["key"], "case_line": c["case_line"], "binary": "g",
                           "impl_output": c["impl_output"]})
    for c in cands:
        ctx.notes.append("candidate %s: %s on the C code (final sweep %s; %s would reflect the edit)" % (
            c["key"], "REPRODUCED" if c["reproduced"] else "not reproduced", c["impl_output"].split(" ")[-1],
            c["answer_if_edit_were_reflected"]))
    # the model on the same cases
    mismatches = []
    if oracle:
        rc2, mod, err2 = run_parallel(oracle, [l for _, l in cases], env={"OCAMLRUNPARAM": "l=8G"})
        if rc2 != 0 or len(mod) != len(cases):
            ctx.violation("oracle failed to run: rc=%d %s" % (rc2, err2[-300:]), {"obligation": "oracle run"}, found_input=False)
            return
        for (b, l), a, m in zip(cases, impl, mod):
            if a != m:
                mismatches.append((b, l, a, m))
        ctx.cov["traces_validated_against_impl"] = len(cases)
        ctx.log("model ran %d cases, %d mismatches, %d property failures" % (len(cases), len(mismatches), len(direct_fail)))
        # extraction cross-check inside Coq
        samp = [i for i, (b, l) in enumerate(cases) if b == "g" and l.endswith(" M5 R10 A") and len(l) < 1500][:: 7][:40]
        if samp and not ctx.replay:
            res, e3 = vlib.coq_eval_sample(
                ctx, "From Coq Require Import List NArith.\nFrom MV Require Import Bytes GidsModel.\nImport ListNotations.\nLocal Open Scope N_scope.",
                [gallina_build_expr(cases[i][1]) for i in samp])
            if res is None or len(res) != len(samp):
                ctx.notes.append("extraction cross-check could not run: %s" % (e3 or "")[-300:])
                if proved:
                    ctx.violation("vm_compute cross-check of extraction failed to run",
                                  {"obligation": "extraction cross-check", "err": e3}, found_input=False)
            else:
                bad = 0
                for i, r in zip(samp, res):
                    bits = "".join("1" if w == "true" else "0" for w in re.findall(r"true|false", r))
                    if "a" + bits != mod[i].split(" ")[-1]:
                        bad += 1
                ctx.cov["extraction_crosscheck"] = {"cases": len(samp), "disagreements": bad}
                if bad:
                    ctx.violation("extracted oracle disagrees with vm_compute on %d sample cases" % bad,
                                  {"obligation": "extraction cross-check"}, found_input=False)
    elif proved:
        ctx.violation("oracle does not build", {"obligation": "oracle build", "notes": ctx.notes[-1:]}, found_input=False)
    # verdict
    if pres is not None:
        c17_pair.report(ctx, "C17", pres, {"C17"})
    if direct_fail:
        b, l, o, why = min(direct_fail, key=lambda t: len(t[1]))
        ctx.violation("%s (%d failing cases; shortest: %s)" % (why, len(direct_fail), l[:400]),
                      {"case_line": l, "binary": b, "impl_output": o[:2000], "why": why, "n_failing": len(direct_fail),
                       "expected": " ".join(expected_tokens(l)[0])[:2000],
                       "stderr": stderr_all[-3000:] if o.startswith("!crash") else ""})
    elif mismatches:
        b, l, a, m = min(mismatches, key=lambda t: len(t[1]))
        ctx.violation("model and implementation disagree on %d cases (shortest: %s impl=%s model=%s) but the property "
                      "evaluated directly on the implementation holds on all %d cases"
                      % (len(mismatches), l[:300], a[:200], m[:200], len(cases)),
                      {"obligation": "correspondence GidsModel ~ gids.c", "case_line": l, "binary": b,
                       "impl": a[:2000], "model": m[:2000]}, found_input=False)
    elif not proved:
        ctx.violation("proof obligation no longer checks: %s" % getattr(ctx, "broken_obligation", "?"),
                      {"obligation": getattr(ctx, "broken_obligation", "?"), "log": ctx.proof_log[-3000:]},
                      found_input=False)
