"""The pair gids.c + timer.c (component of C17 and C18): the group-map refresh as the periodic service it is in
munged.  harness/gids_timer_harness.c links /repo's real gids.c AND timer.c (virtual clock, scripted databases,
scripted transient NSS failures, SIGHUPs = gids_update() from another thread delivered at chosen points INSIDE a
running _gids_map_update); the model is coq/GidsTimerModel.v (theorems: Properties_C17_refresh.v,
Properties_C18_gids.v), extracted into extract/gids/oracle (T lines).

evaluate() is an independent Python statement of the two clauses on the implementation's own log:
  C18  while interval > 0, after every refresh returns — whatever the outcome of the rebuild — a refresh timer is
       pending that expires within one interval; due timers fire (never early, never twice, not after a
       successful cancel); at rest nothing due is left; gids_destroy finds the timer it recorded.
  C17  every gids_update (SIGHUP), also one that arrives inside a running refresh, queues an immediate refresh, and
       a refresh STARTS after it before the timer thread comes to rest; every lookup answers from the database
       version that must be visible: the one read by the last refresh that was obliged to load (mtime check off or
       disabled, stat failed, mtime newer than the previous good load) and whose build succeeded.
"""
import os, re
import vlib

WRAPS = ["-Wl,--wrap=clock_gettime,--wrap=pthread_cond_wait,--wrap=pthread_cond_timedwait,--wrap=pthread_cond_signal",
         "-Wl,--wrap=getgrent_r,--wrap=setgrent,--wrap=endgrent,--wrap=getpwnam_r,--wrap=stat,--wrap=lstat,--wrap=time",
         "-Wl,--wrap=timer_set_relative,--wrap=timer_cancel"]
SOURCES = ("src/munged/gids.c", "src/munged/hash.c", "src/common/xgetgr.c", "src/common/xgetpw.c",
           "src/munged/timer.c", "src/munged/clock.c")


def base():
    from props import c17
    return c17


def build(ctx):
    src = [os.path.join(vlib.HARNESS, "gids_timer_harness.c")] + [os.path.join(vlib.REPO, p) for p in SOURCES]
    return vlib.cc(ctx, "gidstimerh", src, extra=WRAPS, libs=["-lpthread"])


# --------------------------------------------------------------------------- the clauses, in Python
class Fail(Exception):
    def __init__(self, clause, why):
        Exception.__init__(self, why)
        self.clause, self.why = clause, why


def parse_line(line):
    f = line.split(" ")
    interval, dostat = (int(x) for x in f[1][1:].split(","))
    us, _, gs = f[2][1:].partition("|")
    U = [int(x) for x in us.split(",")] if us else []
    G = [int(x) for x in gs.split(",")] if gs else []
    return interval, dostat, U, G, [o for o in f[3:] if o]


def evaluate(line, out):
    """None when the log satisfies both clauses, else (clause, sentence); clause in C17 | C18 | both"""
    UNCLOSED = ("refresh #%s returned with the group database stream still OPEN (its scan was not ended by endgrent()): "
                "glibc's next setgrent() then only rewinds the file opened by that scan, so once /etc/group has been "
                "replaced by rename() (vipw, gpasswd, usermod) every later refresh rebuilds the map from the old, unlinked "
                "file")
    unclosed = re.findall(r"!unclosed(-?\d+)", out or "")
    try:
        _evaluate(line, out)
    except Fail as e:
        if unclosed and e.clause in ("C17", "both"):
            return "C17", e.why + " [" + UNCLOSED % unclosed[0] + "]"
        return e.clause, e.why
    if unclosed:
        return "C17", UNCLOSED % unclosed[0] + " (no answer in this history shows it yet)"
    return None


def _evaluate(line, out):
    b = base()
    if out.startswith("!crash"):
        raise Fail("both", "gids.c/timer.c abort (sanitizer report or fatal path): " + out[:100])
    interval, dostat, U, G, ops = parse_line(line)
    toks = out.split(" ") if out else []
    pos = [0]

    def peek():
        return toks[pos[0]] if pos[0] < len(toks) else None

    def take():
        t = peek()
        pos[0] += 1
        return t

    for t in toks:
        if t == "!leak":
            raise Fail("both", "memory leaked while building/swapping maps or retiring timers")
        m = re.match(r"!stuck(-?\d+):(\d)$", t)
        if m:
            b0 = base()
            dbs = [o[1:] for o in line.split(" ") if o.startswith("G")] + \
                  [a[1:] for o in line.split(" ") if o.startswith("H") for f in o.split("/")[1:4] for a in f.split("+") if a.startswith("G")]
            big = max([b0.entry_need(e) for d in dbs for e in b0.parse_db(d)] + [0])
            raise Fail("C18", "refresh #%s never returned: the timer thread is stuck inside _gids_map_update, no later timer of "
                       "any service fires (a sentinel timer set for immediate expiry %s, the clock an hour on); the group "
                       "database has an entry that needs %d bytes (initial xgetgrent buffer %d): log so far: %s"
                       % (m.group(1), "did NOT fire" if m.group(2) == "0" else "fired", big, b0.GRBUF_INIT, " ".join(toks[-8:])))
        if t == "!timeout":
            raise Fail("both", "the case did not finish (deadlock between gids_update and a running refresh, or "
                       "a timer thread that never comes to rest): log so far: " + " ".join(toks[-12:]))
        if t == "!norest" or t.startswith("!unclosed"):
            continue                                       # judged where it occurs in the sequence
        if t.startswith("!") or t.startswith("?"):
            raise Fail("both", "harness trouble: " + t + " (log tail: " + " ".join(toks[-12:]) + ")")
    W = dict(db=[], pw=[], mtime=0)                       # the databases as they are now
    S = dict(clock=0, hi=0, flag=(1 if dostat else 0), t_last=0, loaded=None, pending={}, ids=set(), fired=set(),
             owed=None, started=0, hooks={}, nrefresh=0, unclosed=[])

    def world():
        return (list(W["db"]), list(W["pw"]), W["mtime"])

    def member(wv, u, g):
        return wv is not None and b.spec_member(wv[0], wv[1], u, g)

    def tok_set(t):
        m = re.match(r"s(-?\d+)@(-?\d+)\+(-?\d+)$", t)
        idv, now, ms = int(m.group(1)), int(m.group(2)), int(m.group(3))
        if idv <= 0 or idv in S["ids"]:
            raise Fail("C18", "timer_set_relative returned id %d (not positive or handed out before)" % idv)
        if now != S["clock"]:
            raise Fail("both", "set logged at clock %d ms, driver clock is %d ms" % (now, S["clock"]))
        S["ids"].add(idv)
        S["pending"][idv] = now + max(0, ms)
        return idv, ms

    def tok_cancel(t):
        m = re.match(r"c(-?\d+)=(-?\d+)$", t)
        idv, r = int(m.group(1)), int(m.group(2))
        if r == 1:
            if idv not in S["pending"]:
                raise Fail("C18", "timer_cancel(%d) reported success but that timer is not pending" % idv)
            del S["pending"][idv]
        elif r != 0:
            raise Fail("C18", "timer_cancel(%d) returned %d" % (idv, r))
        return idv, r

    def do_sighup(where):
        """gids_update: everything up to the `u` token is its doing; it must queue one immediate refresh"""
        sets = []
        while peek() is not None and peek()[0] in "cs":
            t = take()
            if t[0] == "c":
                tok_cancel(t)
            else:
                sets.append(tok_set(t))
        if take() != "u":
            raise Fail("both", "gids_update (%s) did not return where the log expects it (tail: %s)" % (
                where, " ".join(toks[max(0, pos[0] - 6):pos[0] + 2])))
        S["flag"] = 1 if S["flag"] else 0
        if not sets:
            raise Fail("C17", "gids_update (%s, clock %d ms) did not queue a refresh (no timer_set_relative call): the "
                       "SIGHUP is ignored" % (where, S["clock"]))
        due = [i for i, ms in sets if ms <= 0 and i in S["pending"]]
        if not due:
            raise Fail("C17", "gids_update (%s) armed a timer %d ms ahead instead of an immediate refresh" % (where, sets[-1][1]))
        S["owed"] = dict(clock=S["clock"], where=where, world=world(), timer=due[-1])

    def do_sweep():
        t = take()
        if t is None or t[0] != "a" or len(t) != 1 + len(U) * len(G):
            raise Fail("both", "sweep expected, log has %r" % t)
        for k, ch in enumerate(t[1:]):
            u, g = U[k // len(G)], G[k % len(G)]
            want = "1" if member(S["loaded"], u, g) else "0"
            if ch != want:
                raise Fail("C17", "is_member(uid=%d, gid=%d) answers %s but the database version that must be visible at "
                           "that point says %s (%s)" % (u, g, ch, want,
                                                       "nothing loaded yet" if S["loaded"] is None else
                                                       "group db %s" % b.db_str(S["loaded"][0])[:120]))

    def do_act(a, where):
        c = a[0]
        if c == "G":
            W["db"] = b.parse_db(a[1:])
        elif c == "P":
            W["pw"] = b.parse_pw(a[1:])
        elif c == "M":
            W["mtime"] = None if a[1:] == "!" else int(a[1:])
        elif c == "Y":
            W["symlink"] = a[1:] != "-"
        elif c == "S":
            do_sighup(where)
        elif c in "ct":
            S["clock"] = int(a[1:]) if c == "t" else S["clock"] + int(a[1:])
            S["hi"] = max(S["hi"], S["clock"])
        elif c == "A":
            do_sweep()

    def do_acts(s, where):
        for a in (s.split("+") if s else []):
            do_act(a, where)

    def refresh():
        """one whole callback: f ... r"""
        t = take()
        m = re.match(r"f(-?\d+)@(-?\d+)$", t)
        idv, now = int(m.group(1)), int(m.group(2))
        n = S["started"]
        S["started"] += 1
        if idv in S["fired"]:
            raise Fail("C18", "timer %d fired twice" % idv)
        if idv not in S["pending"]:
            raise Fail("C18", "callback ran for timer %d, which is not pending (never set, cancelled with success, or fired)" % idv)
        if now != S["clock"]:
            raise Fail("both", "callback logged at clock %d ms, driver clock is %d ms" % (now, S["clock"]))
        if S["pending"][idv] > now:
            raise Fail("C18", "timer %d fired at %d ms, before its expiry %d ms" % (idv, now, S["pending"][idv]))
        del S["pending"][idv]
        S["fired"].add(idv)
        S["owed"] = None                                   # a refresh that starts now reads everything edited so far
        hook = S["hooks"].get(n, ("", "", "", None))
        flag_snap, t_last = S["flag"], S["t_last"]
        desc = "refresh #%d (timer %d, started at clock %d ms)" % (n, idv, now)
        # between start and return, in whatever order the implementation passes them: the parking points (other
        # threads act there), the moment the scan opens the databases (`o`), the callback's own timer calls
        opened = None
        marks = {"hT": (hook[0], "inside %s, before its scan" % desc),
                 "hG": (hook[1], "inside %s, after it has opened the databases" % desc),
                 "hE": (hook[2], "inside %s, at the end of its scan" % desc)}
        while peek() is not None and (peek() in marks or peek() in ("o", "e") or peek()[0] in "cs" or peek().startswith("!unclosed")):
            t = take()
            if t == "e":
                continue                                    # endgrent(): the stream is closed again
            if t.startswith("!unclosed"):
                S["unclosed"].append(n)
                continue
            if t in marks:
                do_acts(*marks[t])
            elif t == "o":
                if opened is not None:
                    raise Fail("both", "%s opened the databases twice" % desc)
                opened = (S["clock"] // 1000, W["mtime"], world())
            elif t[0] == "c":
                tok_cancel(t)
            else:
                idv2, ms2 = tok_set(t)
                if interval > 0 and ms2 != interval * 1000:
                    raise Fail("C18", "%s re-armed the refresh %d ms ahead, the update interval is %d s = %d ms: the service "
                               "does not run at its period (its next run comes %s)" % (
                                   desc, ms2, interval, interval * 1000,
                                   "at once, again and again" if ms2 <= 0 else "long before it is due" if ms2 < interval * 1000 else "too late"))
        # the load time is the moment the databases were read; without a scan: the mtime stat() can have seen
        now_s, mtime, snap = opened if opened is not None else (S["clock"] // 1000, W["mtime"], world())
        if flag_snap > 0:
            must = mtime is None or mtime > t_last          # "modification time newer than the previous load"
        else:
            must = True
        t = take()
        m = re.match(r"r([01])([01])$", t or "")
        if not m:
            raise Fail("both", "%s did not return (log has %r)" % (desc, t))
        attempted = m.group(2) == "1"
        if attempted != (opened is not None):
            raise Fail("both", "%s: log inconsistent about a scan having been made (%s)" % (desc, t))
        if must and not attempted:
            raise Fail("C17", "%s did not rebuild the map although the mtime check is off/disabled, stat() failed or "
                       "the group file (mtime %s) is newer than the previous load (%d)%s" % (
                           desc, mtime, t_last, "; the group file is a symbolic link and this is its target's mtime, the one "
                           "stat() reports" if W.get("symlink") else ""))
        fault = hook[3]
        ok = attempted and not (fault is not None and fault <= len(snap[0]))
        outcome = ("not attempted (mtime test)" if not attempted else
                   "succeeded" if ok else "failed: scripted EIO at entry %d of the group database" % fault)
        if ok:
            S["loaded"], S["t_last"] = snap, now_s
        if flag_snap > 0 and mtime is None:
            S["flag"] = -1
        S["nrefresh"] += 1
        # C18: the service keeps recurring
        if interval > 0:
            lim = S["hi"] + interval * 1000
            if not S["pending"]:
                raise Fail("C18", "after %s returned (rebuild %s) NO refresh timer is pending although the update "
                           "interval is %d s: the group-map refresh has stopped recurring" % (desc, outcome, interval))
            if min(S["pending"].values()) > lim:
                raise Fail("C18", "after %s returned (rebuild %s) the earliest pending refresh timer expires at %d ms, "
                           "more than one interval (%d s) after clock %d ms" % (desc, outcome, min(S["pending"].values()),
                                                                                interval, S["hi"]))

    def settle():
        while peek() is not None and peek()[0] == "f":
            refresh()
        t = take()
        if t == "!norest":
            raise Fail("C18", "the timer thread does not come to rest although the clock stands still (it keeps waking up, or "
                       "refresh timers keep firing) (log tail: %s)" % " ".join(toks[max(0, pos[0] - 8):pos[0]]))
        if t != "|":
            raise Fail("both", "unexpected token %r in the log" % t)
        due = [(e, i) for i, e in S["pending"].items() if e <= S["clock"]]
        if due:
            raise Fail("C18", "timer %d (expiry %d ms) has not fired although the clock reads %d ms and the timer "
                       "thread is at rest" % (min(due)[1], min(due)[0], S["clock"]))
        if S["owed"] is not None:
            o = S["owed"]
            diff = ""
            for u in U:
                for g in G:
                    if member(o["world"], u, g) != member(S["loaded"], u, g):
                        diff = ("; the databases at the time of that SIGHUP say is_member(uid=%d, gid=%d) = %d, the daemon "
                                "keeps answering %d" % (u, g, member(o["world"], u, g), member(S["loaded"], u, g)))
                        break
                if diff:
                    break
            gone = "" if o["timer"] in S["pending"] else " (the timer it queued, id %d, was cancelled)" % o["timer"]
            raise Fail("C17", "SIGHUP (gids_update at clock %d ms, %s) was acknowledged but NO refresh started after it: "
                       "the timer thread is at rest%s%s" % (o["clock"], o["where"], gone, diff))

    # gids_create: the struct, then gids_update
    do_sighup("gids_create")
    for op in ops:
        c = op[0]
        if c in "GPMY":
            do_act(op, "top level")
        elif c == "H":
            f = op[1:].split("/")
            S["hooks"][S["started"] + int(f[0])] = (f[1], f[2], f[3], int(f[4][1:]) if f[4] else None)
        elif c in "tcSA":
            do_act(op, "top level, no refresh running")
            settle()
    t = take()
    if t is None or t[0] != "d":
        raise Fail("both", "end of case expected, log has %r" % t)
    m = re.match(r"d(-?\d+)=(-?\d+)$", t)
    if interval > 0:
        if not m:
            raise Fail("C18", "gids_destroy found no timer recorded although the update interval is %d s" % interval)
        if m.group(2) != "1" or int(m.group(1)) not in S["pending"]:
            raise Fail("C18", "gids_destroy: the timer recorded in gids->timer (id %s) is not pending (cancel returned %s) "
                       "although the update interval is %d s and no refresh is running" % (m.group(1), m.group(2), interval))
    elif m and (m.group(2) == "1") != (int(m.group(1)) in S["pending"]):
        raise Fail("C18", "gids_destroy: timer_cancel(%s) returned %s" % (m.group(1), m.group(2)))
    if take() != ".":
        raise Fail("both", "case did not run to completion")


# --------------------------------------------------------------------------- case generation
NAMES = ["a", "b", "c", "d"]
UNI_U = [7, 8, 1000]
UNI_G = [10, 11, 100]


class Gen:
    def __init__(self, rng):
        self.rng = rng

    def db(self):
        r = self.rng
        db = []
        for _ in range(r.randrange(0, 4)):
            db.append((r.choice(UNI_G), [r.choice(NAMES + ["ghost"]) for _ in range(r.choice([0, 1, 2, 3]))]))
        if r.random() < 0.12:
            # an entry that does not fit xgetgrent's buffer: above the initial size, above 2x, 4x, 8x of it
            db.insert(r.randrange(0, len(db) + 1), big_entry(r.choice(UNI_G), r.choice([1, 1, 2, 4, 8]), r.choice(NAMES)))
        return db

    def pw(self):
        r = self.rng
        pw = [(n, r.choice(UNI_U)) for n in NAMES if r.random() < 0.8]
        r.shuffle(pw)
        return pw

    def edit_acts(self, secs):
        """an edit of the group database (sometimes of the user database) with an mtime around `secs`"""
        r = self.rng
        b = base()
        acts = ["G" + b.db_str(self.db())]
        x = r.random()
        if x < 0.75:
            acts.append("M%d" % max(0, secs + r.choice([-1, 0, 0, 1, 1, 2])))
        elif x < 0.85:
            acts.append("M!")
        if r.random() < 0.2:
            acts.append("P" + b.pw_str(self.pw()))
        return acts

    def hook_acts(self, clock, interval, budget):
        r = self.rng
        acts = []
        for _ in range(r.choice([0, 1, 1, 2, 3])):
            x = r.random()
            if x < 0.40 and budget[0] > 0:
                budget[0] -= 1
                acts.append("S")
            elif x < 0.65:
                acts += self.edit_acts(clock[0] // 1000)
            elif x < 0.80:
                d = r.choice([1, 999, 1000, 2500, interval * 1000, interval * 1000 + 1])
                clock[0] += d
                acts.append("c%d" % d)
            else:
                acts.append("A")
        return "+".join(acts)

    def case(self):
        r = self.rng
        b = base()
        interval = r.choice([0, 0, 1, 60, 60, 3600])
        dostat = r.choice([0, 1, 1])
        clock = [0]
        budget = [6]                                       # SIGHUPs inside refreshes (each may start another chain)
        ops = ["G" + b.db_str(self.db()), "P" + b.pw_str(self.pw()), "M%d" % r.choice([0, 0, 1, 5])]
        if r.random() < 0.35:
            # /etc/group is a symbolic link (own mtime fixed) to a file that is edited/replaced: mtime = the target's
            ops.insert(0, "Y%d" % r.choice([0, 0, 3]))

        def hook(j):
            t = self.hook_acts(clock, interval, budget) if r.random() < 0.5 else ""
            g = self.hook_acts(clock, interval, budget) if r.random() < 0.5 else ""
            e = self.hook_acts(clock, interval, budget) if r.random() < 0.4 else ""
            f = "f%d" % r.randrange(0, 4) if r.random() < 0.3 else ""
            if t or g or e or f:
                ops.append("H%d/%s/%s/%s/%s" % (j, t, g, e, f))

        if r.random() < 0.6:
            hook(0)                                        # the start-up refresh
        ops += ["c0", "A"]
        for _ in range(r.randrange(2, 9)):
            x = r.random()
            if x < 0.30:
                ops += self.edit_acts(clock[0] // 1000)
            if r.random() < 0.55:
                hook(0)
                if r.random() < 0.3:
                    hook(1)
            if r.random() < 0.3:
                ops.append("S")
            else:
                step = interval * 1000 if interval > 0 else 5000
                d = r.choice([0, 1, 1000, step - 1, step, step, step + 1, 2 * step, 2 * step + 500, 100 * step])
                clock[0] += d
                ops.append("c%d" % d)
            ops.append("A")
        return "T I%d,%d U%s|%s %s" % (interval, dostat, ",".join(map(str, UNI_U)), ",".join(map(str, UNI_G)),
                                        " ".join(ops))


# fixed cases: the schedules of the two refuted variants of GidsTimerProofs (a SIGHUP inside the start-up refresh after
# an edit it no longer sees, with refreshes on SIGHUP only; one transient EIO with periodic refreshes), the same with
# the SIGHUP at the other two points, a SIGHUP at each point of a periodic refresh, a failed build in every period
CORPUS = [
    "T I0,1 U1000,2000|100 G100: Pa=1000 M5 H0///G100:a+M20+S/ t10000 A",
    "T I0,1 U1000,2000|100 G100: Pa=1000 M5 H0//G100:a+M20+S// t10000 A",
    "T I0,1 U1000,2000|100 G100: Pa=1000 M5 H0/G100:a+M20+S/// t10000 A",
    "T I3600,0 U1000|100 G100:a Pa=1000 M5 H0////f0 t0 A G100: t3600000 A t7200000 A",
    "T I60,1 U1000|100 G100:a Pa=1000 M5 t0 A H0////f1 G100: M70 t60000 A t120000 A t180000 A",
    "T I60,1 U1000|100 G100: Pa=1000 M5 t0 A H0/S/G100:a+M61+S/S+A/ t60000 A t120000 A t180000 A",
    "T I3600,1 U1000|100 G100:a Pa=1000 M5 H0/S+A/S/S/ t0 A t4000000 A",
    "T I1,0 U1000|100 G100:a Pa=1000 M5 H0////f0 H1////f0 H2////f0 t0 A t1000 A t2000 A t3000 A t1000000 A",
    "T I0,1 U1000|100 G100: Pa=1000 M! H0//S+G100:a// t0 A S A M9 S A",
    # an edit while the scan is running, the clock moving on meanwhile: the next refresh must pick it up
    "T I60,1 U1000|100 G100: Pa=1000 M0 H0//c2000+G100:a+M7// t5000 A t65000 A",
    "T I0,1 U1000|100 G100: Pa=1000 M0 H0///c3000+G100:a+M8/ t5000 A S A",
    "T I60,1 U1000|100 G100: Pa=1000 M0 H0/c2000+G100:a+M6/// t5000 A t65000 A",
    # the group file is a symbolic link whose target is replaced: the refresh must see the target's mtime
    "T I60,1 U1000|100 Y0 G100: Pa=1000 M5 t0 A G100:a M61 t60000 A G100: M70 S A",
    "T I0,1 U1000|100 Y3 G100: Pa=1000 M5 t10000 A H0/G100:a+M12/// S A S A",
    # --group-update-time at the values where interval_secs * 1000 leaves the int range (the product must be computed
    # wide): the largest that fits, the first that does not, the first that wraps past zero again, INT_MAX
    "T I2147483,0 U1000|100 G100:a Pa=1000 M5 t0 A c2147482999 A c1 A c2147483000 A",
    "T I2147484,0 U1000|100 G100:a Pa=1000 M5 t0 A c2147483999 A c1 A S A c2147484000 A",
    "T I4294968,1 U1000|100 G100:a Pa=1000 M5 t0 A c704 A c4294967295 A c1 A",
    "T I2147483647,0 U1000|100 G100:a Pa=1000 M5 t0 A c1000 A c2147483646000 A c1000 A",
]


def big_entry(gid, k, name):
    """a group entry needing a little more than k times the initial xgetgrent buffer (one known member, one long name)"""
    init = base().GRBUF_INIT
    e = (gid, [name, "L"])
    return (gid, [name, "L" + "x" * (k * init + 1 - base().entry_need(e))])


def big_corpus():
    """refreshes over a group database with an entry above the initial buffer size, above 2x and 4x of it: the scan
    must grow the buffer and go on, the callback must return, the next period must come"""
    b = base()
    out = []
    for k in (1, 2, 4):
        db = [(10, ["a"]), big_entry(100, k, "a"), (11, ["a"])]
        out.append("T I60,0 U1000|10,11,100 G%s Pa=1000 M5 t0 A t60000 A" % b.db_str(db))
    db = [big_entry(100, 1, "a")]
    out.append("T I60,1 U1000|100 G100: Pa=1000 M5 t0 A H0//S// G%s M61 t60000 A t120000 A" % b.db_str(db))
    return out


def gen_cases(ctx, n):
    base().read_facts()
    g = Gen(ctx.rng)
    return CORPUS + big_corpus() + [g.case() for _ in range(n)]


# --------------------------------------------------------------------------- extraction cross-check
XCODE = """From Coq Require Import List NArith ZArith Bool.
From MV Require Import Bytes GidsModel GidsTimerModel.
Import ListNotations.
Local Open Scope Z_scope.
Inductive sop := SPass (a : act) | SHook (j : nat) (h : hook) | SAct (a : act).
Definition b2z (b : bool) : Z := if b then 1 else 0.
Definition evz (e : gev) : list Z :=
  match e with
  | ESet id now ms => [1; id; now; ms] | ECancel id ok => [2; id; b2z ok] | EFire id now => [3; id; now]
  | EReturn a b => [4; b2z a; b2z b] | EAns _ _ b => [5; b2z b] | EMark c => [6; Z.of_nat c] | EStuck => [7]
  | EUpdated => [8] | EOpen => [9] | EClose => [12]
  end.
Fixpoint hlook (hk : list (nat * hook)) (n : nat) : hook :=
  match hk with [] => no_hook | (k, h) :: r => if Nat.eqb k n then h else hlook r n end.
Fixpoint interp (s : gt) (n : nat) (hk : list (nat * hook)) (l : list sop) : list (list Z) :=
  match l with
  | [] => [match gt_destroy s with Some (id, ok) => [10; id; b2z ok] | None => [10] end]
  | SPass a :: r => interp (fst (do_act VRepo s a)) n hk r
  | SHook j h :: r => interp s n ((n + j, h)%nat :: hk) r
  | SAct a :: r => let '(s', n', e) := drive1 VRepo (hlook hk) 1000 s n a in
                   map evz e ++ [[11]] ++ interp s' n' hk r
  end.
Definition runT (interval dostat : Z) (l : list sop) : list (list Z) :=
  let '(s0, e0) := gt_create interval dostat (mkW [] (pw_of_list []) (Some 0)) in
  map evz e0 ++ interp s0 O [] l."""


def gallina_T(line):
    b = base()
    interval, dostat, U, G, ops = parse_line(line)
    uni = "[%s]" % "; ".join("(%d%%N, %d%%N)" % (u, g) for u in U for g in G)

    def act(a):
        c = a[0]
        if c == "G":
            return "ADb [%s]" % "; ".join("(%d%%N, [%s])" % (g, "; ".join(b.gallina_name(n) for n in ns))
                                          for g, ns in b.parse_db(a[1:]))
        if c == "P":
            return "APw (pw_of_list [%s])" % "; ".join(
                "(%s, %s)" % (b.gallina_name(n), "None" if u is None else "Some %d%%N" % u) for n, u in b.parse_pw(a[1:]))
        if c == "M":
            return "AMtime %s" % ("None" if a[1:] == "!" else "(Some %s)" % a[1:])
        if c == "S":
            return "ASighup"
        if c == "Y":
            return "ALookups []"
        if c == "t":
            return "AClock %s" % a[1:]
        if c == "c":
            return "AAdvance %s" % a[1:]
        return "ALookups %s" % uni

    def acts(s):
        return "[%s]" % "; ".join(act(a) for a in (s.split("+") if s else []))
    sops = []
    for op in ops:
        if op[0] in "GPMY":
            sops.append("SPass (%s)" % act(op))
        elif op[0] == "H":
            f = op[1:].split("/")
            sops.append("SHook %s%%nat (mkH %s %s %s [%s])" % (f[0], acts(f[1]), acts(f[2]), acts(f[3]),
                                                            "FFail %s%%nat" % f[4][1:] if f[4] else ""))
        else:
            sops.append("SAct (%s)" % act(op))
    return "runT %d %d [%s]" % (interval, dostat, "; ".join(sops))


def tokens_of_coq(r, nuni):
    toks, bits = [], ""
    for ev in re.findall(r"\[([^\[\]]*)\]", r):
        v = [int(x) for x in re.findall(r"-?\d+", ev)]
        if not v:
            continue
        if v[0] == 5:
            bits += str(v[1])
            if len(bits) == nuni:
                toks.append("a" + bits)
                bits = ""
            continue
        toks.append({1: lambda: "s%d@%d+%d" % tuple(v[1:4]), 2: lambda: "c%d=%d" % tuple(v[1:3]),
                     3: lambda: "f%d@%d" % tuple(v[1:3]), 4: lambda: "r%d%d" % tuple(v[1:3]),
                     6: lambda: "h" + "TGE"[v[1]], 7: lambda: "!stuck", 8: lambda: "u", 9: lambda: "o", 12: lambda: "e",
                     10: lambda: ("d%d=%d" % tuple(v[1:3]) if len(v) > 1 else "d-"), 11: lambda: "|"}[v[0]]())
    return " ".join(toks + ["."])


def crosscheck(ctx, lines, mod):
    """the extracted oracle (extraction + driver.ml) against vm_compute inside Coq on a few T lines"""
    pick = [i for i, l in enumerate(lines) if len(l) < 500][:len(CORPUS)] + \
           [i for i, l in enumerate(lines) if len(l) < 500][len(CORPUS)::97][:6]
    res, e3 = vlib.coq_eval_sample(ctx, XCODE, [gallina_T(lines[i]) for i in pick])
    if res is None or len(res) != len(pick):
        return "vm_compute cross-check of the gids+timer oracle could not run: %s" % (e3 or "")[-400:]
    bad = []
    for i, r in zip(pick, res):
        _, _, U, G, _ = parse_line(lines[i])
        if tokens_of_coq(r, len(U) * len(G)) != mod[i].strip():
            bad.append(lines[i])
    ctx.cov["pair_extraction_crosscheck"] = {"cases": len(pick), "disagreements": len(bad)}
    return ("extracted gids+timer oracle disagrees with vm_compute on %d of %d sample cases (first: %s)"
            % (len(bad), len(pick), bad[0][:200])) if bad else None


# --------------------------------------------------------------------------- running
def run(ctx, prop, oracle, n_cases, clauses, replay_line=None):
    """-> dict(cases, fails=[(line, out, clause, why)], mismatches=[(line, impl, model)], error=None|text)"""
    b = base()
    res = dict(cases=0, fails=[], mismatches=[], error=None)
    exe, err = build(ctx)
    if exe is None:
        res["error"] = ("gids+timer harness does not build against /repo: %s" % err[-500:], err)
        return res
    lines = [replay_line] if replay_line else gen_cases(ctx, n_cases)
    # a first small chunk, then the rest: a change that deadlocks (a parked refresh holding the gids mutex) costs every
    # affected case its real-time limit, so stop at the first chunk with a failing case
    outs, stderr = [], ""
    first = len(CORPUS) + 40
    for pi, part in enumerate((lines[:first], lines[first:])):
        if not part:
            continue
        rc, o, e = b.run_parallel(exe, part, nchunks=12)
        stderr += e
        if rc == 124 or "HANG:" in e:
            hl = [l for l in e.splitlines() if l.startswith("HANG:")]
            res["fails"].append((part[min(len([x for x in o if not x.startswith("!crash harness-died")]), len(part) - 1)], "",
                                 "both", "gids+timer harness does not finish: %s" % (hl[0][:300] if hl else "timeout")))
            lines = lines[:len(outs)]
            break
        outs += o
        nf = len(res["fails"])
        for l, x in zip(part, o):
            ctx.count(("pair", l))
            v = evaluate(l, x)
            if v:
                res["fails"].append((l, x, v[0], v[1]))
        if pi == 0 and any(f[2] in clauses or f[2] == "both" for f in res["fails"][nf:]):
            ctx.notes.append("gids+timer pair: stopped after the first %d of %d cases: failing case found" % (len(outs), len(lines)))
            lines = lines[:len(outs)]
            break
    res["stderr"] = stderr
    res["cases"] = len(lines)
    joined = " ".join(outs)
    res["stats"] = dict(refreshes=joined.count(" f"), sighups=joined.count(" u"), scans=joined.count(" o "),
                        parked_T=joined.count(" hT"), parked_G=joined.count(" hG"), parked_E=joined.count(" hE"),
                        sighups_inside_refresh=len(re.findall(r" h[TGE](?: [ca]\S+)* (?:c\S+ )?s\S+ u", joined)),
                        failing_builds=sum(l.count("/f") for l in lines), cancels_that_found_nothing=joined.count("=0 s"))
    if oracle:
        rc2, mod, err2 = b.run_parallel(oracle, lines, env={"OCAMLRUNPARAM": "l=8G"})
        if rc2 != 0 or len(mod) != len(lines):
            res["error"] = ("oracle failed to run on the gids+timer cases: rc=%d %s" % (rc2, err2[-300:]), err2)
            return res
        for l, a, m in zip(lines, outs, mod):
            if a != m:
                res["mismatches"].append((l, a, m))
        if not replay_line:
            res["xcheck"] = crosscheck(ctx, lines, mod)
    for l in lines[len(CORPUS):len(CORPUS) + 2]:
        ctx.sample(l[:300])
    return res


def report(ctx, prop, res, clauses):
    """turn the result into violations of [prop]; clauses = the clause tags this property owns"""
    if res["error"]:
        ctx.violation(res["error"][0], {"obligation": "correspondence %s (gids+timer pair)" % prop, "stderr": res["error"][1]},
                      found_input=False)
        return True
    if res.get("xcheck"):
        ctx.violation(res["xcheck"], {"obligation": "extraction cross-check (gids+timer)"}, found_input=False)
    mine = [f for f in res["fails"] if f[2] in clauses or f[2] == "both"]
    other = [f for f in res["fails"] if f not in mine]
    if other:
        ctx.notes.append("gids+timer pair: %d cases fail a clause owned by the other property (%s): %s" % (
            len(other), other[0][2], other[0][3][:200]))
    if mine:
        # prefer a case whose failure is visible in an answer, then the shortest
        l, o, clause, why = min(mine, key=lambda t: (0 if ("keeps answering" in t[3] or "is_member" in t[3]) else 1, len(t[0])))
        if o.startswith("!crash"):
            san = [x.strip() for x in res.get("stderr", "").splitlines() if "runtime error:" in x or "ERROR: AddressSanitizer" in x]
            if san:
                why += " [%s]" % san[0][:300]
        ctx.violation("gids.c+timer.c: %s (%d failing cases; shortest: %s -> %s)" % (why, len(mine), l[:400], o[:300]),
                      {"pair_case_line": l, "impl_output": o[:2000], "why": why, "clause": clause, "n_failing": len(mine),
                       "stderr": res.get("stderr", "")[-2000:] if o.startswith("!crash") else ""})
        return True
    if res["mismatches"] and not other:
        l, a, m = min(res["mismatches"], key=lambda t: len(t[0]))
        ctx.violation("GidsTimerModel and gids.c+timer.c disagree on %d cases (shortest: %s impl=%s model=%s) but both clauses "
                      "evaluated directly on the implementation's log hold on all %d cases"
                      % (len(res["mismatches"]), l[:300], a[:300], m[:300], res["cases"]),
                      {"obligation": "correspondence GidsTimerModel ~ gids.c+timer.c", "pair_case_line": l,
                       "impl": a[:2000], "model": m[:2000]}, found_input=False)
        return True
    return False
