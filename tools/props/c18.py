"""C18 — timers fire once, on time, in order; cancel semantics; callbacks may call in; periodic services persist."""
import json, os, re
import vlib
from props import c17_pair, c18_clock

MANIFEST = dict(
    level=("proof", "Coq theorems over an LTS read off timer.c/clock.c (sorted stable active list, detached expired "
           "batch, signal-after-unlock, ids, cancel searching the active list only, callbacks as programs of "
           "set/cancel), for all operation sequences from any thread, all interleavings with the timer thread and all "
           "clock readings: sortedness/stability, id uniqueness, at-most-once, fires-when-scanned, never early, order, "
           "cancel specification, no deadlock state, no lost wake-up, periodic re-arm invariant; three witness lemmas "
           "(the pre-repair `return (t->id)` after the unlock — found by this check, repaired in /repo, its schedule "
           "replayed on every run; no global expiry order across batches; no cancel of a detached timer).  Tied to the code by running "
           "/repo's timer.c+clock.c under a virtual clock (ASan, 1-3 caller threads) against the extracted model on "
           "generated programs, and by driving the real replay/gids/random re-arm callbacks for virtual hours.  The "
           "group-map refresh is additionally proved over a model of the PAIR gids.c + timer.c (GidsTimerModel, "
           "Properties_C18_gids.v: for every sequence of edits, clock changes, SIGHUPs at any point incl. inside a running "
           "refresh, and every outcome of the rebuild: whenever no refresh is running the timer recorded in gids->timer is "
           "pending and due within one interval; exact count of refresh chains; timer thread never stuck; the variant that "
           "returns early on a failed build is refuted by a witness) and tied by running /repo's gids.c and timer.c together "
           "with scripted NSS failures and SIGHUPs inside refreshes (harness/gids_timer_harness.c) against the extracted "
           "model, the recurrence clause being evaluated directly on the implementation's log.  The PRNG stir service is "
           "proved from EVERY initial condition (TimerStirModel, Properties_C18_stir.v: whatever amount of seed entropy "
           "random_init found — first start, short seed file, complete seed file — a stir timer is pending at all times, set "
           "between 1 s and the maximum + stagger before its expiry; a due one can always be dispatched; the interval reaches "
           "the maximum within 15 stirs; random_init makes exactly one set of the callback, the premise of the periodic "
           "theorem; the schedule equals tables MEASURED by running /repo's random.c on every run; the variant that skips the "
           "start-up stir of a fully seeded pool is refuted) and the real callbacks are run from three initial conditions "
           "(seed file absent, complete, short, and the two sizes around RANDOM_BYTES_WANTED) over several "
           "maximum-length intervals.  The clock arithmetic (src/munged/clock.c) is TRANSLATED FROM ITS C TEXT on every run "
           "(tools/facts/clockfun.py -> gen/GenClockFun.v) and Properties_C18_clock.v proves that the model's time-stamp "
           "order and deadline computation are those functions, that a deadline is exactly ms milliseconds after the reading "
           "and a valid timespec, and that `expired` is exactly deadline <= now; /repo's clock.c (pinned clock_gettime) runs "
           "on second-boundary readings against the translation and the model evaluated by vm_compute.",
           "7 C18"),
    note="Trusted: Coq kernel, gen_facts probe, extraction, harness/driver glue, the --wrap shims for clock_gettime "
         "and pthread_cond_{wait,timedwait,signal}; timer.c itself is modelled and tied by differential testing, not "
         "verified.  Ids are proved unique below LONG_MAX set operations (the code wraps to 1 after that).",
    technique="Coq proof (invariants over an LTS, runs as label lists) + extracted oracle + deterministic virtual-time "
              "harness on timer.c + property evaluated on the callback log + periodic-service run + gids.c and timer.c "
              "linked together with scripted NSS failures and SIGHUPs inside refreshes + clock.c translated from source "
              "(C text -> Gallina) with equivalence theorems")

WRAPS = "-Wl,--wrap=clock_gettime,--wrap=pthread_cond_wait,--wrap=pthread_cond_timedwait,--wrap=pthread_cond_signal"
FINDING_KEY = "C18-set-returns-id-after-unlock"
NS = 1000000000


# fixed cases run every time: the replay of the (repaired) id-after-unlock defect, and the two documented
# behaviours proved as witnesses in Properties_C18.v (order across batches, cancel of a detached timer)
CORPUS = [
    "Z 2 - t:100.0 h0:A50.0:0 s1:A1000.0:0 r0 c1:K0 t:2000.0",
    "S 1 -;A15.0:0 s0:A10.0:1 s0:A20.0:0 t:25.0 t:1000.0",
    "S 1 -;X2 s0:A10.0:1 s0:A10.0:0 t:10.0 t:1000.0",
    "S 2 R60000:0 s0:R60000:0 t:59.999999999 t:60.0 t:3600.0 t:3660.0 t:90000.0",
    # the head timer is cancelled in the window between the time-out of the timer thread's wait and its re-lock: the next
    # timer must wait for its own expiry (SIGHUP arriving in the instant the refresh timer expires)
    "S 1 -;- s0:A10.0:0 s0:A3600.0:1 x0:10.0:K1 t:20.0 t:3599.999999999 t:3600.0 t:4000.0",
    "S 2 -;-;- s0:A10.0:0 s1:A10.0:1 s0:A50.500000000:2 x1:10.0:K2 t:11.0 x0:50.500000000:K0 t:60.0",
    "S 1 R5000:0 s0:R1000:0 x0:1.0:K0 t:2.0 t:6.0 x0:7.0:X2 t:100.0",
]

# ----------------------------------------------------------------------------------------------------------
# case generation
# ----------------------------------------------------------------------------------------------------------
def fmt_ts(t):
    return "%d.%d" % t


def gen_hop_set(rng, cbs, now_hint, rel_only=False, min_ms=0, abs_only=False):
    cb = rng.choice(cbs)
    if rel_only or (not abs_only and rng.random() < 0.45):
        ms = rng.choice([m for m in (0, 1, 1, 500, 999, 1000, 1001, 1500, 2500, 60000) if m >= min_ms])
        return "R%d:%d" % (ms, cb)
    sec = max(0, now_hint + rng.choice([-3, -1, 0, 0, 1, 1, 2, 2, 3, 5, 8]))
    ns = rng.choice([0, 0, 0, 500000000, 999999999, 1])
    return "A%d.%d:%d" % (sec, ns, cb)


def gen_cancel(rng):
    if rng.random() < 0.75:
        return "K%d" % rng.choice([0, 0, 1, 1, 2, 3, 5])
    return "X%d" % rng.choice([0, -1, 1, 2, 3, 7, 999, 999999999999])


def gen_progs(rng, periodic=True):
    """Callback programs.  Two shapes, so that every settle terminates and the population stays bounded:
    periodic = exactly one self re-arm with a positive relative delay (+ cancels);
    dag      = sets of higher-numbered callbacks only (any time-stamp, also already expired) + cancels."""
    ncb = rng.randrange(1, 6)
    progs = []
    for k in range(ncb):
        hops = []
        higher = list(range(k + 1, ncb))
        if periodic and rng.random() < 0.35:
            hops.append(gen_hop_set(rng, [k], 0, rel_only=True, min_ms=1))
            for _ in range(rng.choice([0, 0, 1, 2])):
                hops.insert(rng.randrange(len(hops) + 1), gen_cancel(rng))
        else:
            for _ in range(rng.choice([0, 0, 1, 1, 2, 3])):
                if higher and rng.random() < 0.55:
                    hops.append(gen_hop_set(rng, higher, rng.randrange(0, 30), abs_only=not periodic))
                else:
                    hops.append(gen_cancel(rng))
        progs.append(hops)
    return progs


def progs_str(progs):
    return ";".join(",".join(p) if p else "-" for p in progs)


def gen_serial(ctx):
    rng = ctx.rng
    nth = rng.randrange(1, 4)
    progs = gen_progs(rng)
    ncb = len(progs)
    now = (0, 0)
    ops = []
    expiries = []
    for _ in range(rng.randrange(6, 40)):
        r = rng.random()
        th = rng.randrange(nth)
        if r < 0.45:
            ops.append("s%d:%s" % (th, gen_hop_set(rng, list(range(ncb)), now[0])))
            m = re.match(r"A(\d+)\.(\d+):", ops[-1].split(":", 1)[1])
            if m:
                expiries.append((int(m.group(1)), int(m.group(2))))
        elif r < 0.56:
            ops.append("c%d:%s" % (th, gen_cancel(rng)))
        elif r < 0.64:
            # a cancel in the window between the wait's time-out and the re-lock, at an expiry that was set (or near)
            fut = [e for e in expiries if e[0] * NS + e[1] >= now[0] * NS + now[1]]
            t_x = rng.choice(fut) if fut and rng.random() < 0.8 else (now[0] + rng.choice([0, 1, 2]), 0)
            now = t_x
            ops.append("x%d:%s:%s" % (th, fmt_ts(t_x), gen_cancel(rng)))
        else:
            q = rng.random()
            if q < 0.70:
                d = rng.choice([1, 500000000, NS, NS, NS + 1, 2 * NS, 3 * NS])
            elif q < 0.90:
                d = rng.choice([60, 100, 3600, 86400]) * NS          # forward jump
            else:
                d = -rng.choice([1, NS, 2 * NS])                     # clock read going back
            tot = max(0, now[0] * NS + now[1] + d)
            now = (tot // NS, tot % NS)
            ops.append("t:" + fmt_ts(now))
    ops.append("t:%d.0" % (now[0] + 1000000))
    return "S %d %s %s" % (nth, progs_str(progs), " ".join(ops))


def gen_periodic_model_case(ctx):
    """self re-arming callbacks (the shape of replay_purge / _random_stir_entropy) under jumps"""
    rng = ctx.rng
    per = [rng.choice([1, 1000, 60000, 3600000]) for _ in range(rng.randrange(1, 4))]
    progs = [["R%d:%d" % (p, i)] for i, p in enumerate(per)]
    ops = ["s0:R%d:%d" % (p, i) for i, p in enumerate(per)]
    now = 0
    for _ in range(rng.randrange(10, 60)):
        now += rng.choice([1, 999, 1000, 1001, 59999, 60000, 60001, 120000, 3600000, 86400000])
        ops.append("t:%d.%d" % (now // 1000, (now % 1000) * 1000000))
        if rng.random() < 0.1:
            ops.append("c0:X%d" % rng.choice([0, 999999]))
    return "S 1 %s %s" % (progs_str(progs), " ".join(ops))


def gen_parallel(ctx):
    rng = ctx.rng
    nth = rng.randrange(2, 4)
    progs = gen_progs(rng, periodic=False)
    ncb = len(progs)
    ops = []
    t = 0
    for _ in range(rng.randrange(10, 60)):
        r = rng.random()
        th = rng.randrange(nth)
        if r < 0.55:
            sec = rng.randrange(0, 12); ns = rng.choice([0, 0, 500000000])
            ops.append("s%d:A%d.%d:%d" % (th, sec, ns, rng.randrange(ncb)))
        elif r < 0.8:
            ops.append("c%d:K%d" % (th, rng.choice([0, 0, 1, 2])))
        else:
            t += rng.choice([0, 1, 1, 2, 3])
            ops.append("t:%d.0" % t)
    ops.append("t:%d.0" % (t + 1000000))
    return "P %d %s %s" % (nth, progs_str(progs), " ".join(ops))


def gen_race(ctx, i):
    """The id-after-unlock schedule: a set that expires at once is held between its unlock and its return while
    the timer thread dispatches and retires it and another thread's set re-uses the struct."""
    rng = ctx.rng
    now = rng.randrange(50, 500)
    early = rng.randrange(0, now)
    late = now + rng.randrange(10, 1000)
    pre = ["s1:A%d.0:0" % (late + 7 + k) for k in range(i % 3)]
    return " ".join(("Z 2 - t:%d.0 %s h0:A%d.0:0 s1:A%d.0:0 r0 c1:K0 t:%d.0"
                     % (now, " ".join(pre), early, late, late + 100000)).split())


# ----------------------------------------------------------------------------------------------------------
# the property, evaluated on the implementation's own log (independent of the Coq model)
# ----------------------------------------------------------------------------------------------------------
def add_ms(now, ms):
    if ms <= 0:
        return now
    tot = now[0] * NS + now[1] + ms * 1000000
    return (tot // NS, tot % NS)


def parse_hop(h):
    k = h[0]
    if k == "R":
        ms, cb = h[1:].split(":")
        return ("R", int(ms), int(cb))
    if k == "A":
        t, cb = h[1:].split(":")
        s, n = t.split(".")
        return ("A", (int(s), int(n)), int(cb))
    return (k, int(h[1:]), None)


def parse_case(line):
    f = line.split()
    mode, nth = f[0], int(f[1])
    progs = [[] if p == "-" else [parse_hop(h) for h in p.split(",")] for p in f[2].split(";")]
    ops = []
    for tok in f[3:]:
        if tok[0] == "t":
            s, n = tok[2:].split(".")
            ops.append(("t", None, (int(s), int(n))))
        elif tok[0] == "r":
            ops.append(("r", int(tok[1:]), None))
        elif tok[0] == "x":
            th, t, hop = tok[1:].split(":", 2)
            s_, n = t.split(".")
            ops.append(("x", int(th), ((int(s_), int(n)), parse_hop(hop))))
        else:
            th, rest = tok[1:].split(":", 1)
            ops.append((tok[0], int(th), parse_hop(rest)))
    return mode, nth, progs, ops


TOK = re.compile(r"^(?:([SsCc])(-?\d+)=(-?\d+)|F(\d+)@(-?\d+)\.(-?\d+)|(H)|(\|)|(\.))$")


def property_holds(line, out):
    """None when the log satisfies C18, else a sentence naming the broken clause."""
    mode, nth, progs, ops = parse_case(line)
    toks = out.split()
    if not toks or toks[0] != mode:
        return "malformed harness answer"
    toks = toks[1:]
    for t in toks:
        if t.startswith("!"):
            return "harness trouble: " + " ".join(toks[toks.index(t):])[:120] + \
                   " (a set/cancel blocked, or the timer thread never came to rest)"
    if not toks or toks[-1] != ".":
        return "case did not run to completion"
    timers = {}        # seq -> dict
    by_id = {}
    now = (0, 0)
    seq_ctr = 0
    segs = [[]]
    for t in toks[:-1]:
        if t == "|":
            segs.append([])
        else:
            segs[-1].append(t)
    segs = segs[:-1] if segs and not segs[-1] else segs
    if mode == "P":
        return property_parallel(progs, ops, segs)
    if len(segs) != len(ops):
        return "log has %d op segments for %d ops" % (len(segs), len(ops))
    held = []
    for si, (op, seg) in enumerate(zip(ops, segs)):
        kind, th, h = op
        cur = None          # (timer, remaining program) of the running callback
        pos = 0

        def new_timer(hop, top):
            nonlocal seq_ctr
            seq_ctr += 1
            ts = hop[1] if hop[0] == "A" else add_ms(now, hop[1])
            timers[seq_ctr] = dict(seq=seq_ctr, id=None, ts=ts, cb=hop[2], seg=si, top=top, fired=False,
                                   cancelled=False)
            return timers[seq_ctr]

        def bind_id(tm, idv):
            if idv <= 0:
                return "set returned a non-positive id %d" % idv
            if idv in by_id and by_id[idv] is not tm:
                return ("two set calls returned the same id %d (set #%d and set #%d): the id does not identify "
                        "the caller's timer" % (idv, by_id[idv]["seq"], tm["seq"]))
            tm["id"] = idv
            by_id[idv] = tm
            return None

        def do_cancel(idv, ret, inner):
            if idv <= 0:
                return None if ret == -1 else "cancel of id %d returned %d, not -1" % (idv, ret)
            tm = by_id.get(idv)
            pending = tm is not None and not tm["fired"] and not tm["cancelled"]
            if ret == 1:
                if not pending:
                    why = "unknown" if tm is None else ("already fired" if tm["fired"] else "already cancelled")
                    return "cancel of id %d reported success but that timer is %s" % (idv, why)
                tm["cancelled"] = True
                return None
            if ret == 0:
                if pending and not (inner and le(tm["ts"], now)):
                    return "cancel of the still-pending timer id %d reported that nothing was cancelled" % idv
                return None
            return "cancel of id %d returned %d" % (idv, ret)

        if kind == "t":
            now = h
        elif kind == "x":                 # clock reading, then a cancel made before the timer thread rescans
            now, h = h
            kind = "c"
        elif kind == "h":
            held.append(new_timer(h, True))
        expect_top = kind in ("s", "c")
        for t in seg:
            m = TOK.match(t)
            if not m:
                return "unparsable token %r" % t
            if m.group(1):
                k, a, b = m.group(1), int(m.group(2)), int(m.group(3))
                if k == "S":
                    if kind == "r" or (kind == "h" and held):
                        tm = held.pop(0) if held else None
                        if tm is None:
                            return "unexpected set result"
                    elif kind == "s" and expect_top:
                        tm = new_timer(h, True)
                        expect_top = False
                    else:
                        return "unexpected top-level set result"
                    if tm["seq"] != a:
                        return "set sequence numbers out of step"
                    why = bind_id(tm, b)
                    if why:
                        return why
                elif k == "C":
                    if kind != "c" or not expect_top:
                        return "unexpected top-level cancel result"
                    expect_top = False
                    why = do_cancel(a, b, False)
                    if why:
                        return why
                else:
                    if cur is None or not cur[1]:
                        return "callback made more calls than its program has"
                    hop = cur[1].pop(0)
                    if k == "s":
                        if hop[0] not in "RA":
                            return "callback ops out of step"
                        tm = new_timer(hop, False)
                        if tm["seq"] != a:
                            return "set sequence numbers out of step"
                        why = bind_id(tm, b)
                    else:
                        if hop[0] not in "KX":
                            return "callback ops out of step"
                        why = do_cancel(a, b, True)
                    if why:
                        return why
            elif m.group(4):
                seq, at = int(m.group(4)), (int(m.group(5)), int(m.group(6)))
                tm = timers.get(seq)
                if tm is None:
                    return "callback ran for a timer that was never set (#%d)" % seq
                if tm["fired"]:
                    return "timer #%d fired twice" % seq
                if tm["cancelled"]:
                    return "timer #%d (id %s) fired after its cancel reported success" % (seq, tm["id"])
                if at != now:
                    return "callback saw clock %s, driver clock is %s" % (at, now)
                if not le(tm["ts"], at):
                    return "timer #%d fired at %s, before its expiry %s" % (seq, fmt_ts(at), fmt_ts(tm["ts"]))
                # order: nothing that was certainly pending with a smaller (expiry, set order) may still wait
                for o in timers.values():
                    if o is tm or o["fired"] or o["cancelled"]:
                        continue
                    if (o["seg"] < si or o["top"]) and key(o) < key(tm):
                        return ("timer #%d (expiry %s) fired before timer #%d (expiry %s) that was set earlier and "
                                "was pending" % (seq, fmt_ts(tm["ts"]), o["seq"], fmt_ts(o["ts"])))
                tm["fired"] = True
                cur = (tm, list(progs[tm["cb"]]) if 0 <= tm["cb"] < len(progs) else [])
            elif m.group(7):
                pass
        if expect_top:
            return "op %d produced no result" % si
        # at rest: nothing due may still be waiting (fires when due; lost wake-ups show here)
        for o in timers.values():
            if not o["fired"] and not o["cancelled"] and le(o["ts"], now):
                return ("timer #%d (expiry %s) has not fired although the clock reads %s and the timer thread is "
                        "at rest" % (o["seq"], fmt_ts(o["ts"]), fmt_ts(now)))
    return None


def le(a, b):
    return a[1] <= b[1] if a[0] == b[0] else a[0] <= b[0]


def key(tm):
    return (tm["ts"][0], tm["ts"][1], tm["seq"])


PTOK = re.compile(r"^(?:([Ss])(\d+)=(-?\d+)@(-?\d+)\.(-?\d+)|([Cc])(-?\d+)=(-?\d+)|F(\d+)@(-?\d+)\.(-?\d+))$")


def property_parallel(progs, ops, segs):
    """Truly concurrent callers: the interleaving is not known, so only the clauses that do not need it:
    ids positive and distinct; a callback runs at most once, never before its expiry, never after a cancel of
    its id reported success; at most one cancel per id reports success; every timer that was not cancelled
    has fired once the clock has passed every expiry and the timer thread is at rest."""
    toks = [t for s in segs for t in s]
    final = [o[2] for o in ops if o[0] == "t"][-1]
    sets, ts_of, fires, cancels = {}, {}, {}, []
    for t in toks:
        m = PTOK.match(t)
        if not m:
            return "unparsable token %r" % t
        if m.group(1):
            seq, idv, ts = int(m.group(2)), int(m.group(3)), (int(m.group(4)), int(m.group(5)))
            if idv <= 0:
                return "set returned a non-positive id %d" % idv
            if idv in sets.values():
                other = [k for k, v in sets.items() if v == idv][0]
                return ("two set calls returned the same id %d (set #%d and set #%d): the id does not identify "
                        "the caller's timer" % (idv, other, seq))
            sets[seq] = idv
            ts_of[seq] = ts
        elif m.group(6):
            cancels.append((int(m.group(7)), int(m.group(8))))
        else:
            seq = int(m.group(9))
            if seq in fires:
                return "timer #%d fired twice" % seq
            fires[seq] = (int(m.group(10)), int(m.group(11)))
    id2seq = {v: k for k, v in sets.items()}
    ok_cancel = set()
    for idv, ret in cancels:
        if idv <= 0:
            if ret != -1:
                return "cancel of id %d returned %d, not -1" % (idv, ret)
            continue
        if ret == 1:
            if idv not in id2seq:
                return "cancel of id %d, which no set returned, reported success" % idv
            if idv in ok_cancel:
                return "two cancels of id %d reported success" % idv
            ok_cancel.add(idv)
            if id2seq[idv] in fires:
                return "timer id %d fired although its cancel reported success" % idv
        elif ret != 0:
            return "cancel of id %d returned %d" % (idv, ret)
    for seq, at in fires.items():
        if seq not in sets:
            return "callback ran for a timer that no set call accounts for (#%d)" % seq
        if not le(ts_of[seq], at):
            return "timer #%d fired at %s, before its expiry %s" % (seq, fmt_ts(at), fmt_ts(ts_of[seq]))
    for seq, idv in sets.items():
        if idv not in ok_cancel and seq not in fires and le(ts_of[seq], final):
            return ("timer #%d (id %d, expiry %s) was neither cancelled nor fired although the clock reads %s and "
                    "the timer thread is at rest" % (seq, idv, fmt_ts(ts_of[seq]), fmt_ts(final)))
    return None


# ----------------------------------------------------------------------------------------------------------
def build_harness(ctx):
    R = vlib.REPO
    src = [os.path.join(vlib.HARNESS, "timer_harness.c")] + [os.path.join(R, p) for p in (
        "src/munged/timer.c", "src/munged/clock.c", "src/munged/thread.c", "src/libcommon/log.c",
        "src/libcommon/str.c", "src/libcommon/daemonpipe.c", "src/libcommon/fd.c")]
    return vlib.cc(ctx, "timerh", src, libs=[WRAPS, "-lpthread"])


def build_periodic(ctx):
    R = vlib.REPO
    md = os.path.join(R, "src/munged")
    srcs = [os.path.join(md, f) for f in sorted(os.listdir(md))
            if f.endswith(".c") and f not in ("munged.c", "base64_test.c")]
    srcs += [os.path.join(R, "src/libcommon", f) for f in sorted(os.listdir(os.path.join(R, "src/libcommon")))
             if f.endswith(".c")]
    srcs += [os.path.join(R, "src/common", f) for f in
             ("crypto.c", "entropy.c", "mac.c", "md.c", "query.c", "rotate.c", "xgetgr.c", "xgetpw.c", "xsignal.c")]
    srcs += [os.path.join(R, "src/libmissing", f) for f in ("strlcpy.c", "strlcat.c")
             if os.path.exists(os.path.join(R, "src/libmissing", f))]
    srcs += [os.path.join(R, "src/libmunge", f) for f in ("strerror.c", "enum.c")]
    srcs = [os.path.join(vlib.HARNESS, "timer_periodic_harness.c")] + srcs
    return vlib.cc(ctx, "timerp", srcs,
                   libs=[WRAPS + ",--wrap=timer_set_relative,--wrap=time", "-lpthread", "-lbz2", "-lrt", "-lz",
                         "-lcrypto",
                         # src/common/rotate.c shifts a negative mask (UBSan: shift) while random_init gathers
                         # entropy; unrelated to C18, and the run must get past start-up
                         "-fno-sanitize=shift"])


def periodic_steps(ctx):
    rng = ctx.rng
    n = 3000 if ctx.thorough else 600
    steps, t = [], 0
    for _ in range(n):
        r = rng.random()
        if r < 0.60:
            t += rng.choice([1000, 30000, 59999, 60000, 60001])
        elif r < 0.90:
            t += rng.choice([90000, 600000])
        elif r < 0.98:
            t += 3600000
        else:
            t += rng.choice([7200000, 36000000])            # big forward jump
        steps.append("t %d" % t)
        if rng.random() < 0.03:
            steps.append("hup")
    return steps


def stir_secs_of(ms, facts):
    """delay = secs*1000 + (up to 1023 ms of stagger); secs a power of two up to the maximum"""
    for j in range(0, 1024):
        if ms - j >= 0 and (ms - j) % 1000 == 0:
            s = (ms - j) // 1000
            if s >= 1 and (s & (s - 1)) == 0 and s <= facts["stir_max_secs"]:
                return s
    return None


def read_facts():
    txt = open(os.path.join(vlib.COQ, "gen", "GenTimer.v")).read()
    return {m.group(1): int(m.group(2)) for m in re.finditer(r"Definition (\w+) : Z := (-?\d+)\.", txt)}


def stir_steps(ctx):
    """clock steps aimed at the stir service: around the short enhanced intervals, then maximum-length intervals
    (exactly at, just before and just after the expiry incl. the stagger, jumps over several), then enough full-length
    steps that EVERY initial condition sees at least 40 stirs after the maximum interval has been reached (15 doublings
    from a first start): whatever state is kept behind the interval has time to go wrong (virtual time is free)"""
    rng = ctx.rng
    facts = read_facts()
    mx = facts["stir_max_secs"] * 1000
    steps, t = [], 0
    for _ in range(16):
        t += rng.choice([1000, 2000, 2500, 4000, 8000, 16500, 33000, 70000])
        steps.append("t %d" % t)
    for _ in range(12):
        t += rng.choice([mx - 1, mx, mx + 1023, mx + 1024, mx // 2, 2 * mx + 5000, 3600000])
        steps.append("t %d" % t)
    for _ in range(80 if ctx.thorough else 58):              # one stir per step: 15 to reach the maximum + 40 and more
        t += mx + 1023 + rng.choice([1, 1, 1000, mx // 3, 5 * mx])
        steps.append("t %d" % t)
    return steps


def make_seed(ctx, nbytes):
    """a seed file as a previous run of munged leaves it (regular, owner-only, in a private directory)"""
    p = os.path.join(ctx.tmp, "seed-%s" % ("none" if nbytes is None else nbytes))
    if os.path.exists(p):
        os.unlink(p)
    if nbytes is not None:
        fd = os.open(p, os.O_WRONLY | os.O_CREAT | os.O_TRUNC, 0o600)
        os.write(fd, os.urandom(nbytes))
        os.close(fd)
    return p


def check_periodic(ctx, exe, steps=None, seed_bytes=None, tag="periodic"):
    """Real replay_purge / _gids_map_update / _random_stir_entropy under a virtual clock, judged by an independent
    statement of "the service recurs": each service always has exactly one timer pending; when the clock reaches
    it the callback runs at that reading and arms the next one (replay: +60 s; gids: +interval, and a
    gids_update arms an immediate one that replaces the pending one; random: from EITHER initial condition —
    seed file absent/short: 2 s then doubling; complete: the maximum at once — a delay of at least a second and at
    most the maximum plus < 1024 ms, following the doubling schedule exactly)."""
    facts = read_facts()
    steps = steps or periodic_steps(ctx)
    seed = make_seed(ctx, seed_bytes)
    rc, out, err = vlib.run_lines([exe, seed], steps, timeout=900, env={"ASAN_OPTIONS": "detect_leaks=0:exitcode=99"})
    lines = [l for l in out if l.split(" ")[0] in ("ARM", "OP", "END", "INIT") or l.startswith("!")]
    where = "seed file %s" % ("absent" if seed_bytes is None else "of %d bytes" % seed_bytes)
    for l in lines:
        if l.startswith("!"):
            return "periodic harness (%s): %s" % (where, l), steps, lines
    if rc != 0 or not lines or not lines[-1].startswith("END"):
        san = [l.strip() for l in (err or "").splitlines() if "runtime error:" in l or "ERROR: AddressSanitizer" in l]
        nst = sum(1 for l in lines if l.startswith("ARM random"))
        last = [l for l in lines if l.startswith("OP")][-1:] or ["start"]
        if san:
            return ("the daemon's periodic services abort (%s) after %d PRNG stir(s), at %r: %s — undefined behaviour in a "
                    "service callback on the timer thread (in munged without a sanitizer: whatever the wrapped value does)"
                    % (where, nst, last[0], san[0][:300])), steps, lines
        return "periodic harness (%s) failed rc=%d: %s" % (where, rc, (err or "")[-600:]), steps, lines
    init_rv = [int(l.split()[1]) for l in lines if l.startswith("INIT")]
    lines = [l for l in lines if not l.startswith("INIT")]
    # which initial condition this is, by the source's own threshold; random_init's return value must agree
    counted = 128 + min(seed_bytes or 0, facts["random_seed_bytes"]) + 4
    full = counted >= facts["random_bytes_wanted"]
    if init_rv and (init_rv[0] == 1) != full:
        ctx.notes.append("%s: random_init returned %d for %s (%d bytes expected to be counted): the kernel source gave "
                         "a different amount; following the return value" % (tag, init_rv[0], where, counted))
        full = init_rv[0] == 1
    segs, cur = [], ("start", [])
    for l in lines:
        f = l.split()
        if f[0] == "OP":
            segs.append(cur)
            cur = (" ".join(f[1:]), [])
        elif f[0] == "ARM":
            cur[1].append((f[1], int(f[2]), int(f[3])))
        elif f[0] == "END":
            segs.append(cur)
            final = int(f[1])
    pend = {}          # service -> expiry (ms) of its one pending timer
    counts = {"replay": 0, "gids": 0, "random": 0}
    stir = None
    corr = None
    at_max = 0
    now = 0
    rp, gi = facts["replay_purge_secs"] * 1000, facts["group_update_secs"] * 1000
    mx, jit = facts["stir_max_secs"], facts["stir_jitter_max"]
    for op, arms in segs:
        exp = []       # expected (service, delay or None for the stir rule) in any order
        if op == "start":
            exp = [("random", None), ("gids", 0), ("gids", gi), ("replay", rp)]
        elif op.startswith("t "):
            now = int(op.split()[1])
            for svc in ("replay", "gids", "random"):
                if pend.get(svc) is not None and pend[svc] <= now:
                    exp.append((svc, {"replay": rp, "gids": gi, "random": None}[svc]))
        elif op == "hup":
            exp = [("gids", 0), ("gids", gi)]
        got = sorted((a[0], a[2]) for a in arms)
        for svc, at, ms in arms:
            if at != now:
                return ("%s armed at clock %d ms while the driver clock is %d ms" % (svc, at, now)), steps, lines
        for svc in ("replay", "gids", "random"):
            g = [ms for s, ms in got if s == svc]
            e = [ms for s, ms in exp if s == svc]
            if len(g) != len(e):
                if len(g) < len(e):
                    if svc == "random" and op == "start":
                        return ("PRNG stir service: random_init (%s, pool %sfully seeded) set NO stir timer: the PRNG is "
                                "never stirred for the life of this daemon (the first call of _random_stir_entropy is "
                                "the only place the self re-arming timer is first set)"
                                % (where, "" if full else "not ")), steps, lines
                    return ("service %s did not re-arm: its timer (expiry %s ms) was due at clock %d ms (op %r) "
                            "and %d re-arm call(s) were seen, %d expected: the service stops recurring"
                            % (svc, pend.get(svc), now, op, len(g), len(e))), steps, lines
                return ("service %s armed %d timers at clock %d ms (op %r), expected %d"
                        % (svc, len(g), now, op, len(e))), steps, lines
            for gm, em in zip(sorted(g), sorted(x if x is not None else -1 for x in e)):
                if em == -1:
                    # the clause: at least a second, at most the maximum plus the stagger
                    if gm < 1000 or gm > mx * 1000 + jit:
                        return ("PRNG stir re-armed %d ms ahead (%s): outside [1 s, maximum %d s + %d ms]"
                                % (gm, where, mx, jit)), steps, lines
                    s2 = stir_secs_of(gm, facts)
                    if s2 is None:
                        return "PRNG stir delay %d ms is not 2^k s + <1024 ms" % gm, steps, lines
                    want = (mx if full else min(2, mx)) if stir is None else min(2 * stir, mx)
                    if s2 != want and corr is None:      # a deviation from the model; keep judging the clause itself
                        corr = ("CORR: PRNG stir interval is %d s, TimerStirModel (the schedule read off random.c) says %d s (%s; previous interval %s); "
                                "the recurrence clause itself holds on this log"
                                % (s2, want, where, "none: this is the timer random_init sets" if stir is None else "%d s" % stir))
                    stir = s2
                    at_max += 1 if s2 == mx else 0
                elif gm != em:
                    return "service %s armed +%d ms, expected +%d ms" % (svc, gm, em), steps, lines
            if g:
                counts[svc] += len(g)
                pend[svc] = now + max(g) if svc != "gids" else now + gi
    for svc in ("replay", "gids", "random"):
        if pend.get(svc) is None or pend[svc] <= final:
            return "service %s has no timer pending beyond the final clock reading (%s)" % (svc, where), steps, lines
    ctx.cov[tag] = dict(counts, virtual_hours=round(final / 3600000.0, 1), steps=len(steps), seed_file=where,
                        stir_fully_seeded=full, last_stir_interval_s=stir, stirs_at_maximum=at_max)
    return corr, steps, lines


def gallina_case(line):
    """A case line as a Gallina term: (hp, ops)."""
    mode, nth, progs, ops = parse_case(line)

    def z(n):
        return "(%d)" % n

    def hop(h):
        if h[0] == "R":
            return "HSetRel %s %d%%nat" % (z(h[1]), h[2])
        if h[0] == "A":
            return "HSetAbs (%s, %s) %d%%nat" % (z(h[1][0]), z(h[1][1]), h[2])
        if h[0] == "K":
            return "HCancelRel %s" % z(h[1])
        return "HCancelAbs %s" % z(h[1])
    arms = " ".join("| %d%%nat => [%s]" % (i, "; ".join(hop(h) for h in p)) for i, p in enumerate(progs))
    hp = "(fun cb : nat => match cb with %s | _ => [] end)" % arms
    dl = []
    for kind, th, h in ops:
        if kind == "t":
            dl.append("DClock (%s, %s)" % (z(h[0]), z(h[1])))
        elif kind == "x":
            dl.append("DClockThen (%s, %s) (%s)" % (z(h[0][0]), z(h[0][1]), hop(h[1])))
        elif kind in "sc":
            dl.append("DOp (%s)" % hop(h))
        elif kind == "h":
            dl.append("DHold (%s)" % hop(h))
        else:
            dl.append("DRelease")
    return hp, "[%s]" % "; ".join(dl)


EVCODE = """From Coq Require Import List ZArith.
From MV Require Import TimerModel.
Import ListNotations.
Local Open Scope Z_scope.
Definition evc (e : event) : list Z :=
  match e with
  | ESet i id => [1; if i then 1 else 0; id]
  | ECancel i id r => [2; if i then 1 else 0; id; r]
  | EFire t (s, n) => [3; t_id t; s; n]
  | EHeld => [4]
  | EStuck => [5]
  end."""


def crosscheck_extraction(ctx, lines, mod):
    """The extracted oracle against vm_compute inside Coq on a few cases (extraction + driver glue)."""
    pick = [i for i, l in enumerate(lines) if l[0] in "SZ" and len(l) < 700][:10]
    exprs = []
    for i in pick:
        hp, ops = gallina_case(lines[i])
        exprs.append("map (map evc) (drive %s true 2000 (init, (0, 0), []) %s)" % (hp, ops))
    res, e3 = vlib.coq_eval_sample(ctx, EVCODE, exprs)
    if res is None or len(res) != len(pick):
        return "vm_compute cross-check could not run: %s" % (e3 or "")[-300:]
    bad = 0
    for i, r in zip(pick, res):
        # canonical token stream from Coq's answer: nested lists of integers, one inner-most list per event
        toks = []
        seq = 0
        held = []
        mode, nth, progs, ops = parse_case(lines[i])
        segs = re.findall(r"\[((?:\s*\[[^\[\]]*\]\s*;?)*)\]", r[1:-1] if r.startswith("[") else r)
        if len(segs) != len(ops):
            bad += 1
            continue
        for (kind, th, h), sg in zip(ops, segs):
            if kind == "h":
                seq += 1
                held.append(seq)
            first = True
            for ev in re.findall(r"\[([^\[\]]*)\]", sg):
                v = [int(x) for x in re.findall(r"-?\d+", ev)]
                if v[0] == 1:
                    if not v[1] and first and kind in "rh" and held:
                        n = held.pop(0)
                    else:
                        seq += 1
                        n = seq
                    toks.append("%s%d=%d" % ("s" if v[1] else "S", n, v[2]))
                elif v[0] == 2:
                    toks.append("%s%d=%d" % ("c" if v[1] else "C", v[2], v[3]))
                elif v[0] == 3:
                    toks.append("F%d@%d.%d" % (v[1], v[2], v[3]))
                elif v[0] == 4:
                    toks.append("H")
                else:
                    toks.append("!stuck")
                first = False
            toks.append("|")
        want = mod[i].split()[1:]
        if want and want[-1] == ".":
            want = want[:-1]
        if toks != want:
            bad += 1
    ctx.cov["extraction_crosscheck"] = {"cases": len(pick), "disagreements": bad}
    return "extracted oracle disagrees with vm_compute on %d of %d sample cases" % (bad, len(pick)) if bad else None


def run(ctx):
    ctx.level = "proof"
    proved = vlib.prove(ctx, ["Properties_C18.v", "Properties_C18_gids.v", "Properties_C18_stir.v", "Properties_C18_clock.v"],
                        facts=["timer", "gids", "clockfun"])
    ctx.log("proofs:", "ok" if proved else "BROKEN: " + getattr(ctx, "broken_obligation", "?"))
    ctx.cov["rule"] = (
        "proof: Properties_C18.v over TimerModel (constants regenerated from timer.c/clock.c/random.c/munge_defs.h); "
        "correspondence: the same case lines through /repo's timer.c+clock.c (public API, ASan, virtual clock via "
        "--wrap, 1-3 caller threads) and the extracted LTS+scheduler; S = serialized programs (set/cancel, equal "
        "expiry ties, callbacks that set/cancel/re-arm, clock steps, forward jumps, backward readings), compared "
        "token by token with the model AND judged by an independent Python statement of C18; P = truly concurrent "
        "callers, judged by the property only; Z = the id-after-unlock schedule; periodic = real replay_purge, "
        "_gids_map_update, _random_stir_entropy callbacks (every munged source but munged.c linked) for 600 (3000) clock "
        "steps = 100+ (600+) virtual hours with forward jumps and SIGHUP-style gids_update calls, judged by an "
        "independent statement of 'each service always has one timer pending and re-arms at the first clock reading "
        "at or after its expiry'; the same from the other initial conditions of the PRNG stir service (a complete 1024-byte "
        "seed file as a previous run leaves it; a short one) with clock steps at, just before and just after the "
        "maximum-length stir expiries and jumps over several of them; a sample of oracle answers re-evaluated with vm_compute inside Coq; "
        "pair = /repo's gids.c AND timer.c linked together (T lines of tools/props/c17_pair.py): scripts of database "
        "edits, clock steps and jumps around the interval, transient group-database failures at any entry, SIGHUPs at "
        "top level and parked inside refreshes, intervals 0/1/60/3600 — compared with the extracted GidsTimerModel and "
        "judged by 'after every refresh returns, whatever the rebuild did, a refresh timer is pending within one "
        "interval; due timers fire once and never early; gids_destroy finds the recorded timer pending'; "
        "non-trivial = every case (distinct by content)")
    # clock.c on boundary readings: the real functions, their translation and the model inside Coq, the property itself
    c18_clock.clock_phase(ctx, proved)
    oracle = vlib.build_oracle(ctx, "timer")
    exe, err = build_harness(ctx)
    if exe is None:
        ctx.violation("timer harness does not build against /repo: " + err[-500:],
                      {"obligation": "correspondence C18 (build)", "stderr": err}, found_input=False)
        return
    nser = 30000 if ctx.thorough else 1200
    nper = 2000 if ctx.thorough else 150
    npar = 15000 if ctx.thorough else 500
    nrace = 100 if ctx.thorough else 9
    replay_obj = json.load(open(ctx.replay)) if getattr(ctx, "replay", None) else None
    # the group-map refresh on the real timer.c: gids.c + timer.c together
    pres = None
    if not replay_obj or "pair_case_line" in replay_obj:
        goracle = vlib.build_oracle(ctx, "gids")
        pres = c17_pair.run(ctx, "C18", goracle, 40000 if ctx.thorough else 3000, {"C18"},
                            replay_line=replay_obj.get("pair_case_line") if replay_obj else None)
        ctx.cov["pair"] = dict(cases=pres["cases"], failing=len(pres["fails"]), mismatches=len(pres["mismatches"]),
                               **pres.get("stats", {}))
        ctx.log("gids+timer pair: %d cases, %d fail a clause, %d mismatches" % (
            pres["cases"], len(pres["fails"]), len(pres["mismatches"])))
        if goracle is None and proved:
            ctx.violation("gids oracle does not build", {"obligation": "oracle build (gids)", "notes": ctx.notes[-1:]},
                          found_input=False)
        c17_pair.report(ctx, "C18", pres, {"C18"})
        if replay_obj:
            return
    if replay_obj:
        lines = [replay_obj["case_line"]] if "case_line" in replay_obj else []
    else:
        ser = [gen_serial(ctx) for _ in range(nser)]
        per = [gen_periodic_model_case(ctx) for _ in range(nper)]
        par = [gen_parallel(ctx) for _ in range(npar)]
        lines = CORPUS + [gen_race(ctx, i) for i in range(nrace)] + ser[:40] + per[:10] + par[:40] \
            + ser[40:] + per[10:] + par[40:]
    dist = {}
    for l in lines:
        dist[l[0]] = dist.get(l[0], 0) + 1
    ctx.cov["input_distribution"] = dist
    env = {"ASAN_OPTIONS": "detect_leaks=0:abort_on_error=0:exitcode=99"}
    # run in chunks and stop at the first chunk with a failing case: a broken timer.c typically hangs or
    # misbehaves on most cases, and each hang costs the harness its real-time limit
    impl, direct_fail, race_hits = [], [], []
    cuts = [0, min(24, len(lines))] + list(range(24 + 200, len(lines), 200)) + [len(lines)]
    for c0, c1 in zip(cuts, cuts[1:]):
        chunk = lines[c0:c1]
        if not chunk:
            continue
        rc, out, stderr = vlib.run_lines([exe], chunk, timeout=900, env=env)
        if rc != 0 or len(out) != len(chunk):
            idx = min(len(out), len(chunk) - 1)
            ctx.violation("timer harness aborted (rc=%d) at case %s" % (rc, chunk[idx][:200]),
                          {"case_line": chunk[idx], "stderr": stderr[-3000:], "rc": rc})
            return
        impl += out
        for l, o in zip(chunk, out):
            ctx.count(l)
            why = property_holds(l, o)
            if why:
                (race_hits if l[0] == "Z" and "returned the same id" in why else direct_fail).append((l, o, why))
        if direct_fail or race_hits:
            ctx.notes.append("stopped after %d of %d cases: failing case found" % (len(impl), len(lines)))
            break
    lines = lines[:len(impl)]
    ctx.log("implementation ran %d cases, %d fail the property" % (len(lines), len(direct_fail) + len(race_hits)))
    for l in lines[:2] + lines[len(CORPUS) + nrace:len(CORPUS) + nrace + 2] + lines[-2:]:
        ctx.sample(l[:300])
    mismatches = []
    if oracle and lines:
        det = [(l, o) for l, o in zip(lines, impl) if l[0] in "SZ"]
        rc2, mod, err2 = vlib.run_lines([oracle], [l for l, _ in det], timeout=3000, env={"OCAMLRUNPARAM": "l=8G"})
        if rc2 != 0 or len(mod) != len(det):
            ctx.violation("oracle failed to run: rc=%d %s" % (rc2, err2[-300:]), {"obligation": "oracle run"},
                          found_input=False)
            return
        for (l, a), b in zip(det, mod):
            if a.split() != b.split():
                mismatches.append((l, a, b))
        ctx.cov["traces_validated_against_impl"] = len(det)
        xc = crosscheck_extraction(ctx, [l for l, _ in det], mod)
        if xc:
            ctx.violation(xc, {"obligation": "extraction cross-check"}, found_input=False)
        ctx.log("model ran %d cases, %d mismatches" % (len(det), len(mismatches)))
        # the unrepaired model (`return (t->id)` after the unlock) must reproduce the race answers exactly
        if race_hits:
            ul = ["U" + l[1:] for l, _, _ in race_hits]
            rc3, umod, _ = vlib.run_lines([oracle], ul, timeout=600)
            same = sum(1 for (l, o, _), u in zip(race_hits, umod) if o.split() == u.split())
            ctx.cov["race_witness"] = {"cases": len(race_hits), "explained_by_unrepaired_model": same}
    # periodic services on the real callbacks
    pexe, perr = build_periodic(ctx)
    rsteps = replay_obj.get("periodic_steps") if replay_obj else None
    if pexe is None:
        ctx.violation("periodic harness does not build against /repo: " + perr[-600:],
                      {"obligation": "correspondence C18 periodic (build)", "stderr": perr}, found_input=False)
    elif not replay_obj or rsteps:
        # the three initial conditions of the PRNG stir service: seed file absent (first start: the main run with
        # replay purge, gids refresh and SIGHUPs), complete (a later start: maximum interval at once), short;
        # thorough adds the two files around RANDOM_BYTES_WANTED
        facts = read_facts()
        edge = facts["random_bytes_wanted"] - 128 - 4
        conds = [(None, rsteps, "periodic")]
        if not replay_obj:
            conds += [(facts["random_seed_bytes"], stir_steps(ctx), "periodic_seeded"), (100, stir_steps(ctx), "periodic_short_seed"),
                      (edge, stir_steps(ctx), "periodic_seed_exact"), (edge - 1, stir_steps(ctx), "periodic_seed_one_short"),
                      (None, stir_steps(ctx), "periodic_first_start_long")]
            if ctx.thorough:
                conds += [(4000, stir_steps(ctx), "periodic_seed_oversize")]
        elif "seed_bytes" in replay_obj:
            conds = [(replay_obj["seed_bytes"], rsteps, "periodic")]
        for sb, st, tag in conds:
            why, steps, plines = check_periodic(ctx, pexe, steps=st, seed_bytes=sb, tag=tag)
            ctx.count("%s:%s:%s" % (tag, sb, " ".join(steps)))
            ctx.log("periodic services (%s):" % tag, why or "ok %s" % ctx.cov.get(tag))
            if why:
                corr = why.startswith("CORR: ")
                ctx.violation("periodic services: " + (why[6:] if corr else why),
                              {"periodic_steps": steps, "seed_bytes": sb, "log_tail": plines[-40:], "why": why,
                               **({"obligation": "correspondence TimerStirModel ~ random.c"} if corr else {})},
                              found_input=not corr)
                break
    # verdict
    if race_hits:
        l, o, why = race_hits[0]
        ctx.violation("%s: case %s -> %s (timer_set_absolute reads t->id after releasing the mutex; schedule: caller "
                      "held between unlock and return while the timer fires, is retired and its struct re-used; "
                      "Coq: C18_set_return_after_unlock_refuted; this is a regression of the `fix:` that saves the id under the "
                      "mutex, cf. seeded/fixes/timer-set-id-after-unlock.diff)"
                      % (why, l, o),
                      {"case_line": l, "impl_output": o, "why": why, "finding_key": FINDING_KEY,
                       "n_failing": len(race_hits)})
    if direct_fail:
        l, o, why = direct_fail[0]
        ctx.violation("%s: case %s -> %s (%d failing cases)" % (why, l[:400], o[:400], len(direct_fail)),
                      {"case_line": l, "impl_output": o, "why": why, "n_failing": len(direct_fail),
                       "more": [(a[:300], c) for a, b, c in direct_fail[1:5]]})
    elif mismatches:
        mm = [m for m in mismatches if not any(m[0] == r[0] for r in race_hits)]
        if mm:
            l, a, b = mm[0]
            ctx.violation("model and timer.c disagree on %d cases (first: %s impl=%s model=%s) but the property "
                          "evaluated directly on the log holds" % (len(mm), l[:300], a[:300], b[:300]),
                          {"obligation": "correspondence TimerModel ~ timer.c", "case_line": l, "impl": a, "model": b},
                          found_input=False)
    if not proved and not ctx.violations:
        ctx.violation("proof obligation no longer checks: %s" % getattr(ctx, "broken_obligation", "?"),
                      {"obligation": getattr(ctx, "broken_obligation", "?"), "log": ctx.proof_log[-3000:]},
                      found_input=False)
