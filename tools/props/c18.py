"""C18 — timers fire once, on time, in order; cancel semantics; callbacks may call in; periodic services persist."""
import json, os, re
import vlib

MANIFEST = dict(
    level=("proof", "Coq theorems over an LTS read off timer.c/clock.c (sorted stable active list, detached expired "
           "batch, signal-after-unlock, ids, cancel searching the active list only, callbacks as programs of "
           "set/cancel), for all operation sequences from any thread, all interleavings with the timer thread and all "
           "clock readings: sortedness/stability, id uniqueness, at-most-once, fires-when-scanned, never early, order, "
           "cancel specification, no deadlock state, no lost wake-up, periodic re-arm invariant; one refuted lemma "
           "(id read after the unlock) with its witness replayed on the C code.  Tied to the code by running "
           "/repo's timer.c+clock.c under a virtual clock (ASan, 1-3 caller threads) against the extracted model on "
           "generated programs, and by driving the real replay/gids/random re-arm callbacks for virtual hours.",
           "7 C18"),
    note="Trusted: Coq kernel, gen_facts probe, extraction, harness/driver glue, the --wrap shims for clock_gettime "
         "and pthread_cond_{wait,timedwait,signal}; timer.c itself is modelled and tied by differential testing, not "
         "verified.  Ids are proved unique below LONG_MAX set operations (the code wraps to 1 after that).",
    technique="Coq proof (invariants over an LTS, runs as label lists) + extracted oracle + deterministic virtual-time "
              "harness on timer.c + property evaluated on the callback log + periodic-service run")

WRAPS = "-Wl,--wrap=clock_gettime,--wrap=pthread_cond_wait,--wrap=pthread_cond_timedwait,--wrap=pthread_cond_signal"
FINDING_KEY = "C18-set-returns-id-after-unlock"
NS = 1000000000


# ----------------------------------------------------------------------------------------------------------
# case generation
# ----------------------------------------------------------------------------------------------------------
def fmt_ts(t):
    return "%d.%d" % t


def gen_hop_set(rng, cbs, now_hint, rel_only=False, min_ms=0):
    cb = rng.choice(cbs)
    if rel_only or rng.random() < 0.45:
        ms = rng.choice([m for m in (0, 1, 1, 500, 999, 1000, 1001, 1500, 2500, 60000) if m >= min_ms])
        return "R%d:%d" % (ms, cb)
    sec = max(0, now_hint + rng.choice([-3, -1, 0, 0, 1, 1, 2, 2, 3, 5, 8]))
    ns = rng.choice([0, 0, 0, 500000000, 999999999, 1])
    return "A%d.%d:%d" % (sec, ns, cb)


def gen_cancel(rng):
    if rng.random() < 0.75:
        return "K%d" % rng.choice([0, 0, 1, 1, 2, 3, 5])
    return "X%d" % rng.choice([0, -1, 1, 2, 3, 7, 999, 999999999999])


def gen_progs(rng):
    """Callback programs.  Two shapes, so that every settle terminates and the population stays bounded:
    periodic = exactly one self re-arm with a positive relative delay (+ cancels);
    dag      = sets of higher-numbered callbacks only (any time-stamp, also already expired) + cancels."""
    ncb = rng.randrange(1, 6)
    progs = []
    for k in range(ncb):
        hops = []
        higher = list(range(k + 1, ncb))
        if rng.random() < 0.35:
            hops.append(gen_hop_set(rng, [k], 0, rel_only=True, min_ms=1))
            for _ in range(rng.choice([0, 0, 1, 2])):
                hops.insert(rng.randrange(len(hops) + 1), gen_cancel(rng))
        else:
            for _ in range(rng.choice([0, 0, 1, 1, 2, 3])):
                if higher and rng.random() < 0.55:
                    hops.append(gen_hop_set(rng, higher, rng.randrange(0, 30)))
                else:
                    hops.append(gen_cancel(rng))
        progs.append(hops)
    return progs


def progs_str(progs):
    return ";".join(",".join(p) if p else "-" for p in progs)


def gen_serial(ctx):
    rng = ctx.rng
    nth = rng.randrange(1, 4)
    progs = gen_progs(rng)
    ncb = len(progs)
    now = (0, 0)
    ops = []
    for _ in range(rng.randrange(6, 40)):
        r = rng.random()
        th = rng.randrange(nth)
        if r < 0.45:
            ops.append("s%d:%s" % (th, gen_hop_set(rng, list(range(ncb)), now[0])))
        elif r < 0.62:
            ops.append("c%d:%s" % (th, gen_cancel(rng)))
        else:
            q = rng.random()
            if q < 0.70:
                d = rng.choice([1, 500000000, NS, NS, NS + 1, 2 * NS, 3 * NS])
            elif q < 0.90:
                d = rng.choice([60, 100, 3600, 86400]) * NS          # forward jump
            else:
                d = -rng.choice([1, NS, 2 * NS])                     # clock read going back
            tot = max(0, now[0] * NS + now[1] + d)
            now = (tot // NS, tot % NS)
            ops.append("t:" + fmt_ts(now))
    ops.append("t:%d.0" % (now[0] + 1000000))
    return "S %d %s %s" % (nth, progs_str(progs), " ".join(ops))


def gen_periodic_model_case(ctx):
    """self re-arming callbacks (the shape of replay_purge / _random_stir_entropy) under jumps"""
    rng = ctx.rng
    per = [rng.choice([1, 1000, 60000, 3600000]) for _ in range(rng.randrange(1, 4))]
    progs = [["R%d:%d" % (p, i)] for i, p in enumerate(per)]
    ops = ["s0:R%d:%d" % (p, i) for i, p in enumerate(per)]
    now = 0
    for _ in range(rng.randrange(10, 60)):
        now += rng.choice([1, 999, 1000, 1001, 59999, 60000, 60001, 120000, 3600000, 86400000])
        ops.append("t:%d.%d" % (now // 1000, (now % 1000) * 1000000))
        if rng.random() < 0.1:
            ops.append("c0:X%d" % rng.choice([0, 999999]))
    return "S 1 %s %s" % (progs_str(progs), " ".join(ops))


def gen_parallel(ctx):
    rng = ctx.rng
    nth = rng.randrange(2, 4)
    progs = gen_progs(rng)
    ncb = len(progs)
    ops = []
    t = 0
    for _ in range(rng.randrange(10, 60)):
        r = rng.random()
        th = rng.randrange(nth)
        if r < 0.55:
            sec = rng.randrange(0, 12); ns = rng.choice([0, 0, 500000000])
            ops.append("s%d:A%d.%d:%d" % (th, sec, ns, rng.randrange(ncb)))
        elif r < 0.8:
            ops.append("c%d:K%d" % (th, rng.choice([0, 0, 1, 2])))
        else:
            t += rng.choice([0, 1, 1, 2, 3])
            ops.append("t:%d.0" % t)
    ops.append("t:%d.0" % (t + 1000000))
    return "P %d %s %s" % (nth, progs_str(progs), " ".join(ops))


def gen_race(ctx, i):
    """The id-after-unlock schedule: a set that expires at once is held between its unlock and its return while
    the timer thread dispatches and retires it and another thread's set re-uses the struct."""
    rng = ctx.rng
    now = rng.randrange(50, 500)
    early = rng.randrange(0, now)
    late = now + rng.randrange(10, 1000)
    pre = ["s1:A%d.0:0" % (late + 7 + k) for k in range(i % 3)]
    return " ".join(("Z 2 - t:%d.0 %s h0:A%d.0:0 s1:A%d.0:0 r0 c1:K0 t:%d.0"
                     % (now, " ".join(pre), early, late, late + 100000)).split())


# ----------------------------------------------------------------------------------------------------------
# the property, evaluated on the implementation's own log (independent of the Coq model)
# ----------------------------------------------------------------------------------------------------------
def add_ms(now, ms):
    if ms <= 0:
        return now
    tot = now[0] * NS + now[1] + ms * 1000000
    return (tot // NS, tot % NS)


def parse_hop(h):
    k = h[0]
    if k == "R":
        ms, cb = h[1:].split(":")
        return ("R", int(ms), int(cb))
    if k == "A":
        t, cb = h[1:].split(":")
        s, n = t.split(".")
        return ("A", (int(s), int(n)), int(cb))
    return (k, int(h[1:]), None)


def parse_case(line):
    f = line.split()
    mode, nth = f[0], int(f[1])
    progs = [[] if p == "-" else [parse_hop(h) for h in p.split(",")] for p in f[2].split(";")]
    ops = []
    for tok in f[3:]:
        if tok[0] == "t":
            s, n = tok[2:].split(".")
            ops.append(("t", None, (int(s), int(n))))
        elif tok[0] == "r":
            ops.append(("r", int(tok[1:]), None))
        else:
            th, rest = tok[1:].split(":", 1)
            ops.append((tok[0], int(th), parse_hop(rest)))
    return mode, nth, progs, ops


TOK = re.compile(r"^(?:([SsCc])(-?\d+)=(-?\d+)|F(\d+)@(-?\d+)\.(-?\d+)|(H)|(\|)|(\.))$")


def property_holds(line, out):
    """None when the log satisfies C18, else a sentence naming the broken clause."""
    mode, nth, progs, ops = parse_case(line)
    toks = out.split()
    if not toks or toks[0] != mode:
        return "malformed harness answer"
    toks = toks[1:]
    for t in toks:
        if t.startswith("!"):
            return "harness trouble: " + " ".join(toks[toks.index(t):])[:120] + \
                   " (a set/cancel blocked, or the timer thread never came to rest)"
    if not toks or toks[-1] != ".":
        return "case did not run to completion"
    timers = {}        # seq -> dict
    by_id = {}
    now = (0, 0)
    seq_ctr = 0
    segs = [[]]
    for t in toks[:-1]:
        if t == "|":
            segs.append([])
        else:
            segs[-1].append(t)
    segs = segs[:-1] if segs and not segs[-1] else segs
    if mode == "P":
        return property_parallel(progs, ops, segs)
    if len(segs) != len(ops):
        return "log has %d op segments for %d ops" % (len(segs), len(ops))
    held = []
    for si, (op, seg) in enumerate(zip(ops, segs)):
        kind, th, h = op
        cur = None          # (timer, remaining program) of the running callback
        pos = 0

        def new_timer(hop, top):
            nonlocal seq_ctr
            seq_ctr += 1
            ts = hop[1] if hop[0] == "A" else add_ms(now, hop[1])
            timers[seq_ctr] = dict(seq=seq_ctr, id=None, ts=ts, cb=hop[2], seg=si, top=top, fired=False,
                                   cancelled=False)
            return timers[seq_ctr]

        def bind_id(tm, idv):
            if idv <= 0:
                return "set returned a non-positive id %d" % idv
            if idv in by_id and by_id[idv] is not tm:
                return ("two set calls returned the same id %d (set #%d and set #%d): the id does not identify "
                        "the caller's timer" % (idv, by_id[idv]["seq"], tm["seq"]))
            tm["id"] = idv
            by_id[idv] = tm
            return None

        def do_cancel(idv, ret, inner):
            if idv <= 0:
                return None if ret == -1 else "cancel of id %d returned %d, not -1" % (idv, ret)
            tm = by_id.get(idv)
            pending = tm is not None and not tm["fired"] and not tm["cancelled"]
            if ret == 1:
                if not pending:
                    why = "unknown" if tm is None else ("already fired" if tm["fired"] else "already cancelled")
                    return "cancel of id %d reported success but that timer is %s" % (idv, why)
                tm["cancelled"] = True
                return None
            if ret == 0:
                if pending and not (inner and le(tm["ts"], now)):
                    return "cancel of the still-pending timer id %d reported that nothing was cancelled" % idv
                return None
            return "cancel of id %d returned %d" % (idv, ret)

        if kind == "t":
            now = h
        elif kind == "h":
            held.append(new_timer(h, True))
        expect_top = kind in ("s", "c")
        for t in seg:
            m = TOK.match(t)
            if not m:
                return "unparsable token %r" % t
            if m.group(1):
                k, a, b = m.group(1), int(m.group(2)), int(m.group(3))
                if k == "S":
                    if kind == "r" or (kind == "h" and held):
                        tm = held.pop(0) if held else None
                        if tm is None:
                            return "unexpected set result"
                    elif kind == "s" and expect_top:
                        tm = new_timer(h, True)
                        expect_top = False
                    else:
                        return "unexpected top-level set result"
                    if tm["seq"] != a:
                        return "set sequence numbers out of step"
                    why = bind_id(tm, b)
                    if why:
                        return why
                elif k == "C":
                    if kind != "c" or not expect_top:
                        return "unexpected top-level cancel result"
                    expect_top = False
                    why = do_cancel(a, b, False)
                    if why:
                        return why
                else:
                    if cur is None or not cur[1]:
                        return "callback made more calls than its program has"
                    hop = cur[1].pop(0)
                    if k == "s":
                        if hop[0] not in "RA":
                            return "callback ops out of step"
                        tm = new_timer(hop, False)
                        if tm["seq"] != a:
                            return "set sequence numbers out of step"
                        why = bind_id(tm, b)
                    else:
                        if hop[0] not in "KX":
                            return "callback ops out of step"
                        why = do_cancel(a, b, True)
                    if why:
                        return why
            elif m.group(4):
                seq, at = int(m.group(4)), (int(m.group(5)), int(m.group(6)))
                tm = timers.get(seq)
                if tm is None:
                    return "callback ran for a timer that was never set (#%d)" % seq
                if tm["fired"]:
                    return "timer #%d fired twice" % seq
                if tm["cancelled"]:
                    return "timer #%d (id %s) fired after its cancel reported success" % (seq, tm["id"])
                if at != now:
                    return "callback saw clock %s, driver clock is %s" % (at, now)
                if not le(tm["ts"], at):
                    return "timer #%d fired at %s, before its expiry %s" % (seq, fmt_ts(at), fmt_ts(tm["ts"]))
                # order: nothing that was certainly pending with a smaller (expiry, set order) may still wait
                for o in timers.values():
                    if o is tm or o["fired"] or o["cancelled"]:
                        continue
                    if (o["seg"] < si or o["top"]) and key(o) < key(tm):
                        return ("timer #%d (expiry %s) fired before timer #%d (expiry %s) that was set earlier and "
                                "was pending" % (seq, fmt_ts(tm["ts"]), o["seq"], fmt_ts(o["ts"])))
                tm["fired"] = True
                cur = (tm, list(progs[tm["cb"]]) if 0 <= tm["cb"] < len(progs) else [])
            elif m.group(7):
                pass
        if expect_top:
            return "op %d produced no result" % si
        # at rest: nothing due may still be waiting (fires when due; lost wake-ups show here)
        for o in timers.values():
            if not o["fired"] and not o["cancelled"] and le(o["ts"], now):
                return ("timer #%d (expiry %s) has not fired although the clock reads %s and the timer thread is "
                        "at rest" % (o["seq"], fmt_ts(o["ts"]), fmt_ts(now)))
    return None


def le(a, b):
    return a[1] <= b[1] if a[0] == b[0] else a[0] <= b[0]


def key(tm):
    return (tm["ts"][0], tm["ts"][1], tm["seq"])


def property_parallel(progs, ops, segs):
    toks = [t for s in segs for t in s]
    final = [o[2] for o in ops if o[0] == "t"][-1]
    sets, fires, cancels = {}, {}, []
    for t in toks:
        m = TOK.match(t)
        if not m:
            return "unparsable token %r" % t
        if m.group(1):
            k, a, b = m.group(1), int(m.group(2)), int(m.group(3))
            if k in "Ss":
                if b <= 0:
                    return "set returned a non-positive id"
                if b in sets.values():
                    return "two set calls returned the same id %d" % b
                sets[a] = b
            else:
                cancels.append((a, b))
        elif m.group(4):
            seq = int(m.group(4))
            if seq in fires:
                return "timer #%d fired twice" % seq
            fires[seq] = (int(m.group(5)), int(m.group(6)))
    id2seq = {v: k for k, v in sets.items()}
    ok_cancel = {}
    for idv, ret in cancels:
        if idv <= 0:
            if ret != -1:
                return "cancel of id %d returned %d" % (idv, ret)
            continue
        if ret == 1:
            if idv not in id2seq:
                return "cancel of unknown id %d reported success" % idv
            if idv in ok_cancel:
                return "id %d cancelled successfully twice" % idv
            ok_cancel[idv] = True
            if id2seq[idv] in fires:
                return "timer id %d fired although its cancel reported success" % idv
        elif ret != 0:
            return "cancel returned %d" % ret
    # top-level sets are absolute in P mode: never early, and exactly once unless cancelled
    abs_ts = {}
    n = 0
    for o in ops:
        if o[0] == "s":
            pass
    # sequence numbers are handed out at call time by concurrent threads, so expiry is known only through ids of
    # callbacks' own sets; the exactly-once clause does not need it:
    for seq, idv in sets.items():
        if idv in ok_cancel:
            continue
        if seq not in fires:
            # may legitimately still be pending only if it expires after the final clock reading: every P-mode
            # time-stamp is far below the final reading except relative re-arms made at the final reading
            if fires and max(fires.values()) == final and seq > max(fires.keys()):
                continue
            late = [s for s, at in fires.items() if at == final]
            return_ok = False
            # a timer set by a callback that ran at the final reading with a positive relative delay
            if late and seq > min(late):
                return_ok = True
            if not return_ok:
                return "timer #%d (id %d) was neither cancelled nor fired" % (seq, idv)
    return None


# ----------------------------------------------------------------------------------------------------------
def build_harness(ctx):
    R = vlib.REPO
    src = [os.path.join(vlib.HARNESS, "timer_harness.c")] + [os.path.join(R, p) for p in (
        "src/munged/timer.c", "src/munged/clock.c", "src/munged/thread.c", "src/libcommon/log.c",
        "src/libcommon/str.c", "src/libcommon/daemonpipe.c", "src/libcommon/fd.c")]
    return vlib.cc(ctx, "timerh", src, libs=[WRAPS, "-lpthread"])


def build_periodic(ctx):
    R = vlib.REPO
    md = os.path.join(R, "src/munged")
    srcs = [os.path.join(md, f) for f in sorted(os.listdir(md))
            if f.endswith(".c") and f not in ("munged.c", "base64_test.c")]
    srcs += [os.path.join(R, "src/libcommon", f) for f in sorted(os.listdir(os.path.join(R, "src/libcommon")))
             if f.endswith(".c")]
    srcs += [os.path.join(R, "src/common", f) for f in
             ("crypto.c", "entropy.c", "mac.c", "md.c", "query.c", "rotate.c", "xgetgr.c", "xgetpw.c", "xsignal.c")]
    srcs += [os.path.join(R, "src/libmissing", f) for f in ("strlcpy.c", "strlcat.c")
             if os.path.exists(os.path.join(R, "src/libmissing", f))]
    srcs += [os.path.join(R, "src/libmunge", f) for f in ("strerror.c", "enum.c")]
    srcs = [os.path.join(vlib.HARNESS, "timer_periodic_harness.c")] + srcs
    return vlib.cc(ctx, "timerp", srcs,
                   libs=[WRAPS + ",--wrap=timer_set_relative,--wrap=time", "-lpthread", "-lbz2", "-lrt", "-lz",
                         "-lcrypto",
                         # src/common/rotate.c shifts a negative mask (UBSan: shift) while random_init gathers
                         # entropy; unrelated to C18, and the run must get past start-up
                         "-fno-sanitize=shift"])


def check_periodic(ctx, exe):
    """Real replay_purge / _gids_map_update / _random_stir_entropy re-arm logic under a virtual clock."""
    rng = ctx.rng
    hours = 30 if ctx.thorough else 10
    steps = []
    t = 0
    end = hours * 3600 * 1000
    while t < end:
        r = rng.random()
        if r < 0.55:
            t += rng.choice([1000, 30000, 59999, 60000, 60001])
        elif r < 0.85:
            t += rng.choice([90000, 600000, 3600000])
        else:
            t += rng.choice([7200000, 10 * 3600000])      # big forward jump
        steps.append("t %d" % t)
        if rng.random() < 0.03:
            steps.append("hup")
    rc, out, err = vlib.run_lines([exe], steps, timeout=600)
    lines = [l for l in out if l.startswith("ARM ") or l.startswith("!") or l.startswith("END")]
    if rc != 0 or not lines or not lines[-1].startswith("END"):
        return "periodic harness failed rc=%d: %s" % (rc, (err or "")[-400:]), steps, lines
    # ARM <service> <now_ms> <delay_ms>
    arms = {}
    for l in lines:
        if l.startswith("!"):
            return "periodic harness: " + l, steps, lines
        if l.startswith("ARM "):
            _, svc, now, ms = l.split()
            arms.setdefault(svc, []).append((int(now), int(ms)))
    final = int(lines[-1].split()[1])
    ctx.cov["periodic"] = {svc: len(v) for svc, v in arms.items()}
    ctx.cov["periodic"]["virtual_hours"] = round(final / 3600000.0, 1)
    clock_points = [0] + [int(s.split()[1]) for s in steps if s.startswith("t ")]
    for svc in ("replay", "gids", "random"):
        a = arms.get(svc, [])
        if not a:
            return "service %s never armed its timer" % svc, steps, lines
        # the last armed instance must lie in the future of the final clock (still recurring), and every
        # earlier instance must have been followed by a re-arm at the first clock reading >= its expiry
        chains = a
        last_now, last_ms = chains[-1]
        if last_now + last_ms <= final and svc != "gids":
            return ("service %s: last timer armed at %d ms for +%d ms is overdue at the end (%d ms) and was "
                    "not re-armed" % (svc, last_now, last_ms, final)), steps, lines
        if svc in ("replay", "random"):
            for (n0, m0), (n1, _m1) in zip(chains, chains[1:]):
                exp = n0 + m0
                want = min([c for c in clock_points if c >= exp] or [None])
                if n1 != want:
                    return ("service %s: instance armed at %d ms (+%d) was re-armed at %d ms, expected the first "
                            "clock reading >= expiry, %s" % (svc, n0, m0, n1, want)), steps, lines
        if svc == "replay" and any(m != 60000 for _, m in chains):
            return "replay purge period is not 60 s", steps, lines
        if svc == "random":
            # doubling interval up to the maximum, plus up to 1023 ms of stagger
            secs = [m // 1000 if m % 1000 < 1024 else None for _, m in chains]
            for (n0, m0), (n1, m1) in zip(chains, chains[1:]):
                b0, b1 = (m0 - (m0 % 1024 if False else 0)), m1
            # (shape checked in the harness: it prints the stir interval it derives)
        if svc == "gids":
            # at least one instance pending at the end
            if not any(n + m > final for n, m in chains[-4:]):
                return "gids refresh: no instance pending at the end", steps, lines
    return None, steps, lines


def run(ctx):
    ctx.level = "proof"
    proved = vlib.prove(ctx, ["Properties_C18.v"], facts=["timer"])
    ctx.log("proofs:", "ok" if proved else "BROKEN: " + getattr(ctx, "broken_obligation", "?"))
    ctx.cov["rule"] = (
        "proof: Properties_C18.v over TimerModel (constants regenerated from timer.c/clock.c/random.c/munge_defs.h); "
        "correspondence: the same case lines through /repo's timer.c+clock.c (public API, ASan, virtual clock via "
        "--wrap, 1-3 caller threads) and the extracted LTS+scheduler; S = serialized programs (set/cancel, equal "
        "expiry ties, callbacks that set/cancel/re-arm, clock steps, forward jumps, backward readings), compared "
        "token by token with the model AND judged by an independent Python statement of C18; P = truly concurrent "
        "callers, judged by the property only; Z = the id-after-unlock schedule; periodic = real replay_purge, "
        "_gids_map_update, _random_stir_entropy callbacks for 10 (30) virtual hours with jumps and SIGHUP-style "
        "gids_update calls; non-trivial = every case (distinct by content)")
    oracle = vlib.build_oracle(ctx, "timer")
    exe, err = build_harness(ctx)
    if exe is None:
        ctx.violation("timer harness does not build against /repo: " + err[-500:],
                      {"obligation": "correspondence C18 (build)", "stderr": err}, found_input=False)
        return
    nser = 6000 if ctx.thorough else 1200
    nper = 600 if ctx.thorough else 150
    npar = 3000 if ctx.thorough else 500
    nrace = 30 if ctx.thorough else 9
    if getattr(ctx, "replay", None):
        r = json.load(open(ctx.replay))
        lines = [r["case_line"]] if "case_line" in r else []
        if r.get("periodic_steps"):
            lines = []
    else:
        lines = [gen_serial(ctx) for _ in range(nser)] + [gen_periodic_model_case(ctx) for _ in range(nper)] \
            + [gen_parallel(ctx) for _ in range(npar)] + [gen_race(ctx, i) for i in range(nrace)]
    dist = {}
    for l in lines:
        dist[l[0]] = dist.get(l[0], 0) + 1
    ctx.cov["input_distribution"] = dist
    env = {"ASAN_OPTIONS": "detect_leaks=0:abort_on_error=0:exitcode=99"}
    rc, impl, stderr = vlib.run_lines([exe], lines, timeout=3000, env=env)
    ctx.log("implementation ran %d cases rc=%d" % (len(lines), rc))
    if rc != 0 or len(impl) != len(lines):
        idx = min(len(impl), max(len(lines) - 1, 0))
        ctx.violation("timer harness aborted (rc=%d) at case %s" % (rc, lines[idx][:200] if lines else "-"),
                      {"case_line": lines[idx] if lines else "", "stderr": stderr[-3000:], "rc": rc})
        return
    direct_fail, race_hits = [], []
    for l, o in zip(lines, impl):
        ctx.count(l)
        why = property_holds(l, o)
        if why:
            (race_hits if l[0] == "Z" else direct_fail).append((l, o, why))
    for l in lines[:2] + lines[nser:nser + 1] + lines[-2:]:
        ctx.sample(l[:300])
    mismatches = []
    if oracle and lines:
        det = [(l, o) for l, o in zip(lines, impl) if l[0] in "SZ"]
        rc2, mod, err2 = vlib.run_lines([oracle], [l for l, _ in det], timeout=3000, env={"OCAMLRUNPARAM": "l=8G"})
        if rc2 != 0 or len(mod) != len(det):
            ctx.violation("oracle failed to run: rc=%d %s" % (rc2, err2[-300:]), {"obligation": "oracle run"},
                          found_input=False)
            return
        for (l, a), b in zip(det, mod):
            if a.split() != b.split():
                mismatches.append((l, a, b))
        ctx.cov["traces_validated_against_impl"] = len(det)
        ctx.log("model ran %d cases, %d mismatches" % (len(det), len(mismatches)))
        # the unrepaired model (`return (t->id)` after the unlock) must reproduce the race answers exactly
        if race_hits:
            ul = ["U" + l[1:] for l, _, _ in race_hits]
            rc3, umod, _ = vlib.run_lines([oracle], ul, timeout=600)
            same = sum(1 for (l, o, _), u in zip(race_hits, umod) if o.split() == u.split())
            ctx.cov["race_witness"] = {"cases": len(race_hits), "explained_by_unrepaired_model": same}
    # periodic services on the real callbacks
    pexe, perr = build_periodic(ctx)
    if pexe is None:
        ctx.violation("periodic harness does not build against /repo: " + perr[-600:],
                      {"obligation": "correspondence C18 periodic (build)", "stderr": perr}, found_input=False)
    elif not getattr(ctx, "replay", None) or json.load(open(ctx.replay)).get("periodic_steps"):
        why, steps, plines = check_periodic(ctx, pexe)
        ctx.count("periodic:" + " ".join(steps)[:2000])
        ctx.log("periodic services:", why or "ok %s" % ctx.cov.get("periodic"))
        if why:
            ctx.violation("periodic services: " + why, {"periodic_steps": steps[:400], "log_tail": plines[-40:],
                                                       "why": why})
    # verdict
    if race_hits:
        l, o, why = race_hits[0]
        ctx.violation("%s: case %s -> %s (timer_set_absolute reads t->id after releasing the mutex; schedule: caller "
                      "held between unlock and return while the timer fires, is retired and its struct re-used; "
                      "Coq: C18_set_return_after_unlock_refuted; repair: seeded/fixes/timer-set-id-after-unlock.diff)"
                      % (why, l, o),
                      {"case_line": l, "impl_output": o, "why": why, "finding_key": FINDING_KEY,
                       "n_failing": len(race_hits)})
    if direct_fail:
        l, o, why = direct_fail[0]
        ctx.violation("%s: case %s -> %s (%d failing cases)" % (why, l[:400], o[:400], len(direct_fail)),
                      {"case_line": l, "impl_output": o, "why": why, "n_failing": len(direct_fail),
                       "more": [(a[:300], c) for a, b, c in direct_fail[1:5]]})
    elif mismatches:
        mm = [m for m in mismatches if not any(m[0] == r[0] for r in race_hits)]
        if mm:
            l, a, b = mm[0]
            ctx.violation("model and timer.c disagree on %d cases (first: %s impl=%s model=%s) but the property "
                          "evaluated directly on the log holds" % (len(mm), l[:300], a[:300], b[:300]),
                          {"obligation": "correspondence TimerModel ~ timer.c", "case_line": l, "impl": a, "model": b},
                          found_input=False)
    if not proved and not ctx.violations:
        ctx.violation("proof obligation no longer checks: %s" % getattr(ctx, "broken_obligation", "?"),
                      {"obligation": getattr(ctx, "broken_obligation", "?"), "log": ctx.proof_log[-3000:]},
                      found_input=False)
