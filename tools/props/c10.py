"""C10 — credentials conform to the documented v3 format in both directions."""
import os, struct
import vlib, rig, credcorr, pyref, hostile

MANIFEST = dict(
    level=("proof", "Coq theorems: every credential CredModel's encoder emits satisfies V3Spec.v3_cred, a declarative "
           "transcription of doc/credential_v3_format.txt independent of the model's functions; any configuration holding the "
           "same key accepts it with the same fields (round trip across configurations); base64 layer = RFC 4648; spec literals "
           "= source constants. The code is held to the document by the correspondence: every credential the live daemon emits "
           "is parsed by the extracted model over libgcrypt/zlib/bzlib (knowing only the key file) to the requested fields and "
           "re-encoded to the byte-identical string; credentials built by the reference (and by an independent Python "
           "reference for cipher none) are decoded by the daemon with the same fields; frozen upstream credential as corpus.",
           "7 C10"),
    note="The reference implementation is the extraction of the Coq model linked with libgcrypt/zlib/bzlib, which share no code "
         "with munged's OpenSSL path; a second, Python, reference covers cipher=none. spec => accept is proved for every string satisfying "
         "the documented relation with fields munged can decode (C10_spec_accepted, V3Accept.v: any IV, salt, origin address of "
         "0 or 4 bytes, compression that did not shrink, any conforming implementation's choices), the relation is inhabited "
         "for every in-range field record (C10_spec_inhabited), and the clauses of the document too weak for acceptance are "
         "closed Examples (16-byte origin address, MAC none, MAC shorter than the cipher key, unknown zip code).",
    technique="Coq proof (encoder satisfies declarative spec; every string satisfying the spec is accepted with its fields; cross-configuration round trip) + two-way live interchange")

ANY = 0xFFFFFFFF


def zip_layer_conforms(z, inner):
    """doc/credential_v3_format.txt: a compressed INNER is an 8-byte header - magic 0xCACACACA, then the length of the
    uncompressed data as a 32-bit BIG-ENDIAN word - followed by the zlib/bzlib stream, which inflates to exactly that length"""
    import bz2, zlib
    if z == 0:
        return None
    if len(inner) < 8:
        return "shorter than the 8-byte header"
    magic, length = struct.unpack(">II", inner[:8])
    if magic != pyref.ZIP_MAGIC:
        return "magic is %08x" % magic
    try:
        raw = zlib.decompress(inner[8:]) if z == 3 else bz2.decompress(inner[8:])
    except Exception as e:
        return "stream does not inflate (%s)" % type(e).__name__
    if length != len(raw):
        return "header announces %d bytes (0x%08x) but the stream inflates to %d bytes (the length word is big-endian)" % (length, length, len(raw))
    return None


def run(ctx):
    ctx.level = "proof"
    proved = vlib.prove(ctx, ["Properties_C10.v"], facts=["cred", "base64"])
    ctx.log("proofs:", "ok" if proved else "BROKEN: " + getattr(ctx, "broken_obligation", "?"))
    ctx.cov["rule"] = ("daemon->reference: credentials over cipher x MAC x zip x payload x identity x restriction x ttl emitted by "
                       "the live daemon are parsed by the reference to the requested fields and re-encoded byte-identically from the "
                       "recovered salt/IV; reference->daemon: credentials built by the reference (own salt, IV, time, identity, "
                       "origin address) and by a Python reference (cipher none, addr_len 0 and 4) are decoded by the daemon with "
                       "equal fields; the frozen upstream credential/key pair. non-trivial = distinct credential request")
    try:
        exe, orc = credcorr.build_all(ctx)
    except RuntimeError as e:
        ctx.violation(str(e), {"obligation": "build"}, found_input=False)
        return
    rng = ctx.rng
    # key files of every admissible kind: the minimum, odd, mungekey's maximum, and longer than that
    key = bytes(rng.getrandbits(8) for _ in range(rng.choice([32, 33, 64, 1024])))
    longkey = bytes(rng.getrandbits(8) for _ in range(rng.choice([1025, 4096])))
    crl = credcorr.CredRig(ctx, exe, orc, key=longkey, tag="c10long")
    if crl.ok:
        for (c, m, z) in ((4, 5, 0), (0, 3, 3), (5, 6, 2)):
            r, diff = crl.encode_both(uid=11, gid=12, cipher=c, mac=m, zip_=z, data=b"long key file")
            ctx.count(("longkey-d2r", c, m, z, len(longkey)))
            if diff or r is None or r["error_num"] != 0 or crl.o.parse(r["data"]) is None:
                fails_long = "a credential emitted under a %d-byte key file is not a v3 credential under that key (reference: %s)" % (len(longkey), diff)
                ctx.violation(fails_long, {"key_len": len(longkey), "cipher": c, "mac": m, "zip": z}, found_input=True)
                break
            e = crl.o.enc(c, m, z, b"", 60, ANY, ANY, b"reference under long key", 0, 5, 6, crl.now, b"12345678", bytes(16))
            d, mm, diff = crl.decode_both(e["data"], uid=1, gid=1)
            ctx.count(("longkey-r2d", c, m, z, len(longkey)))
            if d is None or d["error_num"] != 0 or d["data"] != b"reference under long key":
                ctx.violation("munged with a %d-byte key file rejects the reference's credential: %s" % (len(longkey), d and (d["error_num"], d["error_str"]),),
                              {"key_len": len(longkey)}, found_input=True)
                break
        crl.stop()
    fails, mism = [], []
    # "parses to exactly the requested fields" under every daemon configuration: a daemon with a small --max-ttl and a peer
    # with the default one sharing the key: the TTL written into the credential is min(requested or default, the EMITTING
    # daemon's --max-ttl), as the independent parser sees it and as the peer reports it
    for mt in ((600, 1, 299) if ctx.thorough else (600,)):
        crs = credcorr.CredRig(ctx, exe, orc, key=key, tag="c10mt", max_ttl=mt)
        crp = credcorr.CredRig(ctx, exe, orc, key=key, tag="c10peer")
        if crs.ok and crp.ok:
            for ttl in (0, 1, mt - 1 if mt > 1 else 1, mt, mt + 1, 3000, 3600, 3601, 0xFFFFFFFF):
                r, diff = crs.encode_both(uid=21, gid=22, cipher=0, mac=5, zip_=0, ttl=ttl, data=b"ttl field")
                ctx.count(("emit-ttl", mt, ttl))
                if diff:
                    mism.append(crs.mismatches[-1])
                if r is None or r["error_num"] != 0:
                    continue
                # enc.c: a TTL of 0 selects the daemon default (300 s) as it is; any OTHER value above the maximum is clamped
                # (C06: "a TTL of 0 selects the daemon default and any other TTL above the maximum ... is clamped")
                want = 300 if ttl == 0 else min(ttl, mt)
                p_ = crs.o.parse(r["data"])
                d, mm, diff = crp.decode_both(r["data"], uid=1, gid=1)
                got_p = p_ and p_["msg"]["ttl"]
                got_d = d and d["error_num"] == 0 and d["ttl"]
                if got_p != want or got_d != min(want, 3600):
                    fails.append({"why": "a daemon with --max-ttl=%d asked for ttl=%d emits a credential whose TTL field is %s (independent "
                                         "parse) / %s (peer daemon with the same key), the requested-and-capped value is %d"
                                         % (mt, ttl, got_p, got_d, want), "cred_hex": r["data"].hex()})
        crs.stop()
        crp.stop()
    cr = credcorr.CredRig(ctx, exe, orc, key=key, tag="c10")
    if not cr.ok:
        ctx.violation("daemon does not start", {"obligation": "start"}, found_input=False)
        return
    dist = {"daemon->ref": 0, "ref->daemon": 0, "pyref->daemon": 0, "daemon->pyref": 0, "frozen": 0}
    combos = [(c, m, z) for c in (0, 2, 3, 4, 5) for m in (2, 3, 4, 5, 6) for z in (0, 2, 3) if not (c == 5 and m in (2, 3, 4))]
    if not ctx.thorough:
        combos = [combos[i] for i in range(0, len(combos), 3)]
    first = True
    for extra in ((0, 5, 2), (0, 5, 3), (0, 2, 3)):
        if extra not in combos:
            combos.append(extra)
    # "to exactly the requested fields" over cipher x MAC includes the pairs the format rules out (a MAC shorter than the cipher
    # key: the DEK would be too short) and type codes that name nothing: no credential, or one with exactly those fields - never a
    # credential with a substituted type
    for (c, m, z) in [(5, 2, 0), (5, 3, 0), (5, 4, 0), (5, 2, 3), (4, 7, 0), (6, 5, 0), (4, 5, 4), (4, 0, 0), (5, 0, 0)]:
        r, st = rig.encode(cr.d.sock, uid=1000, gid=1001, cipher=c, mac=m, zip_=z, data=b"no substitutions")
        ctx.count(("d2r-ruled-out", c, m, z))
        dist["daemon->ref"] += 1
        if r is not None and r["error_num"] == 0:
            p = cr.o.parse(r["data"])
            body = hostile.unarmor(r["data"]) or b"\0" * 5
            fails.append({"why": "munged emits a credential for the request (cipher %d, mac %d, zip %d), which the format rules out; its header carries "
                                 "(cipher %d, mac %d, zip %d) - not the requested fields%s" % (c, m, z, body[1], body[2], body[3],
                                 "" if p else "; the reference cannot parse it"), "cred_hex": r["data"].hex()[:2000]})
    for (c, m, z) in combos:
        for n in ((0, 5, 100, 3000) if ctx.thorough else (0, 100)):
            data = (b"conformance payload " * (n // 20 + 1))[:n]
            eu, eg = rng.choice([0, 1000, 2 ** 31, 2 ** 32 - 2]), rng.choice([0, 1001, 2 ** 31 + 1])
            au, ag = rng.choice([ANY, 7]), rng.choice([ANY, 8])
            ttl = rng.choice([0, 1, 60, 3600, 5000])
            # --- daemon -> reference
            r, diff = cr.encode_both(uid=eu, gid=eg, cipher=c, mac=m, zip_=z, ttl=ttl, auth_uid=au, auth_gid=ag, data=data)
            ctx.count(("d2r", c, m, z, n, eu, eg, au, ag, ttl))
            dist["daemon->ref"] += 1
            if diff:
                mism.append(cr.mismatches[-1])
            if r is None or r["error_num"] != 0:
                fails.append({"why": "daemon refused a supported request (%d,%d,%d): %s" % (c, m, z, r and r["error_str"])})
                continue
            p = cr.o.parse(r["data"])
            want_ttl = 300 if ttl == 0 else min(ttl, 3600)
            if p is None:
                fails.append({"why": "the reference cannot parse a credential emitted by munged (cipher %d mac %d zip %d)" % (c, m, z),
                              "cred_hex": r["data"].hex()[:2000]})
            else:
                f = p["msg"]
                got = (f["cipher"], f["mac"], f["cred_uid"], f["cred_gid"], f["auth_uid"], f["auth_gid"], f["ttl"], f["time0"], f["data"])
                want = (c, m, eu, eg, au, ag, want_ttl, cr.now, data)
                if got != want or f["zip"] not in (0, z) or (n == 0 and f["zip"] != 0):
                    fails.append({"why": "reference parse of munged's credential gives fields %s, requested %s" % (str(got)[:200], str(want)[:200]),
                                  "cred_hex": r["data"].hex()[:2000]})
                if c == 0:
                    # third opinion: pure-Python reference (HMAC from hashlib, zlib/bz2 from the stdlib)
                    body = hostile.unarmor(r["data"])
                    ml = {2: 16, 3: 20, 4: 20, 5: 32, 6: 64}[m]
                    outer, tag, inner = body[:5], body[5:5 + ml], body[5 + ml:]
                    dist["daemon->pyref"] += 1
                    if pyref.mac_supported(m) and pyref.tag(key, m, outer + inner) != tag:
                        fails.append({"why": "HMAC over outer||inner under SHA1(key||'2') (Python hashlib) does not match munged's tag (mac %d)" % m})
                    why_zip = zip_layer_conforms(outer[3], inner)
                    if why_zip:
                        fails.append({"why": "compressed interior of munged's credential (zip %d) does not follow the document: %s" % (outer[3], why_zip),
                                      "cred_hex": r["data"].hex()[:2000]})
            if first and p:
                ctx.sample({"direction": "daemon->reference", "cipher": c, "mac": m, "zip": z, "cred_prefix": r["data"][:40].decode(errors="replace")})
            # --- reference -> daemon: build with own salt/IV/time/identity
            salt = bytes(rng.getrandbits(8) for _ in range(8))
            iv = bytes(rng.getrandbits(8) for _ in range(16))
            t0 = cr.now - rng.randrange(0, min(50, want_ttl) + 1)
            e = cr.o.enc(c, m, z, b"", ttl, au, ag, data, 0, eu, eg, t0, salt, iv)
            ctx.count(("r2d", c, m, z, n, eu, eg, au, ag, ttl, salt))
            dist["ref->daemon"] += 1
            if e["error_num"] != 0:
                fails.append({"why": "reference encoder refused (%d,%d,%d)" % (c, m, z)})
                continue
            du, dg = (7 if au != ANY else 99), (8 if ag != ANY else 98)
            d, mm, diff = cr.decode_both(e["data"], uid=du, gid=dg)
            if diff:
                mism.append(cr.mismatches[-1])
            if d is None or d["error_num"] != 0:
                fails.append({"why": "munged rejects a v3 credential built by the reference (cipher %d mac %d zip %d): %s"
                                     % (c, m, z, d and (d["error_num"], d["error_str"])), "cred_hex": e["data"].hex()[:2000]})
            else:
                got = (d["cipher"], d["mac"], d["cred_uid"], d["cred_gid"], d["auth_uid"], d["auth_gid"], d["ttl"], d["time0"], d["data"])
                want = (c, m, eu, eg, au, ag, want_ttl, t0, data)
                if got != want:
                    fails.append({"why": "munged decodes the reference's credential to %s, built from %s" % (str(got)[:200], str(want)[:200])})
            first = False
    # "x origin address": the address munged is TOLD to record (--origin=<literal>) is the address in the credential, for addresses
    # that are, are near, and are not addresses of a local interface
    import socket as _so
    for org in ("127.0.0.1", "127.0.0.2", "127.8.9.10", "127.255.255.254", "192.0.2.77", "10.254.253.252"):
        cro = credcorr.CredRig(ctx, exe, orc, key=key, tag="c10o", extra=["--origin=" + org])
        if not cro.ok:
            ctx.notes.append("daemon does not start with --origin=%s" % org)
            continue
        try:
            r, st = rig.encode(cro.d.sock, uid=1000, gid=1001, cipher=0, mac=5, zip_=0, data=b"origin")
            ctx.count(("origin", org))
            dist["origin"] = dist.get("origin", 0) + 1
            body = hostile.unarmor(r["data"]) if r and r["error_num"] == 0 else None
            if body is None:
                fails.append({"why": "daemon started with --origin=%s does not encode: %s" % (org, r and r["error_str"])})
            else:
                inner = body[5 + 32:]
                alen, addr = inner[8], inner[9:9 + inner[8]]
                if alen != 4 or addr != _so.inet_aton(org):
                    fails.append({"why": "munged started with --origin=%s emits credentials whose origin address field is %s (length %d) - not the "
                                         "requested field" % (org, ".".join(str(x) for x in addr), alen), "cred_hex": r["data"].hex()[:600]})
        finally:
            cro.stop()
    # Python reference -> daemon, incl. origin address lengths 0 and 4
    for m in (2, 3, 5, 6):
        if not pyref.mac_supported(m):
            continue
        for z in (0, 2, 3):
            for addr in (b"", b"\x0a\x01\x02\x03"):
                cred = pyref.mint(key, mac=m, zip_=z, salt=b"pysalt!!", addr=addr, time0=cr.now, ttl=77, uid=31337, gid=31338,
                                  auth_uid=ANY, auth_gid=ANY, data=b"minted by the python reference")
                d, mm, diff = cr.decode_both(cred, uid=1, gid=1)
                ctx.count(("py2d", m, z, len(addr)))
                dist["pyref->daemon"] += 1
                if diff:
                    mism.append(cr.mismatches[-1])
                if d is None or d["error_num"] != 0 or (d["cred_uid"], d["cred_gid"], d["ttl"], d["addr_len"], d["data"]) != \
                        (31337, 31338, 77, len(addr), b"minted by the python reference"):
                    fails.append({"why": "munged does not accept/echo a v3 credential built in Python (mac %d zip %d addr_len %d): %s"
                                         % (m, z, len(addr), d and (d["error_num"], d["error_str"], d["addr_len"]))})
    # the largest interiors: compressible payloads at the top of the accepted request size, compressed (zip header announcing
    # an uncompressed INNER of more than 1 MiB) - emitted, parsed by the reference, and accepted back
    big_sizes = (1048536, 1048555, 1048556) if ctx.thorough else (1048556,)
    dist["largest-compressed"] = 0
    for n in big_sizes:
        for z in ((2, 3) if ctx.thorough else (3,)):
            data = (b"compressible %d " % n) * (n // 16 + 1)
            data = data[:n]
            r, diff = cr.encode_both(uid=1000, gid=1000, cipher=4, mac=5, zip_=z, data=data)
            ctx.count(("largest-compressed", n, z))
            dist["largest-compressed"] += 1
            if diff:
                mism.append(cr.mismatches[-1])
            if r is None or r["error_num"] != 0:
                fails.append({"why": "a %d-byte compressible payload (zip %d) is not encoded: %s" % (n, z, r and (r["error_num"], r["error_str"]))})
                continue
            d, mm, diff = cr.decode_both(r["data"], uid=1, gid=1)
            if diff:
                mism.append(cr.mismatches[-1])
            if d is None or d["error_num"] != 0 or d["data"] != data or d["zip"] != z:
                fails.append({"why": "munged rejects a conforming credential it (and the reference) emitted: %d-byte compressible payload, zip %d, "
                                     "uncompressed interior %d bytes: %s" % (n, z, n + 41, d and (d["error_num"], d["error_str"], d["data_len"])),
                              "cred_hex": r["data"].hex()[:3000]})
    # SPEC -> daemon (C10_spec_accepted): credentials built by V3Accept.v3_build, the functional form of the documented
    # relation — arbitrary IV of the cipher's length, arbitrary salt, origin address of 0 or 4 bytes, a realm, compression
    # kept whether or not it shrank the data (incompressible payloads), every cipher x MAC x zip the daemon can decode
    dist["spec->daemon"] = 0
    combos = [(c, m, z) for c in (0, 2, 3, 4, 5) for m in (2, 3, 4, 5, 6) for z in (0, 2, 3) if not (c == 5 and m in (2, 3, 4))]
    if not ctx.thorough:
        combos = [combos[i] for i in range(0, len(combos), 3)] + [(5, 6, 2), (0, 2, 3)]
    for (c, m, z) in combos:
        ivlen = 0 if c == 0 else (8 if c in (2, 3) else 16)
        for variant in ("incompressible", "addr0-realm"):
            data = bytes(rng.getrandbits(8) for _ in range(rng.randrange(1, 60))) if variant == "incompressible" else b"A" * 300
            addr = bytes(rng.getrandbits(8) for _ in range(4)) if variant == "incompressible" else b""
            realm = b"" if variant == "incompressible" else b"spec-realm"
            t0 = cr.now - rng.randrange(0, 20)
            uid, gid = rng.choice([0, 1, 31337, 0x80000000, 0xFFFFFFFE]), rng.choice([0, 7, 0xFFFFFFFE])
            cred = cr.o.build(c, m, z, realm, bytes(rng.getrandbits(8) for _ in range(8)), addr, t0, 55, uid, gid, ANY, ANY, data,
                              bytes(rng.getrandbits(8) for _ in range(ivlen)))
            if cred is None:
                continue
            ctx.count(("spec2d", c, m, z, variant, cred[:40]))
            dist["spec->daemon"] += 1
            for framed in (cred + b"\0", cred):
                d, mm, diff = cr.decode_both(framed, uid=1, gid=1)
                if diff:
                    mism.append(cr.mismatches[-1])
                got = d and (d["error_num"], d["cipher"], d["mac"], d["zip"], d["cred_uid"], d["cred_gid"], d["ttl"], d["time0"], d["addr_len"], d["data"],
                             d["realm"])
                want = (0, c, m, z, uid, gid, 55, t0, len(addr), data, (realm + b"\0") if realm else b"")
                if framed is cred:
                    want = (17,) + want[1:]      # second presentation of the same credential: replayed, fields still reported
                if d is None or got[0] != want[0] or (got[0] == 0 and got != want):
                    fails.append({"why": "a credential satisfying the documented format (built by the spec: cipher %d mac %d zip %d, %s) is "
                                         "not accepted with its fields: daemon %s, spec %s" % (c, m, z, variant, str(got)[:160], str(want)[:160]),
                                  "cred_hex": cred.hex()[:3000]})
    rc, rep = cr.stop()
    if rep.strip():
        ctx.violation("sanitizer report from the daemon during C10 cases", {"report": rep[:3000]}, found_input=False)
    # conformance does not depend on what other clients ask for at the same time: all MAC types in parallel
    import conc
    mp, mrep, mn = conc.mac_race(ctx, exe, seconds=15.0 if ctx.thorough else 4.0)
    dist["concurrent-mac-types"] = mn
    ctx.count(("mac-race", mn))
    ctx.log("MAC-type race: %d rounds, %d problems" % (mn, len(mp)))
    for pb in mp:
        fails.append(pb)
    if mrep.strip():
        ctx.violation("sanitizer report from the daemon during the concurrent MAC-type phase", {"report": mrep[:3000]}, found_input=False)
    # frozen upstream pair (tests/0099-credential-decode.*)
    kf = os.path.join(vlib.REPO, "tests/0099-credential-decode.key")
    cf = os.path.join(vlib.REPO, "tests/0099-credential-decode.cred")
    if os.path.exists(kf) and os.path.exists(cf):
        fk = open(kf, "rb").read()
        fc = open(cf, "rb").read().strip() + b"\0"
        cr2 = credcorr.CredRig(ctx, exe, orc, key=fk, tag="c10f", clock=1634268043 + 10)
        if cr2.ok:
            d, mm, diff = cr2.decode_both(fc, uid=0, gid=0)
            ctx.count(("frozen",))
            dist["frozen"] += 1
            if diff:
                mism.append(cr2.mismatches[-1])
            if d is None or (d["error_num"], d["cipher"], d["mac"], d["zip"], d["cred_uid"], d["cred_gid"], d["ttl"], d["time0"], d["data"]) != \
                    (0, 4, 5, 0, 7607, 7607, 300, 1634268043, b"xyzzy"):
                fails.append({"why": "frozen upstream credential no longer decodes to its recorded fields: %s" % str(d)[:300]})
            ctx.sample({"direction": "frozen upstream credential", "decoded": d and {k: d[k] for k in ("error_num", "cipher", "mac", "cred_uid", "ttl", "time0")}})
            cr2.stop()
    ctx.cov["input_distribution"] = dist
    ctx.cov["traces_validated_against_impl"] = ctx.cov["evaluations"]
    seen = set()
    for f in fails:
        k = f["why"][:45]
        if k in seen:
            continue
        seen.add(k)
        ctx.violation(f["why"], f, found_input=True)
    if not fails and mism:
        ctx.violation("model and daemon disagree on %d cases (first: %s %s)" % (len(mism), mism[0]["op"], mism[0]["diff"]),
                      {"obligation": "correspondence CredModel ~ munged (C10)", "first": mism[0]}, found_input=False)
    if not fails and not mism and not proved:
        ctx.violation("proof obligation no longer checks: %s" % getattr(ctx, "broken_obligation", "?"),
                      {"obligation": getattr(ctx, "broken_obligation", "?"), "log": ctx.proof_log[-3000:]}, found_input=False)
