"""Shared component phase for C05 / C07: /repo's replay.c + hash.c against the extracted ReplayModel.

component_phase(ctx, prop) builds the oracle (extract/replay) and harness/replay_harness.c from the current
sources, generates histories aimed at the case splits of the proofs (collisions in one bucket, equal
expiry, same MAC with another expiry, MACs differing in one late byte, purge at every offset around an
expiry second, concurrent presentations), runs both, compares line by line, and evaluates the property
itself on the implementation's answers with a Python reference that knows nothing of the Coq model.
It records violations in ctx and returns a dict; a live-daemon phase can be run after it by the caller."""
import json, os, re
import vlib

KEYLEN = 16            # documented: a credential is remembered by the first 16 MAC bytes and its expiry time0 + ttl
PURGE_MSEC = 60000     # documented purge period
M32 = 1 << 32

# which clause of which property a deviation of the implementation from the reference breaks
C05_TAGS = ("insert-dup", "insert-dup-live", "insert-false", "remove", "find", "table", "concurrent", "purge-early")
C07_TAGS = ("insert-dup-live", "purge-early", "purge-late", "purge-count", "rearm", "table")


# ----------------------------------------------------------------------------- case generation
def _mac(rng, n=None):
    n = n or rng.choice([16, 16, 16, 20, 32, 64])
    return bytes(rng.getrandbits(8) for _ in range(n))


def _le32(v):
    return bytes([(v >> (8 * i)) & 0xff for i in range(4)])


def universe(rng, base, nmax=10):
    """A key universe full of near-misses.  Returns list of (mac, time0, ttl); all entries are distinct as
    (mac[:16], t_expired) unless they are literally the same credential."""
    keys = []
    fam = rng.randrange(6)
    m0 = _mac(rng)
    v = rng.randrange(0, 60000)
    n = rng.randrange(2, nmax + 1)
    for i in range(n):
        r = rng.random()
        if r < 0.25:        # same MAC, another expiry (also equal-bucket by construction)
            mac = m0
        elif r < 0.45:      # differs from m0 in exactly one byte, often a late one
            pos = rng.choice([15, 15, 14, 8, 7, 4, 3, 0])
            b = bytearray(m0); b[pos] = (b[pos] + rng.choice([1, 0x80, 0xff])) & 0xff; mac = bytes(b)
        elif r < 0.65:      # same first 4 bytes (same bucket in the real table), rest random
            mac = m0[:4] + _mac(rng, len(m0) - 4)
        elif r < 0.80:      # other first 4 bytes hashing to the same slot of the 65537-slot table
            mac = _le32((v + 65537 * rng.randrange(0, 60000)) % M32) + _mac(rng, 12 + rng.choice([0, 4]))
        else:
            mac = _mac(rng)
        if fam == 0:
            exp = base                              # all expiries equal
        elif fam == 1:
            exp = base + rng.randrange(0, 3)
        else:
            exp = base + rng.randrange(-2, 8)
        ttl = rng.choice([1, 5, 60, 300, 3600])
        time0 = exp - ttl
        if time0 < 0:
            time0, ttl = 0, exp
        if time0 >= M32:                            # time0 is a uint32 field; time0 + ttl may exceed 2^32
            time0, ttl = M32 - 1, exp - (M32 - 1)
        k = (mac, time0, ttl)
        ident = (mac[:KEYLEN], time0 + ttl)
        if all((x[0][:KEYLEN], x[1] + x[2]) != ident for x in keys):
            keys.append(k)
    return keys


def key_str(keys):
    return ",".join("%s:%d:%d" % (m.hex(), t0, ttl) for (m, t0, ttl) in keys)


def gen_q_random(rng, size):
    base = rng.choice([1000, 5000, 100000, 1 << 31, M32 - 3])   # the last: expiries straddle 2^32
    keys = universe(rng, base)
    exps = sorted(set(t0 + ttl for (_, t0, ttl) in keys))
    clock = base - rng.randrange(3, 10)
    ops = []
    for _ in range(rng.randrange(8, 36)):
        r = rng.random()
        k = rng.randrange(len(keys))
        if r < 0.50:
            ops.append("i%d" % k)
        elif r < 0.60:
            ops.append("r%d" % k)
        elif r < 0.70:
            ops.append("f%d" % k)
        elif r < 0.74:
            ops.append("x%d" % k)
        else:
            # purge/tick at e-1, e, e+1 of some expiry not yet passed, else a small step
            cands = [e + d for e in exps for d in (-1, 0, 1) if e + d >= clock and e < base + 100]
            clock = rng.choice(cands) if cands and rng.random() < 0.8 else clock + rng.randrange(0, 3)
            ops.append(("p%d" if r < 0.95 else "t%d") % clock)
    return "Q %d %s %s" % (size, key_str(keys), ",".join(ops))


def gen_q_periodic(rng, size, phase):
    """Purge ticks every 60 s at the given phase relative to the expiry second e; presentations at
    e-1, e (last valid second) and e+1; neighbours in the same bucket with e-1 / e / e+1."""
    e = rng.choice([2000, 7260, 90000]) + 60
    m0 = _mac(rng)
    keys = [(m0, e - 300, 300)]
    for d in (-1, 0, 1):
        b = bytearray(m0); b[rng.choice([15, 8, 4])] ^= 0x40 + d + 1
        keys.append((bytes(b), e + d - 60, 60))
    keys.append((m0, e + 1 - 5, 5))        # same MAC, expiry e+1
    events = []                            # (time, order, op)
    t0 = e - rng.choice([61, 90, 125])
    events.append((t0, 0, "i0"))
    for j, k in enumerate(keys[1:], 1):
        events.append((t0 + rng.randrange(0, 30), 0, "i%d" % j))
    tick = e - 120 + phase
    while tick <= e + 70:
        if tick >= t0:
            events.append((tick, rng.choice([0, 2]), "p%d" % tick))   # purge before or after same-second ops
        tick += 60
    for t in (e - 1, e, e, e + 1):
        events.append((t, 1, "T%d" % t))
    events.sort()
    ops = []
    for (t, _, op) in events:
        if op.startswith("T"):
            ops.append("t%d" % t); ops.append("i0"); ops.append("i%d" % rng.randrange(1, len(keys)))
        elif op.startswith("i"):
            ops.append("t%d" % t); ops.append(op)
        else:
            ops.append(op)
    return "Q %d %s %s" % (size, key_str(keys), ",".join(ops))


def gen_t(rng, size, nthreads, nreq):
    keys = universe(rng, 5000, nmax=6)
    pre = [i for i in range(len(keys)) if rng.random() < 0.25]
    if rng.random() < 0.5:      # all decoders present the same credential
        k = rng.randrange(len(keys))
        reqs = [k] * nreq
    else:
        reqs = [rng.randrange(len(keys)) for _ in range(nreq)]
    return "T %d %d %s %s %s" % (size, nthreads, key_str(keys), ",".join(map(str, pre)) or "-",
                                 ",".join(map(str, reqs)))


def gen_q_bulk(rng, nfill, left):
    """more live records than one allocation block of the table's node pool (1024): a record with `left` seconds of validity
    left is inserted first, then nfill long-lived ones, then it is presented again: it must still be there"""
    base = 500000
    keys = [(_mac(rng, 16), base - 10, 10 + left)] + [(_mac(rng, 16), base, 3000 + i % 7) for i in range(nfill)]
    ops = ["t%d" % base, "i0"] + ["i%d" % (i + 1) for i in range(nfill)] + ["i0", "f0"]
    return "Q 0 %s %s" % (key_str(keys), ",".join(ops))


def gen_cases(ctx, prop):
    rng = ctx.rng
    th = ctx.thorough
    lines = []
    for (nfill, left) in ((1030, 55), (1030, 1)) + (((2060, 30), (3100, 59)) if th else ()):
        lines.append(gen_q_bulk(rng, nfill, left))
    small = [1, 1, 2, 3, 7]
    n_small = 20000 if th else 900
    n_real = 3000 if th else 120
    for _ in range(n_small):
        lines.append(gen_q_random(rng, rng.choice(small)))
    for _ in range(n_real):
        lines.append(gen_q_random(rng, 0))
    reps = 15 if th else 1
    for _ in range(reps):
        for phase in range(60):                      # every position of the purge tick relative to expiry
            lines.append(gen_q_periodic(rng, rng.choice(small + [0] if phase % 10 == 0 else small), phase))
    for nthreads in (1, 2, 8):
        for nreq in ([2, 3, 4, 8, 16, 32] if not th else list(range(2, 33))):
            for _ in range(2 if not th else 4):
                lines.append(gen_t(rng, rng.choice([1, 3, 0]) if nreq % 4 == 0 else rng.choice([1, 3]),
                                   nthreads, nreq))
    return lines


# ----------------------------------------------------------------------------- the property itself
def _parse_keys(s):
    out = []
    for k in s.split(","):
        m, t0, ttl = k.split(":")
        out.append((bytes.fromhex(m)[:KEYLEN], int(t0) + int(ttl)))
    return out


def _parse_tail(tok):
    """'<res>/<count>/<dump>' -> (res, count, [ (mac, t) ... ]) or None"""
    f = tok.split("/")
    if len(f) != 3 or not re.fullmatch(r"-?\d+", f[1]):
        return None
    dump = []
    if f[2] != "-":
        for e in f[2].split("."):
            m = re.fullmatch(r"([0-9a-f]+):(-?\d+)", e)
            if not m:
                return None
            dump.append((bytes.fromhex(m.group(1)), int(m.group(2))))
    return f[0], int(f[1]), dump


def property_holds(line, out):
    """Evaluate C05/C07 on the implementation's answers.  Returns None or (tag, explanation)."""
    f = line.split(" ")
    m = re.search(r"/(-?\d+)/[^|/]*!nodes=(-?\d+)", out)
    if m:
        return ("table", "hash_count says %s but hash_for_each visits %s nodes" % (m.group(1), m.group(2)))
    if "!key" in out:
        return ("table", "a node's key pointer is not its data pointer")
    if f[0] == "Q":
        keys = _parse_keys(f[2])
        ops = f[3].split(",")
        if not out.startswith("Q "):
            return ("table", "malformed harness answer %r" % out[:80])
        body = out[2:]
        extra = None
        if " !" in body:
            body, extra = body.split(" !", 1)
        toks = body.split("|")
        if len(toks) != len(ops):
            return ("table", "harness answered %d of %d operations" % (len(toks), len(ops)))
        ref = set()
        now = 0
        for n, (op, tok) in enumerate(zip(ops, toks)):
            p = _parse_tail(tok)
            where = "op #%d %s" % (n, op)
            if p is None:
                return ("table", "%s: malformed answer %r" % (where, tok[:80]))
            res, cnt, dump = p
            a = int(op[1:])
            if op[0] == "i":
                k = keys[a]
                want = "1" if k in ref else "0"
                if res != want:
                    if want == "1":
                        return ("insert-dup-live" if k[1] >= now else "insert-dup", "%s: a credential already recorded (mac16=%s t_expired=%d, clock %d) was "
                                "accepted again (replay_insert returned %s)" % (where, k[0].hex(), k[1], now, res))
                    return ("insert-false", "%s: a credential never presented before (or removed/expired-and-purged) was "
                            "reported as replayed (replay_insert returned %s)" % (where, res))
                ref.add(k)
            elif op[0] == "r":
                k = keys[a]
                want = "0" if k in ref else "-1"
                if res != want:
                    return ("remove", "%s: replay_remove returned %s, expected %s" % (where, res, want))
                ref.discard(k)
            elif op[0] == "f":
                want = "1" if keys[a] in ref else "0"
                if res != want:
                    return ("find", "%s: hash_find says %s, expected %s" % (where, res, want))
            elif op[0] == "t":
                now = a
            elif op[0] == "p":
                now = a
                m = re.fullmatch(r"n(-?\d+)a(-?\d+)", res)
                if not m:
                    return ("rearm", "%s: the purge did not run (%s): replay.c left no timer armed" % (where, res))
                gone = set(k for k in ref if k[1] < now)
                early = [k for k in ref if k[1] >= now and k not in dump]
                late = [k for k in dump if k[1] < now]
                if early:
                    k = early[0]
                    return ("purge-early", "%s: purge at %d discarded a record that can still pass the time check "
                            "(t_expired=%d >= now)" % (where, now, k[1]))
                if late:
                    k = late[0]
                    return ("purge-late", "%s: purge at %d kept an expired record (t_expired=%d < now)" % (where, now, k[1]))
                if int(m.group(1)) != len(gone):
                    return ("purge-count", "%s: purge reports %s removed, %d were expired" % (where, m.group(1), len(gone)))
                if int(m.group(2)) != PURGE_MSEC:
                    return ("rearm", "%s: purge re-armed with %s ms, expected %d" % (where, m.group(2), PURGE_MSEC))
                ref -= gone
            if len(dump) != len(set(dump)):
                return ("table", "%s: the table holds the same record twice" % where)
            if set(dump) != ref:
                miss = ref - set(dump)
                return ("table", "%s: table content differs from the set of live records (%s)" % (
                    where, "missing t_expired=%d" % next(iter(miss))[1] if miss else "unexpected extra record"))
            if cnt != len(ref):
                return ("table", "%s: hash_count=%d but %d records are live" % (where, cnt, len(ref)))
        if extra:
            return ("table", "harness flags: " + extra)
        return None
    if f[0] == "T":
        keys = _parse_keys(f[3])
        pre = [] if f[4] == "-" else [int(x) for x in f[4].split(",")]
        reqs = [int(x) for x in f[5].split(",")]
        if not out.startswith("T "):
            return ("concurrent", "malformed harness answer %r" % out[:80])
        body = out[2:]
        head, _, rest = body.partition("/")
        p = _parse_tail("x/" + rest.split(" !")[0])
        per = head.split(",")
        if p is None or len(per) != len(keys):
            return ("concurrent", "malformed harness answer %r" % out[:80])
        _, cnt, dump = p
        for i, s in enumerate(per):
            ins, ex, er = (int(x) for x in s.split(":"))
            n = reqs.count(i)
            if er:
                return ("concurrent", "key #%d: %d requests failed with an error" % (i, er))
            if ins + ex != n:
                return ("concurrent", "key #%d: %d answers for %d requests" % (i, ins + ex, n))
            want = 0 if (i in pre or n == 0) else 1
            if ins != want:
                return ("concurrent", "key #%d presented by %d concurrent requests (%s before): %d of them succeeded, "
                        "expected exactly %d" % (i, n, "recorded" if i in pre else "not recorded", ins, want))
        ref = set(keys[i] for i in pre) | set(keys[i] for i in reqs)
        if set(dump) != ref or len(dump) != len(ref) or cnt != len(ref):
            return ("concurrent", "table after the concurrent requests differs from the set of presented keys")
        return None
    return ("table", "unknown case line")


# ----------------------------------------------------------------------------- extraction cross-check
_CODE = ("fun o => match o with OInserted => 0 | OExists => 1 | ORemoved true => 2 | ORemoved false => 3 "
         "| ONone => 4 | OPurged n => 10 + n end")


def _gallina_case(line):
    """Q line with size>0 -> (Gallina expr, expected int sequence computed from the oracle's answer later)."""
    f = line.split(" ")
    size = int(f[1])
    keys = []
    for k in f[2].split(","):
        m, t0, ttl = k.split(":")
        keys.append("(mk_key (map n2b [%s]) (t_expired_of %s %s))" % ("; ".join(str(b) for b in bytes.fromhex(m)), t0, ttl))
    evs = []
    clock = 0
    for op in f[3].split(","):
        a = int(op[1:])
        if op[0] == "i":
            evs.append("EPresent (nth %d ks dk)" % a)
        elif op[0] == "r":
            evs.append("ERemove (nth %d ks dk)" % a)
        elif op[0] == "x":
            evs.append("EFail (nth %d ks dk)" % a)
        elif op[0] in "tp":
            d = max(0, a - clock); clock = max(clock, a)
            evs.append("ETick %d" % d)
            if op[0] == "p":
                evs.append("EPurge")
        else:
            return None
    expr = ("let dk : rkey := ([], 0) in let ks := [%s] in "
            "let r := run (c_slot %d) (mkS (create %d) 0) [%s] in "
            "(map (%s) (snd r), map (fun k => (map b2n (fst k), snd k)) (abs (tbl (fst r))))"
            % ("; ".join(keys), size, size, "; ".join(evs), _CODE))
    return expr


def _expected_ints(line, modout):
    f = line.split(" ")
    seq = []
    toks = modout[2:].split("|")
    for op, tok in zip(f[3].split(","), toks):
        res = tok.split("/")[0]
        if op[0] == "i":
            seq.append(int(res))
        elif op[0] == "r":
            seq.append(2 if res == "0" else 3)
        elif op[0] == "x":
            seq.append(4)
        elif op[0] == "t":
            seq.append(4)
        elif op[0] == "p":
            seq.append(4); seq.append(10 + int(re.match(r"n(\d+)", res).group(1)))
    last = toks[-1].split("/")[2]
    if last != "-":
        for e in last.split("."):
            m, t = e.split(":")
            seq += list(bytes.fromhex(m)) + [int(t)]
    return seq


def crosscheck_extraction(ctx, lines, mod, proved):
    samp = [i for i, l in enumerate(lines) if l.startswith("Q ") and l.split(" ")[1] != "0" and ",f" not in l
            and not l.split(" ")[3].startswith("f")][:24]
    exprs, idx = [], []
    for i in samp:
        e = _gallina_case(lines[i])
        if e:
            exprs.append(e); idx.append(i)
    if not exprs:
        return
    res, err = vlib.coq_eval_sample(
        ctx, "From Coq Require Import List NArith.\nFrom MV Require Import Bytes ReplayModel.\n"
             "Import ListNotations.\nLocal Open Scope N_scope.", exprs)
    if res is None or len(res) != len(exprs):
        ctx.notes.append("extraction cross-check could not run: %s" % (err or "")[-300:])
        if proved:
            ctx.violation("vm_compute cross-check of the extracted replay oracle failed to run",
                          {"obligation": "extraction cross-check", "err": (err or "")[-1500:]}, found_input=False)
        return
    bad = 0
    for i, r in zip(idx, res):
        got = [int(x) for x in re.findall(r"\d+", r)]
        if got != _expected_ints(lines[i], mod[i]):
            bad += 1
    ctx.cov["extraction_crosscheck"] = {"cases": len(exprs), "disagreements": bad}
    if bad:
        ctx.violation("extracted replay oracle disagrees with vm_compute on %d sample histories" % bad,
                      {"obligation": "extraction cross-check"}, found_input=False)


# ----------------------------------------------------------------------------- the phase
def component_phase(ctx, prop, proved=True):
    """Runs the component correspondence for `prop` ('C05' or 'C07').  Records violations in ctx.
    Returns {'ok': bool, 'cases': n, 'direct_fail': [...], 'mismatches': [...]}."""
    tags = C05_TAGS if prop == "C05" else C07_TAGS
    result = {"ok": False, "cases": 0, "direct_fail": [], "mismatches": []}
    oracle = vlib.build_oracle(ctx, "replay")
    src = [os.path.join(vlib.HARNESS, "replay_harness.c"), os.path.join(vlib.REPO, "src/munged/hash.c")]
    exe, err = vlib.cc(ctx, "replayh", src, extra=["-Wl,--wrap=time,--wrap=malloc"], libs=["-lpthread"])
    if exe is None and "undefined reference" in err:
        # replay.c has come to use helpers from elsewhere in the tree (e.g. crypto.c's comparison): link them in, so that the
        # question is put to the code (does it still behave as a replay cache?), not to the linker
        R = vlib.REPO
        more = [os.path.join(R, "src/common", f) for f in ("crypto.c", "md.c", "mac.c")] + \
               sorted(os.path.join(R, "src/libcommon", f) for f in os.listdir(os.path.join(R, "src/libcommon")) if f.endswith(".c")) + \
               [os.path.join(R, "src/libmissing", f) for f in ("strlcpy.c", "strlcat.c")] + \
               [os.path.join(R, "src/libmunge", f) for f in ("strerror.c", "enum.c")]
        exe, err2 = vlib.cc(ctx, "replayh2", src + more, extra=["-Wl,--wrap=time,--wrap=malloc", "-Wl,--allow-multiple-definition"], libs=["-lcrypto", "-lpthread"])
        err = err if exe is None else ""
    if exe is None:
        ctx.violation("replay harness does not build against /repo (replay.c/hash.c interface changed?): " + err[-500:],
                      {"obligation": "correspondence %s (build)" % prop, "stderr": err}, found_input=False)
        return result
    lines = gen_cases(ctx, prop)
    if getattr(ctx, "replay", None):
        r = json.load(open(ctx.replay))
        if "case_line" in r:
            lines = [r["case_line"]]
    dist = {}
    for l in lines:
        kind = l[0] + ("-real" if l.split(" ")[1] == "0" else "-small")
        dist[kind] = dist.get(kind, 0) + 1
    ctx.cov.setdefault("input_distribution", {}).update(dist)
    rc, impl, stderr = vlib.run_lines([exe], lines, timeout=1500)
    ctx.log("replay.c+hash.c ran %d histories rc=%d" % (len(lines), rc))
    result["cases"] = len(lines)
    if rc != 0 or len(impl) != len(lines):
        idx = min(len(impl), len(lines) - 1)
        ctx.violation("replay.c/hash.c abort under ASan/UBSan/LSan (memory error or leak) at or after history #%d" % idx,
                      {"case_line": lines[idx], "stderr": stderr[-3000:], "rc": rc})
        return result
    direct = []
    other = []
    for l, o in zip(lines, impl):
        ctx.count(l)
        why = property_holds(l, o)
        if why:
            (direct if why[0] in tags else other).append((l, o, why))
    for l in lines[:2] + lines[len(lines) // 2: len(lines) // 2 + 2] + lines[-2:]:
        ctx.sample(l[:400])
    mismatches = []
    if oracle:
        rc2, mod, err2 = vlib.run_lines([oracle], lines, timeout=1500, env={"OCAMLRUNPARAM": "l=8G"})
        if rc2 != 0 or len(mod) != len(lines):
            ctx.violation("replay oracle failed to run: rc=%d %s" % (rc2, err2[-300:]), {"obligation": "oracle run"},
                          found_input=False)
            return result
        for l, a, b in zip(lines, impl, mod):
            if a != b:
                mismatches.append((l, a, b))
        ctx.cov["traces_validated_against_impl"] = ctx.cov.get("traces_validated_against_impl", 0) + len(lines)
        ctx.log("ReplayModel ran %d histories, %d mismatches" % (len(lines), len(mismatches)))
        if not getattr(ctx, "replay", None):
            crosscheck_extraction(ctx, lines, mod, proved)
    else:
        ctx.violation("replay oracle does not build", {"obligation": "oracle build", "notes": ctx.notes[-1:]},
                      found_input=False)
    # allocation faults (implementation only: the model's memory is unbounded).  Whatever allocation fails inside an insert,
    # "inserted" (0) is answered at most once per credential: a 0 means the record EXISTS, the next presentation gets 1
    if not getattr(ctx, "replay", None):
        mlines = []
        for size in (0, 3):
            for skip in range(0, 4):
                mlines.append("Q %d aa11223344556677889900aabbccddee:1000:50,bb11223344556677889900aabbccddee:1000:50 t1000,m%d,i0,i0,i0,i1,i1" % (size, skip))
            # ... also when the table already holds so many records that its node pool has to grow (1024 nodes per block)
            keys = ",".join("%032x:1000:500" % (0x1000 + k * 7919) for k in range(1100))
            ops = "t1000," + ",".join("i%d" % k for k in range(1020)) + "".join(",m0,i%d,i%d" % (k, k) for k in range(1020, 1030))
            mlines.append("Q %d %s %s" % (size, keys, ops))
        rcm, implm, stderrm = vlib.run_lines([exe], mlines, timeout=600)
        dist["alloc-fault"] = len(mlines)
        if rcm != 0 or len(implm) != len(mlines):
            idx = min(len(implm), len(mlines) - 1)
            ctx.violation("replay.c/hash.c abort under ASan/UBSan/LSan when an allocation fails, at or after history #%d" % idx,
                          {"case_line": mlines[idx][:3000], "stderr": stderrm[-3000:], "rc": rcm})
            return result
        for l, o in zip(mlines, implm):
            ctx.count(l[:200])
            ops_ = l.split(" ")[3].split(",")
            res_ = [x.split("/")[0] for x in o[2:].split("|")]
            seen0 = {}
            for op_, r_ in zip(ops_, res_):
                if op_[0] != "i":
                    continue
                if r_ == "0":
                    if seen0.get(op_):
                        direct.append((l, o, ("insert-dup-nomem", "a credential was answered 'inserted' (replay_insert returned 0) TWICE (%s, results %s): the "
                                                                  "first 0 was given although an allocation had failed and nothing was recorded"
                                                                  % (op_, [y for x, y in zip(ops_, res_) if x == op_]))))
                        break
                    seen0[op_] = True
    result["direct_fail"], result["mismatches"] = direct, mismatches
    if direct:
        l, o, why = direct[0]
        ctx.violation("%s [%s] (%d failing histories of %d)" % (why[1], why[0], len(direct), len(lines)),
                      {"case_line": l, "impl_output": o[:2000], "why": why[1], "kind": why[0],
                       "n_failing": len(direct), "more": [(x[0][:300], x[2][1]) for x in direct[1:4]]})
    elif other:
        # the sibling property fails on a concrete history; for this one it is a correspondence break
        l, o, why = other[0]
        ctx.violation("correspondence ReplayModel ~ replay.c+hash.c broken: the sibling property fails on a concrete "
                      "history (%s [%s]); no clause of %s fails on the %d histories, but the model its theorems are about "
                      "no longer describes the code" % (why[1], why[0], prop, len(lines)),
                      {"obligation": "correspondence ReplayModel ~ replay.c+hash.c", "case_line": l,
                       "impl_output": o[:2000], "why": why[1], "kind": why[0]}, found_input=False)
    elif mismatches:
        l, a, b = mismatches[0]
        ctx.violation("ReplayModel and replay.c/hash.c disagree on %d histories (e.g. chain order / slot / count) although "
                      "the property evaluated directly holds on all %d" % (len(mismatches), len(lines)),
                      {"obligation": "correspondence ReplayModel ~ replay.c+hash.c", "case_line": l,
                       "impl": a[:2000], "model": b[:2000]}, found_input=False)
    result["ok"] = not (direct or other or mismatches)
    return result
