"""C20 — keys: exact size, private, never overwritten; HKDF per RFC 5869; whole-file keying."""
import random
import hashlib, hmac as pyhmac, json, os, re, shutil, stat, struct, subprocess, threading
from concurrent.futures import ThreadPoolExecutor
import vlib

MANIFEST = dict(
    level=("proof", "Fifteen Coq theorems (closed under the global context) over executable models of hkdf.c, "
           "mungekey/conf.c+key.c and munged/conf.c create_subkeys: hkdf.c's extract/expand loop (uint8 counter, MIN "
           "copy, 255-round stop, absent salt) equals an independent RFC 5869 transcription for every hmac with fixed "
           "positive output length, key, salt, info and L <= 255*HashLen with exactly L bytes out (and returns 255 "
           "blocks with success beyond, where the RFC has no output); --bits accepted exactly for 256..8192 giving "
           "(bits+7)/8 in [32,1024]; end-to-end key file = RFC 5869 output of the kernel bytes, exact length, mode "
           "0600&~umask without group/other bits for every umask (512-sweep and all N), created exclusively, other "
           "names untouched; existing path without --force => error and unchanged file system; --force => unlink "
           "first, exclusive create, no residue; create_subkeys = (H(file++\"1\"), H(file++\"2\")) for any read() "
           "chunking, refusal below 32 bytes, differing files => differing digest inputs, equal subkeys => explicit "
           "digest collision.  Constants, open flags/mode, unlink order, HKDF digest/IKM/salt/info come from a probe "
           "that runs key.c with its syscalls interposed.  Tied to the code by: hkdf() vs extracted model over "
           "libgcrypt vs Python hmac on aimed+random inputs for all five digests and the seven RFC 5869 vectors; the "
           "real mungekey (rebuilt from /repo) under all 512 umasks, --bits values, existing targets (regular, hard "
           "link, symlink) with/without --force; a mungekey relinked with --wrap=getrandom,entropy_read_uint whose "
           "file must equal HKDF of the known bytes; munged's own create_subkeys on key files differing in one byte.",
           "7 C20"),
    note="Trusted: Coq kernel+vm_compute, keys probe, extraction (ExtrOcamlBasic), libgcrypt stubs, harness/driver "
         "glue.  Premises (visible in the theorems): |hmac k d| = hash_len > 0; streaming digest update is "
         "concatenation.  Different key files => different subkeys rests on SHA-1 collision resistance (stated as a "
         "reduction, not assumed).  The two-live-daemon cross-acceptance test is left to the live-daemon rig; the C "
         "code is modelled and differentially tested, not verified.",
    technique="Coq proof (loop invariant, finite sweep, bitwise lemma) + syscall-interposing probe for facts + "
              "differential correspondence on hkdf(), real mungekey runs, wrapped-entropy mungekey, create_subkeys harness")

MD = {2: "md5", 3: "sha1", 4: "ripemd160", 5: "sha256", 6: "sha512"}
SAN_ENV = {"ASAN_OPTIONS": "detect_leaks=0:abort_on_error=0:exitcode=99", "UBSAN_OPTIONS": "print_stacktrace=1"}

# RFC 5869 Appendix A: (md, ikm, salt or None, info, L, okm)
RFC_VECTORS = [
    (5, "0b" * 22, "000102030405060708090a0b0c", "f0f1f2f3f4f5f6f7f8f9", 42,
     "3cb25f25faacd57a90434f64d0362f2a2d2d0a90cf1a5a4c5db02d56ecc4c5bf34007208d5b887185865"),
    (5, bytes(range(0x00, 0x50)).hex(), bytes(range(0x60, 0xb0)).hex(), bytes(range(0xb0, 0x100)).hex(), 82,
     "b11e398dc80327a1c8e7f78c596a49344f012eda2d4efad8a050cc4c19afa97c59045a99cac7827271cb41c65e590e09"
     "da3275600c2f09b8367793a9aca3db71cc30c58179ec3e87c14c01d5c1f3434f1d87"),
    (5, "0b" * 22, "-", "-", 42,
     "8da4e775a563c18f715f802a063c5a31b8a11f5c5ee1879ec3454e5f3c738d2d9d201395faa4b61a96c8"),
    (3, "0b" * 11, "000102030405060708090a0b0c", "f0f1f2f3f4f5f6f7f8f9", 42,
     "085a01ea1b10f36933068b56efa5ad81a4f14b822f5b091568a9cdd4f155fda2c22e422478d305f3f896"),
    (3, bytes(range(0x00, 0x50)).hex(), bytes(range(0x60, 0xb0)).hex(), bytes(range(0xb0, 0x100)).hex(), 82,
     "0bd770a74d1160f7c9f12cd5912a06ebff6adcae899d92191fe4305673ba2ffe8fa3f1a4e5ad79f3f334b3b202b2173c"
     "486ea37ce3d397ed034c7f9dfeb15c5e927336d0441f4c4300e2cff0d0900b52d3b4"),
    (3, "0b" * 22, "-", "-", 42,
     "0ac1af7002b3d761d1e55298da9d0506b9ae52057220a306e07b6b87e8df21d0ea00033de03984d34918"),
    (3, "0c" * 22, "*", "-", 42,
     "2c91117204d745f3500d636a62f64f0ab3bae548aa53d423b0d1f27ebba6f5e5673a081d70cce7acfc48"),
]


# ---------------------------------------------------------------------------
# independent references (the property itself, not the Coq model)
# ---------------------------------------------------------------------------
def hkdf_ref(md, ikm, salt, info, L):
    """RFC 5869 section 2 with Python's hmac; None when L > 255*HashLen."""
    name = MD[md]
    hl = hashlib.new(name).digest_size
    if L > 255 * hl:
        return None
    prk = pyhmac.new(salt if salt is not None else bytes(hl), ikm, name).digest()
    t, okm, i = b"", b"", 0
    while len(okm) < L:
        i += 1
        t = pyhmac.new(prk, t + info + bytes([i]), name).digest()
        okm += t
    return okm[:L]


def strtol_full(s):
    """value of a string that strtol(…,10) consumes entirely, else None"""
    m = re.fullmatch(r"[ \t\n\v\f\r]*([+-]?[0-9]+)", s)
    return int(m.group(1)) if m else None


def unh(h):
    return b"" if h == "-" else bytes.fromhex(h)


def am_sources(subdir, var, drop=()):
    """the .c files of an automake _SOURCES variable, so that a file added to the program is compiled here too"""
    d = os.path.join(vlib.REPO, "src", subdir)
    out = []
    try:
        txt = open(os.path.join(d, "Makefile.am")).read()
        m = re.search(r"^%s\s*=\s*\\\n((?:.*\\\n)*)" % re.escape(var), txt, re.M)
        for tok in re.findall(r"(\S+\.c)\b", m.group(1)):
            p = tok.replace("$(top_srcdir)", vlib.REPO)
            if not p.startswith("/"):
                p = os.path.join(d, p)
            if os.path.basename(p) not in drop and os.path.exists(p):
                out.append(p)
    except Exception:
        out = []
    return out


def lib_sources():
    R = vlib.REPO
    lc = sorted(os.path.join(R, "src/libcommon", f) for f in os.listdir(os.path.join(R, "src/libcommon")) if f.endswith(".c"))
    return lc + [os.path.join(R, "src/libmissing", f) for f in ("strlcpy.c", "strlcat.c")] \
              + [os.path.join(R, "src/libmunge", f) for f in ("strerror.c", "enum.c")]


def read_facts():
    txt = open(os.path.join(vlib.COQ, "gen", "GenKeys.v")).read()
    f = {}
    m = re.search(r"\(\* info_prefix_str=(.*) info_suffix_str=(.*) \*\)", txt)
    f["prefix"], f["suffix"] = (m.group(1), m.group(2)) if m else ("MUNGEKEY:sha256:", ":")
    for k in ("key_hkdf_md", "key_ikm_len", "key_salt_len", "key_len_dfl_bytes", "key_open_mode"):
        m = re.search(r"Definition %s : N := (\d+)\." % k, txt)
        f[k] = int(m.group(1)) if m else None
    return f


# ---------------------------------------------------------------------------
# case generation
# ---------------------------------------------------------------------------
def rb(rng, n):
    return bytes(rng.getrandbits(8) for _ in range(n))


def gen_hkdf(ctx):
    rng = ctx.rng
    cases = []
    for (md, ikm, salt, info, L, okm) in RFC_VECTORS:
        cases.append("H %d %s %s %s %d" % (md, ikm, salt, info, L))
    for md, name in MD.items():
        hl = hashlib.new(name).digest_size
        Ls = [0, 1, hl - 1, hl, hl + 1, 2 * hl, 2 * hl + 1, 254 * hl + 1, 255 * hl - 1, 255 * hl, 255 * hl + 1, 256 * hl + 3]
        salts = ["*", "-", bytes(hl).hex(), rb(rng, 4).hex(), rb(rng, hl).hex(), rb(rng, 64).hex(), rb(rng, 65).hex(), rb(rng, 200).hex()]
        infos = ["*", "-", rb(rng, 1).hex(), b"MUNGEKEY:sha256:1024:".hex(), rb(rng, 80).hex(), rb(rng, 1024).hex()]
        ikms = ["-", rb(rng, 1).hex(), rb(rng, 22).hex(), rb(rng, 64).hex(), rb(rng, 65).hex(), rb(rng, 256).hex()]
        # every L with a few aimed combinations; every salt/info/ikm form at two lengths
        for L in Ls:
            cases.append("H %d %s %s %s %d" % (md, ikms[2], salts[4], infos[3], L))
            cases.append("H %d %s %s %s %d" % (md, ikms[5], "*", "-", L))
        for s in salts:
            for i in infos:
                cases.append("H %d %s %s %s %d" % (md, rng.choice(ikms), s, i, rng.choice([hl + 1, 3 * hl, 2 * hl - 1])))
        for k in ikms:
            cases.append("H %d %s %s %s %d" % (md, k, rng.choice(salts), rng.choice(infos), 2 * hl + 5))
        cases.append("H %d * %s %s %d" % (md, salts[4], infos[2], hl))          # key never set -> EINVAL
        cases.append("H %d * * * 0" % md)
        nrand = 600 if ctx.thorough else 120
        for _ in range(nrand):
            L = rng.choice([rng.randrange(0, 4 * hl), rng.randrange(0, 4 * hl), rng.randrange(0, 40 * hl),
                            rng.randrange(250 * hl, 256 * hl + 2) if rng.random() < 0.15 else rng.randrange(0, 300)])
            k = rb(rng, rng.choice([0, 1, 16, 32, 63, 64, 65, 128, 256, rng.randrange(0, 300)])).hex() or "-"
            s = rng.choice(["*", "-", rb(rng, rng.randrange(1, 150)).hex()])
            i = rng.choice(["*", "-", rb(rng, rng.randrange(1, 120)).hex()])
            cases.append("H %d %s %s %s %d" % (md, k, s, i, L))
    return cases


def gen_bits(ctx):
    rng = ctx.rng
    vals = set(list(range(246, 275)) + list(range(8176, 8204)) + [0, 1, 8, 31, 32, 128, 1024, 1025, 4096, 65536, -1, -256,
               2 ** 31 - 1, 2 ** 31, 2 ** 63, -2 ** 63 - 1, 10 ** 30]
               # numbers that are legal sizes only modulo 2^32 / 2^16 / 2^8 (a value narrowed before its range check)
               + [k * 2 ** 32 + v for k in (1, 2, -1, 2 ** 31 - 1) for v in (256, 1024, 8192, 257)]
               + [2 ** 32 + 255, 2 ** 32 + 8193, 2 ** 16 + 256, 2 ** 16 + 1024, 2 ** 15 + 2 ** 16 * 3, 2 ** 31 + 1024, 2 ** 33 + 512, 2 ** 62 + 1024])
    if ctx.thorough:
        vals |= set(range(200, 8260))
    else:
        for _ in range(60):
            v = rng.randrange(256, 8193)
            vals |= {v, (v // 8) * 8, (v // 8) * 8 + 1, (v // 8) * 8 + 7}
    args = [str(v) for v in sorted(vals)]
    args += ["", " 256", "+256", "256 ", "256x", "0x100", "abc", "1e3", "256.0", "٢٥٦", "0256", "00000000000000000000512",
             "\t1000", "- 256", "--256", "8192\n", "\n8192"]
    return [("BITS", a) for a in args]


def gen_umask(ctx):
    return [("UMASK", u) for u in range(512)]


EXIST_EXTRA_OPTS = [[], ["-v"], ["--verbose"], ["-c"], ["--create", "-v"]]
EXIST_VARIANTS = ["reg644", "reg600", "reg400", "empty", "longer", "hardlink", "symlink", "dangling"]


def gen_exist(ctx):
    rng = ctx.rng
    cases = []
    for v in EXIST_VARIANTS:
        for force in (0, 1):
            for i, (u, bits) in enumerate([(0o022, 1024), (0o077, 256), (0, 8192)] + ([(0o777, 257), (0o027, 4096), (0o002, 2048)] if ctx.thorough else [])):
                # the third field is force + 2 * (index into EXIST_EXTRA_OPTS): "unless --force is given" holds whatever ELSE is given
                cases.append(("EXIST", v, force + 2 * ((i + len(v)) % len(EXIST_EXTRA_OPTS)), u, bits))
    for _ in range(40 if ctx.thorough else 8):
        cases.append(("EXIST", rng.choice(EXIST_VARIANTS), rng.randrange(2 * len(EXIST_EXTRA_OPTS)), rng.randrange(512), rng.randrange(256, 8193)))
    # absent target with --force (unlink -> ENOENT must be ignored)
    cases.append(("EXIST", "absent", 1, 0o022, 1024))
    cases.append(("EXIST", "absent", 0, 0o022, 1024))
    return cases


def gen_wrap(ctx):
    rng = ctx.rng
    cases = []
    for bits in [256, 257, 1024, 8192, 8185] + [rng.randrange(256, 8193) for _ in range(400 if ctx.thorough else 15)]:
        ikm = rng.choice([rb(rng, 256), rb(rng, 256), bytes(256), bytes([0xff]) * 256, rb(rng, 7) * 40])[:256]
        salt = rng.choice([0, 1, 0xffffffff, 0x01020304, rng.getrandbits(32)])
        cases.append(("WRAP", ikm.hex(), "%08x" % salt, bits))
    return cases


def gen_keys(ctx):
    rng = ctx.rng
    lens = [31, 32, 33, 1024, 8192, 0, 1, 1023, 1025, 2048, 4096, 8191] + ([2047, 2049, 3072, 5000, 8190, 16384] if ctx.thorough else [])
    offs = [0, 31, 32, 1023, 1024, 1025, 4096, 8191]
    cases, pairs = [], []
    for n in lens:
        base = rb(rng, n)
        bi = len(cases)
        cases.append(("KEY", base.hex() or "-"))
        cases.append(("KEY", base.hex() or "-"))              # identical copy under another name
        pairs.append((bi, bi + 1, True))
        for o in offs + [rng.randrange(max(n, 1)) for _ in range(4 if ctx.thorough else 1)] + [n - 1]:
            if 0 <= o < n:
                x = bytearray(base)
                x[o] ^= rng.choice([1, 0x80, rng.randrange(1, 256)])
                pairs.append((bi, len(cases), False))
                cases.append(("KEY", bytes(x).hex()))
        # one byte more / one byte less
        pairs.append((bi, len(cases), False)); cases.append(("KEY", (base + rb(rng, 1)).hex()))
        if n:
            pairs.append((bi, len(cases), False)); cases.append(("KEY", base[:-1].hex() or "-"))
    # the suffix bytes themselves at the end of the file
    k = rb(rng, 40)
    for suf in (b"1", b"2", b"12", b"21"):
        cases.append(("KEY", (k + suf).hex()))
    return cases, pairs


def case_line(c):
    if isinstance(c, str):
        return c
    if c[0] == "BITS":
        return "BITS " + json.dumps(c[1])
    if c[0] == "UMASK":
        return "UMASK %o" % c[1]
    if c[0] == "EXIST":
        return "EXIST %s %d %o %d" % (c[1], c[2], c[3], c[4])
    if c[0] == "WRAP":
        return "WRAP %s %s %d" % (c[1], c[2], c[3])
    if c[0] == "KEY":
        return "KEY " + c[1]
    if c[0] == "FSIZE":
        return "FSIZE %s %s %s" % (c[1], c[2], c[3])
    if c[0] == "NOGETRANDOM":
        return "NOGETRANDOM " + " ".join(c[1:])
    if c[0] == "STDCLOSED":
        return "STDCLOSED %s %s %s" % (c[1], c[2], c[3])
    return repr(c)


def parse_case(l):
    f = l.split(" ", 1)
    if f[0] == "H":
        return l
    if f[0] == "BITS":
        return ("BITS", json.loads(f[1]))
    if f[0] == "UMASK":
        return ("UMASK", int(f[1], 8))
    if f[0] == "EXIST":
        g = f[1].split()
        return ("EXIST", g[0], int(g[1]), int(g[2], 8), int(g[3]))
    if f[0] == "WRAP":
        g = f[1].split()
        return ("WRAP", g[0], g[1], int(g[2]))
    if f[0] == "KEY":
        return ("KEY", f[1])
    if f[0] == "FSIZE":
        g = f[1].split()
        return ("FSIZE", g[0], g[1], g[2])
    if f[0] == "NOGETRANDOM":
        g = f[1].split()
        return ("NOGETRANDOM",) + tuple(g)
    if f[0] == "STDCLOSED":
        g = f[1].split()
        return ("STDCLOSED", g[0], g[1], g[2])
    raise ValueError("unknown case line " + l[:40])


# ---------------------------------------------------------------------------
# running the real mungekey
# ---------------------------------------------------------------------------
class Runner:
    def __init__(self, ctx, mk, mkw):
        self.ctx, self.mk, self.mkw = ctx, mk, mkw
        self.n = 0
        self.lock = threading.Lock()

    def fresh(self):
        with self.lock:
            self.n += 1
            d = os.path.join(self.ctx.tmp, "run%d" % self.n)
        os.mkdir(d, 0o700)
        return d

    def run(self, exe, args, umask=0o022, env=None):
        e = dict(os.environ); e.update(SAN_ENV)
        if env:
            e.update(env)
        try:
            r = subprocess.run([exe] + args, capture_output=True, text=True, timeout=60, env=e, umask=umask,
                               errors="replace")
            return r.returncode, r.stderr[-600:]
        except subprocess.TimeoutExpired:
            return 124, "timeout"


def snap(p):
    """(kind, mode, ino, nlink, content|link target) of a name, without following symlinks"""
    try:
        st = os.lstat(p)
    except FileNotFoundError:
        return None
    if stat.S_ISLNK(st.st_mode):
        return ("lnk", stat.S_IMODE(st.st_mode), st.st_ino, st.st_nlink, os.readlink(p))
    if stat.S_ISREG(st.st_mode):
        return ("reg", stat.S_IMODE(st.st_mode), st.st_ino, st.st_nlink, open(p, "rb").read())
    return ("other", stat.S_IMODE(st.st_mode), st.st_ino, st.st_nlink, None)


def do_fsize(rn, c):
    """the key write completes only partially (file-size limit below the key size, SIGXFSZ ignored or default): mungekey may
    fail, but it may not report success unless the key file has exactly the requested size"""
    bits, lim, ign = int(c[1]), int(c[2]), c[3] == "1"
    d = rn.fresh()
    p = os.path.join(d, "k")

    def pre():
        import resource, signal as _sg
        resource.setrlimit(resource.RLIMIT_FSIZE, (lim, lim))
        if ign:
            _sg.signal(_sg.SIGXFSZ, _sg.SIG_IGN)
    e = dict(os.environ); e.update(SAN_ENV)
    # sanitizer logs would hit the same file-size limit: keep them on stderr
    e["ASAN_OPTIONS"] = "detect_leaks=0:exitcode=99"
    try:
        r = subprocess.run([rn.mk, "--keyfile=" + p, "--bits=%d" % bits], capture_output=True, text=True, timeout=60, env=e,
                           preexec_fn=pre, errors="replace")
        rc, err = r.returncode, r.stderr[-400:]
    except subprocess.TimeoutExpired:
        rc, err = 124, "timeout"
    s = snap(p)
    size = len(s[4]) if s and s[4] is not None else None
    obs = {"rc": rc, "size": size, "limit": lim, "stderr": err[-200:]}
    shutil.rmtree(d, True)
    want = (bits + 7) // 8
    why = None
    if rc == 0 and size != want:
        why = ("mungekey reports success for --bits=%d although the key file holds %s bytes, not %d (write cut short by a %d-byte "
               "file-size limit)" % (bits, size, want, lim))
    elif rc == 124:
        why = "mungekey hangs when the key write is cut short"
    elif lim >= want and rc != 0 and not san_abort(rc, err):
        why = "mungekey fails although the file-size limit (%d) admits the %d-byte key: %s" % (lim, want, err[-100:])
    return obs, why, None


def do_nogetrandom(rn, c):
    """getrandom()/getentropy() unavailable (ENOSYS): a key may only be written from the OTHER kernel source; two runs with the same
    salt must then give different keys of the requested size (a key that does not change between runs is not made of kernel
    entropy), or mungekey must fail"""
    bits, salth = int(c[1]), c[2]
    keys, obs = [], []
    for k in range(2):
        d = rn.fresh()
        p = os.path.join(d, "k")
        tr = os.path.join(d, "trace")
        eof = len(c) > 3 and c[3] == "eof"
        inj = ["-P", "/dev/urandom", "-P", "/dev/random", "-e", "inject=read:retval=0"] if eof else []
        rc, err = rn.run("strace", ["-f", "-o", tr, "-e", "trace=openat,open,read"] + inj + [rn.mkw, "-k", p, "-b", str(bits)],
                         env={"C20_IKM": "00", "C20_SALT": salth, "C20_GETRANDOM_FAIL": "1", "C20_LOG": os.path.join(d, "log")})
        s = snap(p)
        trace = open(tr, errors="replace").read() if os.path.exists(tr) else ""
        fds = re.findall(r'open(?:at)?\([^\n]*"/dev/u?random"[^\n]*\) = (\d+)', trace)
        got_bytes = sum(int(n) for fd in fds for n in re.findall(r"read\(%s, [^\n]*\) = (\d+)" % fd, trace))
        shutil.rmtree(d, True)
        if eof and (rc == 0 or s is not None):
            return {"runs": obs + [{"rc": rc, "kernel_random_bytes_read": got_bytes}]}, (
                "getrandom() unavailable (ENOSYS) and every read of the kernel's random device returns 0 bytes: mungekey %s and left %s - a key "
                "written then holds no kernel entropy" % ("reports success" if rc == 0 else "fails (rc %d)" % rc,
                                                          "a %s-byte key file" % (len(s[4]) if s and s[4] is not None else "?") if s is not None else "no file")), None
        if rc == 0 and got_bytes == 0:
            obs.append({"rc": rc, "kernel_random_bytes_read": got_bytes})
            return {"runs": obs}, ("getrandom() unavailable (ENOSYS): mungekey reports success and wrote a %s-byte key without reading a single byte "
                                   "from the kernel's random device: the key is not produced from kernel entropy"
                                   % (len(s[4]) if s and s[4] is not None else "?")), None
        obs.append({"rc": rc, "size": len(s[4]) if s and s[4] is not None else None, "stderr": err[-160:]})
        if san_abort(rc, err):
            return {"runs": obs}, "mungekey aborts under ASan/UBSan when getrandom() is unavailable", None
        if rc == 0:
            if s is None or s[0] != "reg" or len(s[4]) != (bits + 7) // 8:
                return {"runs": obs}, "getrandom() unavailable: mungekey reports success but the key file holds %s bytes, requested %d" % (obs[-1]["size"], (bits + 7) // 8), None
            keys.append(s[4])
    why = None
    if len(keys) == 2 and keys[0] == keys[1]:
        why = ("getrandom() unavailable (ENOSYS): two runs wrote the SAME %d-byte key %s...: the key is not derived from kernel entropy "
               "(the fall-back source was not read)" % (len(keys[0]), keys[0][:8].hex()))
    return {"runs": obs}, why, None


def do_stdclosed(rn, c):
    """mungekey started with standard descriptors CLOSED (a cron job or service manager may do that): the key file then gets a low
    descriptor number; whatever mungekey reports while it works (here: the warnings about an unavailable getrandom()) must not
    end up in the key"""
    bits, which = int(c[1]), c[2]
    d = rn.fresh()
    p = os.path.join(d, "k")
    e = dict(os.environ); e.update(SAN_ENV)
    e.update({"C20_IKM": "00", "C20_SALT": "01020304", "C20_GETRANDOM_FAIL": "1", "C20_LOG": os.path.join(d, "log")})

    def pre():
        for ch in which:
            try:
                os.close(int(ch))
            except OSError:
                pass
    args = [rn.mkw, "-k", p, "-b", str(bits)] + (["-v"] if c[3] == "v" else [])
    try:
        r = subprocess.run(args, env=e, preexec_fn=pre, timeout=60, stdin=subprocess.DEVNULL, stdout=subprocess.DEVNULL, stderr=subprocess.DEVNULL)
        rc = r.returncode
    except subprocess.TimeoutExpired:
        rc = 124
    s = snap(p)
    shutil.rmtree(d, True)
    n = (bits + 7) // 8
    obs = {"rc": rc, "size": len(s[4]) if s and s[4] is not None else None, "mode": ("%o" % s[1]) if s else None,
           "head": (s[4][:60].decode(errors="replace") if s and s[4] else None)}
    why = None
    if rc == 0 and (s is None or s[0] != "reg" or len(s[4]) != n):
        why = ("mungekey started with descriptor(s) %s closed and getrandom() unavailable reports success but the key file holds %s bytes, "
               "requested %d (it begins %r: a diagnostic was written into the key)" % (",".join(which), obs["size"], n, obs["head"]))
    elif rc == 0 and s[1] & 0o077:
        why = "key file mode %04o grants group/other permissions (descriptors %s closed)" % (s[1], which)
    return obs, why, None


def san_abort(rc, err):
    return rc == 99 or rc < 0 or "AddressSanitizer" in err or "runtime error" in err


def do_bits(rn, c):
    """-> (observation dict, why-or-None, oracle line or None, expected oracle answer check fn)"""
    arg = c[1]
    d = rn.fresh()
    p = os.path.join(d, "k")
    rc, err = rn.run(rn.mk, ["--keyfile=" + p, "--bits=" + arg])
    s = snap(p)
    obs = {"rc": rc, "file": None if s is None else (s[0], "%o" % s[1], len(s[4]) if s[4] is not None else -1), "stderr": err[-200:]}
    shutil.rmtree(d, True)
    why = None
    if "\0" in arg:
        return obs, None, None
    v = strtol_full(arg)
    accept = v is not None and 256 <= v <= 8192
    if san_abort(rc, err):
        why = "mungekey aborts under ASan/UBSan"
    elif accept:
        if rc != 0 or s is None:
            why = "--bits=%r (a value in 256..8192) is refused" % arg
        elif s[0] != "reg" or len(s[4]) != (v + 7) // 8:
            why = "--bits=%r wrote %d bytes, requested size is %d bytes" % (arg, len(s[4] or b""), (v + 7) // 8)
        elif not (32 <= len(s[4]) <= 1024):
            why = "key size outside [32,1024] bytes"
    else:
        if rc == 0:
            why = "--bits=%r (outside 256..8192 or not a number) is accepted, %s bytes written" % (
                arg, "no" if s is None else len(s[4] or b""))
        elif s is not None:
            why = "rejected --bits=%r still created a key file" % arg
    oline = None
    if v is not None and abs(v) < 2 ** 31:
        oline = ("B %d" % v, "B 0 %d" % len(s[4]) if (rc == 0 and s and s[0] == "reg") else "B 1 0")
    return obs, why, oline


def do_umask(rn, c, dfl):
    u = c[1]
    d = rn.fresh()
    p = os.path.join(d, "k")
    rc, err = rn.run(rn.mk, ["-k", p], umask=u)
    s = snap(p)
    shutil.rmtree(d, True)
    obs = {"rc": rc, "file": None if s is None else (s[0], "%o" % s[1], len(s[4] or b"")), "stderr": err[-200:]}
    why = None
    if san_abort(rc, err):
        why = "mungekey aborts under ASan/UBSan"
    elif rc != 0 or s is None or s[0] != "reg":
        why = "mungekey fails to create a key under umask %04o" % u
    elif s[1] & 0o077:
        why = "key file mode %04o grants group/other permissions under umask %04o" % (s[1], u)
    elif s[1] & 0o7000:
        why = "key file mode %04o has setuid/setgid/sticky bits" % s[1]
    elif dfl is not None and len(s[4]) != dfl:
        why = "default key is %d bytes, expected %d" % (len(s[4]), dfl)
    oline = None
    if rc == 0 and s and s[0] == "reg":
        oline = ("C * - 0 %d %s" % (u, s[4].hex() or "-"), "C 0 %d %s" % (s[1], s[4].hex() or "-"))
    return obs, why, oline


def do_exist(rn, c):
    _, variant, force, u, bits = c
    extra_opts = EXIST_EXTRA_OPTS[(force >> 1) % len(EXIST_EXTRA_OPTS)]
    force &= 1
    d = rn.fresh()
    p = os.path.join(d, "k")
    side = None
    old = os.urandom(2000 if variant == "longer" else 64)
    if variant in ("reg644", "reg600", "reg400", "longer", "hardlink", "empty"):
        if variant == "empty":
            old = b""
        open(p, "wb").write(old)
        os.chmod(p, {"reg644": 0o644, "reg600": 0o600, "reg400": 0o400}.get(variant, 0o640))
        if variant == "hardlink":
            side = os.path.join(d, "other")
            os.link(p, side)
    elif variant == "symlink":
        side = os.path.join(d, "target")
        open(side, "wb").write(old)
        os.chmod(side, 0o644)
        os.symlink(side, p)
    elif variant == "dangling":
        os.symlink(os.path.join(d, "nowhere"), p)
    before, before_side = snap(p), (snap(side) if side else None)
    names_before = sorted(os.listdir(d))
    args = extra_opts + ["-k", p, "-b", str(bits)] + (["-f"] if force else [])
    rc, err = rn.run(rn.mk, args, umask=u)
    after, after_side = snap(p), (snap(side) if side else None)
    names_after = sorted(os.listdir(d))
    nowhere = snap(os.path.join(d, "nowhere"))
    shutil.rmtree(d, True)
    n = (bits + 7) // 8
    obs = {"rc": rc, "options": " ".join(extra_opts + (["-f"] if force else [])), "before": before and (before[0], "%o" % before[1], before[3]), "after": after and (after[0], "%o" % after[1], after[3], len(after[4] or b"")),
           "stderr": err[-200:]}
    why = None
    if san_abort(rc, err):
        why = "mungekey aborts under ASan/UBSan"
    elif before is not None and not force:
        if rc == 0:
            why = "existing %s target: mungekey %s(no --force) reports success" % (variant, " ".join(extra_opts) + " " if extra_opts else "")
        elif after != before:
            why = "existing %s target was modified without --force" % variant
        elif side and after_side != before_side:
            why = "file behind the existing %s target was modified without --force" % variant
        elif nowhere is not None or names_after != names_before:
            why = "mungekey without --force created a file through a dangling symlink"
    else:
        if rc != 0 or after is None:
            why = "mungekey %s fails on %s target" % ("--force" if force else "", variant)
        elif after[0] != "reg":
            why = "key path is not a regular file after creation (%s)" % after[0]
        elif len(after[4]) != n:
            why = "key file holds %d bytes, requested %d (residue of the old file?)" % (len(after[4]), n)
        elif after[1] & 0o077:
            why = "key file mode %04o grants group/other permissions (umask %04o, old file %s)" % (after[1], u, variant)
        elif side and after_side != (before_side[:3] + (1,) + before_side[4:] if variant == "hardlink" else before_side):
            why = "--force wrote through to the old file's other name / symlink target instead of replacing the name"
        elif nowhere is not None:
            why = "--force created the key through a dangling symlink"
        elif before is not None and before[0] == "reg" and before[4] and after[4] == before[4][:n]:
            why = "--force left the old content in place"
    oline = None
    if variant in ("reg644", "reg600", "reg400", "longer", "empty", "absent"):
        sec = after[4].hex() if (rc == 0 and after and after[0] == "reg" and after[4]) else "00" * n
        om, od = ("*", "-") if before is None else (str(before[1]), before[4].hex() or "-")
        if after is None:
            got = "C %d * *" % (0 if rc == 0 else 1)
        else:
            got = "C %d %d %s" % (0 if rc == 0 else 1, after[1], (after[4] or b"").hex() or "-")
        oline = ("C %s %s %d %d %s" % (om, od, force, u, sec), got)
    return obs, why, oline


def do_wrap(rn, c, facts):
    _, ikmh, salth, bits = c
    d = rn.fresh()
    p, log = os.path.join(d, "k"), os.path.join(d, "log")
    rc, err = rn.run(rn.mkw, ["-k", p, "-b", str(bits)], env={"C20_IKM": ikmh, "C20_SALT": salth, "C20_LOG": log})
    s = snap(p)
    calls = open(log).read().split("\n") if os.path.exists(log) else []
    shutil.rmtree(d, True)
    n = (bits + 7) // 8
    obs = {"rc": rc, "calls": calls[:6], "key": (s[4].hex() if s and s[4] is not None else None), "stderr": err[-200:]}
    why = None
    ikm = bytes.fromhex(ikmh)
    salt = struct.pack("=I", int(salth, 16))
    info = (facts["prefix"] + str(n * 8) + facts["suffix"]).encode()
    md = facts["key_hkdf_md"] if facts["key_hkdf_md"] in MD else 5
    kern = [x for x in calls if x.startswith("getrandom ") or x.startswith("getentropy ")]
    if san_abort(rc, err):
        why = "mungekey aborts under ASan/UBSan"
    elif rc != 0 or s is None or s[0] != "reg":
        why = "mungekey (entropy interposed) fails to create a key"
    elif not kern:
        why = "mungekey created a key without asking the kernel for entropy (no getrandom/getentropy call)"
    elif len(s[4]) != n:
        why = "key file holds %d bytes, requested %d" % (len(s[4]), n)
    else:
        want = hkdf_ref(md, ikm, salt, info, n)
        if s[4] != want:
            # is it HKDF of the kernel bytes under some other obvious reading (no salt / no info)?  still a violation
            why = "key file is not the RFC 5869 HKDF-%s output of the kernel's bytes (salt=entropy_read_uint, info=%r)" % (MD[md], info.decode())
    oline = ("M %s %s %d" % (ikmh, salt.hex(), n),
             "M 0 %d %s" % (len(s[4]), s[4].hex()) if (rc == 0 and s and s[0] == "reg") else "M 1 0 *")
    return obs, why, oline


# ---------------------------------------------------------------------------
def hkdf_property(line, out):
    f = line.split()
    md, ikm, salt, info, L = int(f[1]), f[2], f[3], f[4], int(f[5])
    o = out.split()
    if len(o) != 4 or o[0] != "H":
        return "malformed harness answer %r" % out[:80]
    if ikm == "*":
        return None if o[1] == "1" else "hkdf() without a key reports success"
    hl = hashlib.new(MD[md]).digest_size
    want = hkdf_ref(md, unh(ikm), None if salt == "*" else unh(salt), b"" if info == "*" else unh(info), L)
    if want is None:
        return None            # beyond 255 blocks: outside the property's bound (model comparison only)
    if o[1] != "0":
        return "hkdf() fails for L=%d <= 255*HashLen" % L
    got = unh(o[3])
    if int(o[2]) != L or len(got) != L:
        return "hkdf() returned %s bytes for L=%d" % (o[2], L)
    if got != want:
        return "hkdf() output differs from RFC 5869 (md=%s, L=%d, salt %s, info %s)" % (
            MD[md], L, "absent" if salt == "*" else "%d bytes" % len(unh(salt)), "absent" if info == "*" else "%d bytes" % len(unh(info)))
    return None


def key_property(hexkey, out):
    k = unh(hexkey)
    o = out.split()
    if len(o) != 4 or o[0] != "K":
        return "malformed harness answer %r" % out[:80]
    if o[1] == "99":
        return "create_subkeys aborts under ASan/UBSan"
    if len(k) < 32:
        return None if o[1] == "1" else "munged accepts a %d-byte key file (minimum is 32)" % len(k)
    if o[1] != "0":
        return "munged refuses a %d-byte key file" % len(k)
    if o[2] != hashlib.sha1(k + b"1").hexdigest() or o[3] != hashlib.sha1(k + b"2").hexdigest():
        return "subkeys of a %d-byte key file are not SHA-1(file||\"1\"), SHA-1(file||\"2\") over the entire file" % len(k)
    return None


def run(ctx):
    ctx.level = "proof"
    proved = vlib.prove(ctx, ["Properties_C20.v"], facts=["keys"])
    ctx.log("proofs:", "ok" if proved else "BROKEN: " + getattr(ctx, "broken_obligation", "?"))
    ctx.cov["rule"] = (
        "proof: Properties_C20.v over HkdfModel/KeyModel with GenKeys.v regenerated from /repo (probe runs key.c with "
        "open/unlink/close and the hkdf setters interposed); correspondence: (H) hkdf() of /repo (ASan, exact-size "
        "dst) vs extracted model over libgcrypt vs Python hmac on RFC 5869 vectors A.1-A.7, all five digests x L in "
        "{0,1,HashLen-1,HashLen,HashLen+1,...,255*HashLen-1,255*HashLen,255*HashLen+1} x salt absent/empty/zeros/short/"
        "block-size+-1/long x info absent/empty/short/long x ikm empty..256, plus random; extracted rfc5869 spec on "
        "the cases <= 40 blocks; (BITS) real mungekey rebuilt from /repo on --bits values around both bounds, every "
        "8k+{0,1,7}, malformed numbers; (UMASK) all 512 umasks; (EXIST) existing regular/empty/longer/hard-linked/"
        "symlinked/dangling targets x --force x umask x size; (WRAP) mungekey relinked with --wrap=getrandom,"
        "getentropy,entropy_read_uint: file must equal HKDF of the known bytes; (KEY) munged's create_subkeys on key "
        "files of length {0,1,31,32,33,1023,1024,1025,2048,4096,8191,8192} with one byte flipped at offsets "
        "{0,31,32,1023,1024,1025,4096,8191,last,random}, one byte appended/removed; non-trivial = every case "
        "(distinct by content)")
    oracle = vlib.build_oracle(ctx, "keys")
    ctx.cov["trusted_base"] += [
        "extract/stubs.c ml_hmac/ml_hash over libgcrypt (the model's hmac and SHA-1; munged/mungekey use OpenSSL)",
        "tools/probes/keys_probe.c (runs key.c with open/unlink/close, hkdf setters and entropy readers interposed)",
        "harness/hkdf_harness.c, subkeys_harness.c, keywrap.c; Python hmac/hashlib as the independent RFC 5869 / SHA-1 reference",
    ]
    ctx.notes.append("mungekey/munged objects are built with -fno-sanitize=shift-base: src/common/rotate.c shifts ~0 "
                     "(a negative int) left, which UBSan flags on every mungekey run; it only stirs the HKDF salt "
                     "(see seeded/fixes/rotate-shift-ub.diff)")
    facts = read_facts()
    R = vlib.REPO
    libs = ["-lcrypto", "-lpthread"]
    lib = lib_sources()
    mk_src = am_sources("mungekey", "mungekey_SOURCES") or (
        [os.path.join(R, "src/mungekey", f) for f in ("mungekey.c", "conf.c", "key.c")]
        + [os.path.join(R, "src/common", f) for f in ("crypto.c", "entropy.c", "hkdf.c", "mac.c", "md.c", "rotate.c", "xsignal.c")])
    md_src = am_sources("munged", "munged_SOURCES", drop=("munged.c",)) or (
        [os.path.join(R, "src/munged", f) for f in sorted(os.listdir(os.path.join(R, "src/munged")))
         if f.endswith(".c") and f != "munged.c" and not f.endswith("_test.c")]
        + [os.path.join(R, "src/common", f) for f in ("crypto.c", "entropy.c", "mac.c", "md.c", "query.c", "rotate.c",
                                                      "xgetgr.c", "xgetpw.c", "xsignal.c")])
    # rotate.c's `~0 << n` is a left shift of a negative int (UBSan shift-base); it only feeds the salt and is
    # reported separately (seeded/fixes/rotate-shift-ub.diff), so that check is switched off for mungekey builds
    noshift = ["-fno-sanitize=shift-base"]
    jobs = {
        "hkdfh": ([os.path.join(vlib.HARNESS, "hkdf_harness.c")] + [os.path.join(R, "src/common", f) for f in ("crypto.c", "hkdf.c", "mac.c", "md.c")] + lib, [], libs),
        "hkdfhf": ([os.path.join(vlib.HARNESS, "hkdf_harness.c"), os.path.join(vlib.HARNESS, "mac_fault.c")]
                   + [os.path.join(R, "src/common", f) for f in ("crypto.c", "hkdf.c", "mac.c", "md.c")] + lib,
                   ["-Wl,--wrap=mac_init,--wrap=mac_update,--wrap=mac_final,--wrap=mac_cleanup"], libs),
        "mungekey": (mk_src + lib, noshift, libs),
        "mungekey_wrapped": (mk_src + lib + [os.path.join(vlib.HARNESS, "keywrap.c")],
                             noshift + ["-Wl,--wrap=getrandom,--wrap=getentropy,--wrap=entropy_read_uint"], libs),
        "subkeysh": ([os.path.join(vlib.HARNESS, "subkeys_harness.c")] + md_src + lib, noshift, libs + ["-lbz2", "-lz", "-lrt"]),
    }
    built = {}
    with ThreadPoolExecutor(5) as ex:
        futs = {k: ex.submit(vlib.cc, ctx, k, v[0], v[1], v[2]) for k, v in jobs.items()}
        for k, f in futs.items():
            built[k] = f.result()
    for k, (exe, err) in built.items():
        if exe is None:
            ctx.violation("%s does not build against /repo: %s" % (k, err[-400:]),
                          {"obligation": "correspondence C20 (build %s)" % k, "stderr": err}, found_input=False)
            return
    ctx.log("oracle + 5 programs built from %s" % R)
    hkf = built["hkdfhf"][0]
    hk, mk, mkw, sk = (built[k][0] for k in ("hkdfh", "mungekey", "mungekey_wrapped", "subkeysh"))
    rn = Runner(ctx, mk, mkw)

    # ---- cases ----
    hcases = gen_hkdf(ctx)
    fsize = [("FSIZE", str(b), str(l), i) for (b, l) in ((256, 0), (256, 31), (256, 32), (1024, 100), (1024, 127), (1024, 128), (2000, 249),
                                                        (8192, 1), (8192, 1000), (8192, 1023), (8192, 1024), (4096, 511)) for i in ("0", "1")]
    nogr = [("NOGETRANDOM", str(b), "%08x" % sl) for b in (256, 1024, 8192) for sl in (0, 0x01020304)]
    # ... and the fall-back device gives nothing either (every read of /dev/urandom or /dev/random returns 0 bytes, as a
    # node with the wrong device numbers in a chroot does): no kernel entropy at all, so no key may be written
    nogr += [("NOGETRANDOM", str(b), "01020304", "eof") for b in (256, 1024)]
    stdc = [("STDCLOSED", str(b), w, v) for b in (256, 1024) for w in ("2", "12", "012", "0") for v in ("-", "v")]
    pcases = gen_bits(ctx) + gen_umask(ctx) + gen_exist(ctx) + gen_wrap(ctx) + fsize + nogr + stdc
    kcases, kpairs = gen_keys(ctx)
    if ctx.replay:
        r = json.load(open(ctx.replay))
        if "case_line" in r:
            c = parse_case(r["case_line"])
            hcases = [c] if isinstance(c, str) else []
            pcases = [c] if not isinstance(c, str) and c[0] != "KEY" else []
            kcases, kpairs = ([c], []) if not isinstance(c, str) and c[0] == "KEY" else ([], [])
    dist = {"H": len(hcases), "KEY": len(kcases)}
    for c in pcases:
        dist[c[0]] = dist.get(c[0], 0) + 1
    ctx.cov["input_distribution"] = dist

    direct_fail, mismatches = [], []
    olines = []          # (case line, oracle input line, implementation's answer in oracle format)

    # ---- (H) hkdf() ----
    if hcases:
        rc, impl, stderr = vlib.run_lines([hk], hcases, timeout=900)
        if rc != 0 or len(impl) != len(hcases):
            idx = min(len(impl), len(hcases) - 1)
            ctx.violation("hkdf() aborts under ASan/UBSan (write beyond the requested length?) at case %s" % hcases[idx][:200],
                          {"case_line": hcases[idx], "stderr": stderr[-3000:], "rc": rc})
            return
        for l, o in zip(hcases, impl):
            ctx.count(l)
            why = hkdf_property(l, o)
            if why:
                direct_fail.append((l, o[:300], why))
            if int(l.split()[1]) in MD:
                olines.append((l, l, o))
        # RFC vectors: the published OKM itself
        for (md, ikm, salt, info, L, okm), o in zip(RFC_VECTORS, impl):
            if not ctx.replay and o.split()[-1] != okm:
                direct_fail.append(("H %d %s %s %s %d" % (md, ikm, salt, info, L), o[:300], "hkdf() fails RFC 5869 Appendix A test vector"))
        # failing MAC-library calls inside hkdf(): an error may be reported, a wrong key may not
        fcases = []
        pool = [l for l in hcases if l.split()[2] != "*" and int(l.split()[5]) > 0 and int(l.split()[1]) in MD]
        frng = random.Random(ctx.seed * 77 + 5)
        for l in frng.sample(pool, min(len(pool), 120 if ctx.thorough else 30)):
            for op in (0, 1, 2, 3):
                for k in ((1, 2, 3, 4, 5, 7) if op == 1 else (1, 2, 3)):
                    fcases.append("HF %d %d %s" % (op, k, l[2:]))
        if fcases and not ctx.replay:
            rcf, implf, stderrf = vlib.run_lines([hkf], fcases, timeout=900)
            if rcf != 0 or len(implf) != len(fcases):
                idx = min(len(implf), len(fcases) - 1)
                ctx.violation("hkdf() aborts under ASan/UBSan when a MAC-library call fails, at case %s" % fcases[idx][:200],
                              {"case_line": fcases[idx], "stderr": stderrf[-3000:], "rc": rcf})
                return
            opn = ("mac_init", "mac_update", "mac_final", "mac_cleanup")
            nf = 0
            for l, o in zip(fcases, implf):
                ctx.count(l)
                f, of = l.split(), o.split()
                if len(of) != 6 or of[0] != "HF":
                    direct_fail.append((l, o[:300], "malformed harness answer"))
                    continue
                fired, plain = of[1] == "1", " ".join(of[2:])
                nf += fired
                hl = "H " + " ".join(f[3:])
                if fired and of[3] == "0" and int(f[1]) != 3:
                    why = hkdf_property(hl, plain)
                    direct_fail.append((l, o[:300], "hkdf() reports success although call #%s of %s inside it failed%s" % (
                        f[2], opn[int(f[1])], ": the key it hands out is NOT the RFC 5869 value (e.g. expanded from a PRK that was never computed)" if why else "")))
                elif of[3] == "0":
                    why = hkdf_property(hl, plain)
                    if why:
                        direct_fail.append((l, o[:300], why + " (with a failing %s)" % opn[int(f[1])]))
            dist["HF"] = len(fcases)
            dist["HF-fired"] = nf
        ctx.log("hkdf(): %d cases, %d property failures" % (len(hcases), len(direct_fail)))
        for l in hcases[:2] + hcases[len(hcases) // 2:len(hcases) // 2 + 1]:
            ctx.sample(l[:200])

    # ---- real mungekey ----
    def one(c):
        if c[0] == "BITS":
            return do_bits(rn, c)
        if c[0] == "UMASK":
            return do_umask(rn, c, facts.get("key_len_dfl_bytes"))
        if c[0] == "EXIST":
            return do_exist(rn, c)
        if c[0] == "FSIZE":
            return do_fsize(rn, c)
        if c[0] == "NOGETRANDOM":
            return do_nogetrandom(rn, c)
        if c[0] == "STDCLOSED":
            return do_stdclosed(rn, c)
        return do_wrap(rn, c, facts)
    if pcases:
        with ThreadPoolExecutor(8) as ex:
            res = list(ex.map(one, pcases))
        nf0 = len(direct_fail)
        for c, (obs, why, oline) in zip(pcases, res):
            l = case_line(c)
            ctx.count(l)
            if why:
                direct_fail.append((l, json.dumps(obs)[:400], why))
            if oline:
                olines.append((l, oline[0], oline[1]))
        ctx.log("mungekey: %d runs, %d property failures" % (len(pcases), len(direct_fail) - nf0))
        for c in pcases[:1] + pcases[-2:]:
            ctx.sample(case_line(c)[:200])

    # ---- (KEY) create_subkeys ----
    if kcases:
        kd = os.path.join(ctx.tmp, "keys")
        os.mkdir(kd, 0o700)
        klines = []
        for i, c in enumerate(kcases):
            p = os.path.join(kd, "k%d" % i)
            with open(p, "wb") as f:
                f.write(unh(c[1]))
            os.chmod(p, 0o600)
            klines.append("K " + p)
        rc, kimpl, kerr = vlib.run_lines([sk], klines, timeout=600, env={"ASAN_OPTIONS": "detect_leaks=0:exitcode=99"})
        if len(kimpl) != len(klines):
            ctx.violation("create_subkeys harness died (rc=%d) after %d of %d key files" % (rc, len(kimpl), len(klines)),
                          {"case_line": case_line(kcases[min(len(kimpl), len(kcases) - 1)])[:40000], "stderr": kerr[-2000:]})
            return
        nf0 = len(direct_fail)
        for c, o in zip(kcases, kimpl):
            l = case_line(c)
            ctx.count(l)
            why = key_property(c[1], o)
            if why:
                direct_fail.append((l, o, why))
            olines.append((l, "K " + c[1], o))
        for (a, b, same) in kpairs:
            oa, ob = kimpl[a].split(), kimpl[b].split()
            if oa[1] != "0" or ob[1] != "0":
                continue
            if same and oa != ob:
                direct_fail.append((case_line(kcases[b]), kimpl[b], "byte-identical key files give different subkeys"))
            if not same and (oa[2] == ob[2] or oa[3] == ob[3]):
                ka, kb = unh(kcases[a][1]), unh(kcases[b][1])
                off = next((i for i in range(min(len(ka), len(kb))) if ka[i] != kb[i]), min(len(ka), len(kb)))
                direct_fail.append((case_line(kcases[b]), kimpl[b],
                                    "key files of %d/%d bytes differing at offset %d give the same subkey: two daemons "
                                    "with different key files would honour each other's credentials" % (len(ka), len(kb), off)))
        ctx.log("create_subkeys: %d key files, %d pairs, %d property failures" % (len(kcases), len(kpairs), len(direct_fail) - nf0))
        ctx.sample("KEY <%d bytes>" % len(unh(kcases[0][1])))
        shutil.rmtree(kd, True)

    # ---- the model on the same cases ----
    if oracle and olines:
        lines = [x[1] for x in olines]
        rc2, mod, err2 = vlib.run_lines([oracle], lines, timeout=1800, env={"OCAMLRUNPARAM": "l=8G"})
        if rc2 != 0 or len(mod) != len(lines):
            ctx.violation("oracle failed to run: rc=%d %s" % (rc2, err2[-300:]), {"obligation": "oracle run"}, found_input=False)
            return
        for (l, ol, want), got in zip(olines, mod):
            if want != got:
                mismatches.append((l, want[:300], got[:300]))
        ctx.cov["traces_validated_against_impl"] = len(lines)
        # the extracted RFC transcription against the extracted code model (theorem instance, <= 40 blocks)
        rl = []
        for (l, ol, want) in olines:
            f = ol.split()
            if f[0] == "H" and f[2] != "*":
                hl = hashlib.new(MD[int(f[1])]).digest_size
                if int(f[5]) <= 40 * hl:
                    rl.append(("R " + ol[2:], "R" + want[1:]))
        if rl:
            rc3, rmod, err3 = vlib.run_lines([oracle], [x[0] for x in rl], timeout=1800, env={"OCAMLRUNPARAM": "l=8G"})
            bad = [(a, w[:200], g[:200]) for (a, w), g in zip(rl, rmod) if w != g]
            ctx.cov["rfc_spec_cases"] = len(rl)
            for (a, w, g) in bad[:3]:
                mismatches.append((a.replace("R ", "H ", 1), w, g))
        ctx.log("model ran %d cases (+%d on the RFC transcription), %d mismatches" % (len(lines), len(rl), len(mismatches)))
        # extraction cross-check inside Coq (primitive-free components)
        samp_b = [ol for (_, ol, _) in olines if ol.startswith("B ")]
        samp_b = samp_b[::max(1, len(samp_b) // 40)][:40]
        exprs = ["match key_num_bytes (Some (%s)%%Z) with Some n => n | None => 999999%%N end" % ol.split()[1] for ol in samp_b]
        sizes = [32, 33, 128, 1000, 1024]
        exprs += ["map b2n (key_info %d%%N)" % n for n in sizes]
        res, e3 = vlib.coq_eval_sample(ctx, "From Coq Require Import List NArith ZArith.\nFrom MV Require Import Bytes KeyModel.\nImport ListNotations.", exprs)
        if res is None or len(res) != len(exprs):
            ctx.notes.append("extraction cross-check could not run: %s" % (e3 or "")[-300:])
            if proved:
                ctx.violation("vm_compute cross-check of extraction failed to run", {"obligation": "extraction cross-check", "err": e3}, found_input=False)
        else:
            rcb, ob, _ = vlib.run_lines([oracle], samp_b + ["I %d" % n for n in sizes])
            bad = 0
            for r, o in zip(res, ob):
                f = o.split()
                if f[0] == "B":
                    want = 999999 if f[1] == "1" else int(f[2])
                    if int(re.findall(r"\d+", r)[0]) != want:
                        bad += 1
                else:
                    if bytes(int(x) for x in re.findall(r"\d+", r.split("]")[0])) != unh(f[1]):
                        bad += 1
            ctx.cov["extraction_crosscheck"] = {"cases": len(exprs), "disagreements": bad}
            if bad:
                ctx.violation("extracted oracle disagrees with vm_compute on %d sample cases" % bad,
                              {"obligation": "extraction cross-check"}, found_input=False)

    # ---- verdict ----
    if direct_fail:
        l, o, why = direct_fail[0]
        ctx.violation("%s: case %s -> %s (%d failing cases)" % (why, l[:160], o[:200], len(direct_fail)),
                      {"case_line": l, "impl_output": o, "why": why, "n_failing": len(direct_fail),
                       "more": [(a[:200], b[:200], c) for (a, b, c) in direct_fail[1:6]],
                       "proof_state": "ok" if proved else "broken: " + getattr(ctx, "broken_obligation", "?")})
    elif mismatches:
        l, a, b = mismatches[0]
        ctx.violation("model and implementation disagree on %d cases (first: %s impl=%s model=%s) but the property "
                      "evaluated directly on the implementation holds on all cases" % (len(mismatches), l[:160], a[:120], b[:120]),
                      {"obligation": "correspondence HkdfModel/KeyModel ~ hkdf.c, key.c, conf.c", "case_line": l, "impl": a, "model": b},
                      found_input=False)
    elif not proved:
        ctx.violation("proof obligation no longer checks: %s" % getattr(ctx, "broken_obligation", "?"),
                      {"obligation": getattr(ctx, "broken_obligation", "?"), "log": ctx.proof_log[-3000:]},
                      found_input=False)
