"""C09 — failure replies carry no credential data; padding and MAC failures look alike."""
import base64, os, struct
import vlib, rig, credcorr, pyref, hostile

MANIFEST = dict(
    level=("proof", "Coq theorems over CredModel.dec_process: for every request, peer, clock, group map, replay state and "
           "whatever the primitives compute, a decode that ends in an error other than expired/rewound/replayed returns "
           "the reset message (no payload, ids = ANY, metadata zero) and leaves the replay state alone; a padding failure and "
           "a MAC mismatch leave the identical message; first error wins. Tied to the code by comparing the complete DEC_RSP "
           "of the live daemon with the extracted model for every error class x credential sample incl. all 256 last-byte "
           "values of the ciphertext, and by evaluating the property directly on the daemon's replies.", "7 C09"),
    note="Trusted: Coq kernel, extraction, rig. Timing side channels are outside a functional model.",
    technique="Coq proof (case analysis over dec_process / frame lemmas) + live differential correspondence")

ANY = 0xFFFFFFFF
SOFT = (15, 16, 17)


def reset_violation(r):
    bad = []
    for k, v in dict(cipher=0, mac=0, zip=0, realm_len=0, ttl=0, addr_len=0, time0=0, time1=0, cred_uid=ANY,
                     cred_gid=ANY, auth_uid=ANY, auth_gid=ANY, data_len=0, data=b"").items():
        if r[k] != v:
            bad.append("%s=%r" % (k, r[k] if k != "data" else r[k][:24]))
    if r.get("trailing"):
        # "carries only an error code and message": bytes after the last field of the reply are daemon memory, not message
        bad.append("%d byte(s) after the end of the reply message%s" % (r["trailing"], (" (%s)" % r["tail"].hex()) if r.get("tail") else ""))
    return bad


def run(ctx):
    ctx.level = "proof"
    proved = vlib.prove(ctx, ["Properties_C09.v"], facts=["cred", "base64", "credsrc", "cfun"])
    ctx.log("proofs:", "ok" if proved else "BROKEN: " + getattr(ctx, "broken_obligation", "?"))
    ctx.cov["rule"] = ("failing decode requests of every error class (armor, version, cipher/MAC/zip codes, each truncated "
                       "outer field, IV/tag/ciphertext bit flips, all 256 values of the last ciphertext byte, duplicated / "
                       "dropped last block, valid MAC with malformed interior, decompression faults, unauthorized client, "
                       "retry > 5, empty request) over cipher x MAC x zip credential samples; complete DEC_RSP compared with the "
                       "extracted model; the property (reset fields; identical replies for padding vs MAC failures) evaluated "
                       "directly. non-trivial = distinct (class, credential bytes)")
    try:
        exe, orc = credcorr.build_all(ctx)
    except RuntimeError as e:
        ctx.violation(str(e), {"obligation": "build"}, found_input=False)
        return
    rng = ctx.rng
    key = bytes(rng.getrandbits(8) for _ in range(40))
    cr = credcorr.CredRig(ctx, exe, orc, key=key, tag="c09")
    if not cr.ok:
        ctx.violation("daemon does not start", {"obligation": "start"}, found_input=False)
        return
    combos = [(4, 5, 0), (2, 3, 3), (5, 6, 2), (0, 5, 0), (3, 2, 0)] + ([(4, 4, 3), (2, 6, 2), (0, 2, 3), (5, 5, 0)] if ctx.thorough else [])
    fails, mism = [], []
    classes = {}
    invalid_replies = {}      # (combo) -> set of raw (error_num, error_str) for decrypt/MAC-stage failures

    def probe(cls, cred, uid=0, gid=0, retry=0, expect_hard=True, group=None):
        d, m, diff = cr.decode_both(cred, uid=uid, gid=gid, retry=retry)
        ctx.count((cls, cred[:64], len(cred)))
        classes[cls] = classes.get(cls, 0) + 1
        if diff:
            mism.append(dict(cr.mismatches[-1], cls=cls))
        if d is None:
            fails.append({"why": "no reply to a failing decode (class %s)" % cls, "cred_hex": cred[:2000].hex()})
            return None
        if d["error_num"] not in (0,) + SOFT:
            bad = reset_violation(d)
            # the error string is part of the reply too: nothing from the credential in it (an unauthorized reply names the
            # CLIENT's own ids and nothing else)
            es = d["error_str"]
            if d["error_num"] == 18:
                if es != "Unauthorized credential for client UID=%d GID=%d" % (uid, gid):
                    bad = list(bad) + ["error string %r (only the refused client's own ids, uid=%d gid=%d, belong there)" % (es, uid, gid)]
            else:
                for secret in ("1234", "5678", "protected interior", "for uid 77 only", "interior-data"):
                    if secret in es:
                        bad = list(bad) + ["error string %r contains %r from the credential" % (es, secret)]
            if bad:
                fails.append({"why": "hard-error reply (error %d %r, class %s) discloses: %s" % (d["error_num"], d["error_str"], cls, ", ".join(bad)),
                              "cred_hex": cred[:2000].hex(), "uid": uid, "gid": gid, "retry": retry})
        elif expect_hard:
            fails.append({"why": "decode of class %s was expected to fail hard but returned error %d" % (cls, d["error_num"]),
                          "cred_hex": cred[:2000].hex()})
        if group is not None:
            invalid_replies.setdefault(group, set()).add((d["error_num"], d["error_str"]))
        return d

    for (c, mc, z) in combos:
        r, diff = cr.encode_both(uid=1234, gid=5678, cipher=c, mac=mc, zip_=z, data=b"protected interior " * 6,
                                 auth_uid=ANY, ttl=300)
        if r is None or r["error_num"] != 0:
            fails.append({"why": "encode failed for %s" % ((c, mc, z),)})
            continue
        cred = r["data"]
        body = hostile.unarmor(cred)
        name = "c%dm%dz%d" % (c, mc, z)
        ivl = {0: 0, 2: 8, 3: 8, 4: 16, 5: 16}[c]
        ml = {2: 16, 3: 20, 4: 20, 5: 32, 6: 64}[mc]
        olen = 5 + ivl
        # header rewrites
        for off, vals in ((0, (0, 2, 4, 255)), (1, (1, 6, 7, 255) + ((0,) if c else (4,))), (2, (0, 1, 7, 255)), (3, (1, 4, 255) + ((0,) if z else (3,)))):
            for v in vals:
                b = bytearray(body); b[off] = v
                probe("hdr/byte%d" % off, pyref.armor(bytes(b)))
        b = bytearray(body); b[4] = 7
        probe("hdr/realm_len", pyref.armor(bytes(b)))
        # truncation inside every outer field and inside the tag
        for k in list(range(0, olen + 1)) + [olen + 1, olen + ml - 1, olen + ml]:
            probe("trunc/outer", pyref.armor(body[:k]))
        # IV / tag / ciphertext bit flips
        for off in ([5] if ivl else []) + [olen, olen + ml - 1, olen + ml, len(body) - 1, (olen + ml + len(body)) // 2]:
            if off < len(body):
                b = bytearray(body); b[off] ^= 0x40
                probe("flip", pyref.armor(bytes(b)), group=name)
        if c:
            bs = 8 if c in (2, 3) else 16
            # every value of the last ciphertext byte: padding failures and MAC failures must be indistinguishable
            for v in (range(256) if (ctx.thorough or (c, mc, z) == combos[0]) else range(0, 256, 17)):
                b = bytearray(body); b[-1] = v
                if bytes(b) != body:
                    probe("tail/lastbyte", pyref.armor(bytes(b)), group=name)
            probe("tail/dupblock", pyref.armor(body + body[-bs:]), group=name)
            probe("tail/dropblock", pyref.armor(body[:-bs]), group=name)
            probe("tail/dropbyte", pyref.armor(body[:-1]), group=name)
            probe("tail/addbyte", pyref.armor(body + b"\0"), group=name)
            probe("tail/noct", pyref.armor(body[:olen + ml]), group=name)
        if c:
            # the same manipulations on a credential whose interior is an exact multiple of the block size (payload length
            # 7 mod 16): its last cipher block is pure padding, so a change confined to it leaves the MAC'd bytes intact
            rp, _ = cr.encode_both(uid=1234, gid=5678, cipher=c, mac=mc, zip_=0, data=b"protected interior 1234"[:23], auth_uid=ANY, ttl=300)
            if rp and rp["error_num"] == 0:
                pbody = hostile.unarmor(rp["data"])
                for v in (range(256) if ctx.thorough else range(0, 256, 13)):
                    b = bytearray(pbody); b[-1] = v
                    if bytes(b) != pbody:
                        probe("padblock/lastbyte", pyref.armor(bytes(b)), group=name)
                for off in (2, bs // 2, bs - 1, bs):
                    b = bytearray(pbody); b[-off] ^= 0x21
                    probe("padblock/flip", pyref.armor(bytes(b)), group=name)
                probe("padblock/dropblock", pyref.armor(pbody[:-bs]), group=name)
            # suffix re-framing (round 8: an early "empty plaintext" error in dec_decrypt): block k-1 of the ciphertext as the IV
            # and blocks k.. as the ciphertext decrypt, without the key, to a SUFFIX of the genuine plaintext with VALID padding -
            # down to zero plaintext bytes when the last block is pure padding.  All of them fail the MAC and must be answered
            # exactly like a padding failure.
            for src_body, tag in ((body, "reframe"), (hostile.unarmor(rp["data"]) if rp and rp["error_num"] == 0 else None, "padblock/reframe")):
                if src_body is None or ivl != bs:
                    continue
                ct = src_body[olen + ml:]
                nblk = len(ct) // bs
                for k in sorted({1, 2, nblk // 2, nblk - 2, nblk - 1} & set(range(1, nblk))):
                    probe(tag, pyref.armor(src_body[:5] + ct[(k - 1) * bs:k * bs] + src_body[olen:olen + ml] + ct[k * bs:]), group=name)
        # unauthorized decode of a valid credential, retry overflow, armor faults
        r2, _ = cr.encode_both(uid=1234, gid=5678, cipher=c, mac=mc, zip_=z, data=b"for uid 77 only", auth_uid=77)
        if r2 and r2["error_num"] == 0:
            probe("unauthorized", r2["data"], uid=78, gid=1)
            probe("unauthorized-root", r2["data"], uid=0, gid=0)
            # several reasons to fail at once: the client is not authorized AND the credential is outside its window / already
            # decoded: the refusal (hard error, everything reset) comes first, whatever else is wrong
            base_now = cr.now
            for dt, what in ((4000, "expired"), (-4000, "rewound")):
                cr.set_clock(base_now + dt)
                probe("unauthorized+" + what, r2["data"], uid=78, gid=1)
            cr.set_clock(base_now)
            r3, _ = cr.encode_both(uid=1234, gid=5678, cipher=c, mac=mc, zip_=z, data=b"for uid 77 only", auth_uid=77)
            if r3 and r3["error_num"] == 0:
                probe("authorized-first", r3["data"], uid=77, gid=1, expect_hard=False)
                probe("unauthorized+replayed", r3["data"], uid=78, gid=1)
        probe("retry6", cred, retry=6)
        probe("retry255", cred, retry=255)
        s = cred.rstrip(b"\0")
        for bad in (s[1:], s[:-1], s.replace(b"MUNGE:", b"MUNGE;"), b"MUNGE:" + s[6:-1] + b"!:", b"MUNGE:" + s[6:-1][:-1] + b":",
                    b"", b" ", b"\0", b"MUNGE::", b"MUNGE:====:"):
            probe("armor", bad)
    # requests refused before anything is unpacked (announced length above the limit, truncated bodies, unknown types): the
    # daemon may simply close; IF it answers a decode request, the answer is a failure reply like any other: everything reset
    for t, what in ((rig.T_DEC_REQ, "decode"), (rig.T_ENC_REQ, "encode")):
        for ln in ((1 << 20) + 1, 1 << 24, (1 << 31) - 1, 1 << 31, (1 << 32) - 1):
            for tail in (b"", b"x" * 16):
                h, b, rawrep, st = rig.transact(cr.d.sock, rig.hdr(t, 0, ln) + tail, timeout=8.0)
                ctx.count(("oversize", t, ln, len(tail)))
                classes["oversize"] = classes.get("oversize", 0) + 1
                if h is None:
                    continue
                try:
                    rr = rig.parse_dec_rsp(b) if h[2] == rig.T_DEC_RSP else None
                    er = rig.parse_enc_rsp(b) if h[2] == rig.T_ENC_RSP else None
                except rig.ParseError:
                    fails.append({"why": "the reply to a %s request announcing %d bytes is malformed" % (what, ln), "kind": "oversize"})
                    continue
                if rr is not None:
                    bad = reset_violation(rr) if rr["error_num"] != 0 else ["error_num=0"]
                    if bad:
                        fails.append({"why": "reply to a decode request refused as too long (%d bytes announced) is not a sanitised failure "
                                             "reply: %s (error %d %r)" % (ln, ", ".join(bad), rr["error_num"], rr["error_str"]),
                                      "raw_hex": (rig.hdr(t, 0, ln) + tail).hex(), "kind": "oversize"})
                if er is not None and (er["error_num"] == 0 or er["data_len"] != 0):
                    fails.append({"why": "reply to an encode request refused as too long (%d bytes announced) carries data or success" % ln,
                                  "kind": "oversize"})
    # valid MAC, malformed interior (cipher none, minted in Python)
    now = cr.now
    base_inner = pyref.inner(salt=b"S" * 8, time0=now, uid=1234, gid=5678, data=b"interior-data")
    for k in (range(len(base_inner)) if ctx.thorough else range(0, len(base_inner), 3)):
        probe("vmac/innertrunc", pyref.mint(key, mac=5, inner_bytes=base_inner[:k]))
    for al in (1, 3, 5, 255):
        probe("vmac/addrlen", pyref.mint(key, inner_bytes=pyref.inner(time0=now, addr=b"\x7f" * al, addr_len=al, data=b"d")))
    for dl in (14, 2 ** 31, 2 ** 32 - 1):
        probe("vmac/datalen", pyref.mint(key, inner_bytes=pyref.inner(time0=now, data=b"interior-data", data_len=dl)))
    for z in (2, 3):
        good = pyref.inner(time0=now, data=b"z" * 200)
        probe("vmac/zip-badmagic", pyref.mint(key, zip_=z, inner_bytes=pyref.zip_wrap(z, good, magic=0x12345678)))
        probe("vmac/zip-short", pyref.mint(key, zip_=z, inner_bytes=pyref.zip_wrap(z, good, claimed=len(good) - 1)))
        probe("vmac/zip-garbage", pyref.mint(key, zip_=z, inner_bytes=struct.pack(">II", pyref.ZIP_MAGIC, 1000) + b"garbage"))
        probe("vmac/zip-claimed0", pyref.mint(key, zip_=z, inner_bytes=pyref.zip_wrap(z, good, claimed=0)))
        probe("vmac/zip-neg", pyref.mint(key, zip_=z, inner_bytes=pyref.zip_wrap(z, good, claimed=2 ** 31)))
        for extra in (1, 5000):
            short = pyref.inner(time0=now, data=b"q" * 40, data_len=40 + extra)
            probe("vmac/zip-claimed-tail", pyref.mint(key, zip_=z, inner_bytes=pyref.zip_wrap(z, short, claimed=len(short) + extra)))
    # foreign key
    probe("foreignkey", pyref.mint(bytes(40), inner_bytes=base_inner))
    for cls in list(classes)[:12]:
        ctx.sample({"class": cls, "count": classes[cls]}, limit=12)
    # padding vs MAC: one reply per credential sample
    for g, s in invalid_replies.items():
        if len(s) > 1:
            fails.append({"why": "decrypt/padding/MAC-stage failures of %s are distinguishable: replies %s" % (g, sorted(s)), "group": g})
    rc, rep = cr.stop()
    if rep.strip():
        ctx.violation("sanitizer report from the daemon during C09 cases", {"report": rep[:3000]}, found_input=False)
    ctx.cov["input_distribution"] = classes
    ctx.cov["traces_validated_against_impl"] = ctx.cov["evaluations"]
    seen = set()
    for f in fails:
        k = f["why"][:48]
        if k in seen:
            continue
        seen.add(k)
        ctx.violation(f["why"], f, found_input=True)
    if not fails and mism:
        ctx.violation("model and daemon disagree on %d cases (first: class %s: %s); the property evaluated directly holds on all cases"
                      % (len(mism), mism[0]["cls"], mism[0]["diff"]), {"obligation": "correspondence CredModel ~ munged (C09)", "first": mism[0]},
                      found_input=False)
    if not fails and not mism and not proved:
        ctx.violation("proof obligation no longer checks: %s" % getattr(ctx, "broken_obligation", "?"),
                      {"obligation": getattr(ctx, "broken_obligation", "?"), "log": ctx.proof_log[-3000:]}, found_input=False)
