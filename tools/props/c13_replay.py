"""C13, roll-back of the replay record (dec_process_msg: replay_remove when the reply to a successful decode cannot be
sent) for EVERY state of the replay cache.

rollback_component(ctx)   /repo's replay.c + hash.c (harness/replay_harness.c, ASan) against the extracted ReplayModel on
                          histories in which several live records share one bucket chain and the record that is rolled
                          back is the first / a middle / the last node of that chain; the property itself (the credential
                          is decodable again, nothing else changed) is evaluated on the implementation's answers with the
                          set-based Python reference of replay_common (which knows nothing of chains).
rollback_live(...)        the same in the live daemon: credentials are generated until their MACs collide modulo the table
                          size (the MAC is in the clear at the end of every credential), the bucket is populated by ordinary
                          decodes, and the undeliverable success is placed before / between / after the live records."""
import base64, json, os, re, time
import vlib, rig
from props import replay_common as RC

TAG_TEXT = {
    "remove": "the roll-back of the replay record (replay_remove after a reply that could not be sent) did not find the record "
              "it must take away",
    "table": "after the roll-back the replay cache is not the cache of the other live credentials",
    "insert-false": "a credential whose only successful decode was rolled back (reply undeliverable) is reported as replayed",
    "insert-dup": "a credential that is recorded was accepted again after a roll-back of another credential",
    "insert-dup-live": "a credential that is recorded was accepted again after a roll-back of another credential",
    "find": "hash_find disagrees with the set of live records around a roll-back",
}
M32 = 1 << 32


def replay_facts():
    """bucket function of the running replay.c as the gen_facts probe measured it (GenReplay.v)"""
    t = open(os.path.join(vlib.COQ, "gen", "GenReplay.v")).read()
    size = int(re.search(r"replay_hash_size : N := (\d+)", t).group(1))
    ws = [int(x) for x in re.search(r"replay_keyf_weights : list N := \[([^\]]*)\]", t).group(1).split(";")]
    mod = int(re.search(r"replay_keyf_modulus : N := (\d+)", t).group(1))
    klen = int(re.search(r"replay_mac_len : nat := (\d+)", t).group(1))
    return size, ws, mod, klen


def bucket_of(mac, facts):
    size, ws, mod, _ = facts
    return (sum(w * b for w, b in zip(ws, mac)) % mod) % size


# ----------------------------------------------------------------------------- component: case generation
def _le32(v):
    return bytes([(v >> (8 * i)) & 0xff for i in range(4)])


def _one_bucket_keys(rng, size, n, base):
    """n keys (mac, time0, ttl), pairwise distinct as (mac[:16], t_expired), all in ONE bucket of a table with `size` slots
    (0 = the table replay_init makes).  The place where replay_cmp_f decides the order varies: byte 0 (so that the chain
    order differs from the numeric order of key_f), bytes 1..3, a late byte, only the expiry."""
    s = size or 65537
    v0 = rng.randrange(0, s)
    jmax = (M32 - 1 - v0) // s
    m0 = _le32(v0 + s * rng.randrange(0, jmax + 1)) + bytes(rng.getrandbits(8) for _ in range(rng.choice([12, 12, 16, 28])))
    keys, seen = [], set()
    tries = 0
    while len(keys) < n and tries < 200:
        tries += 1
        r = rng.random()
        if not keys:
            mac = m0
        elif r < 0.35:        # other first four bytes, same bucket
            mac = _le32(v0 + s * rng.randrange(0, jmax + 1)) + bytes(rng.getrandbits(8) for _ in range(len(m0) - 4))
        elif r < 0.60:        # same first four bytes, differs later
            pos = rng.choice([4, 7, 8, 14, 15, 15])
            b = bytearray(m0); b[pos] = (b[pos] + rng.choice([1, 0x7f, 0x80, 0xff])) & 0xff; mac = bytes(b)
        elif r < 0.75:        # same MAC, another expiry
            mac = m0
        elif r < 0.85:        # differs only beyond the 16 bytes that are kept (if the MAC is longer): same key unless expiry differs
            mac = m0[:16] + bytes(rng.getrandbits(8) for _ in range(max(0, len(m0) - 16)))
        else:
            mac = m0[:4] + bytes(rng.getrandbits(8) for _ in range(len(m0) - 4))
        exp = base + rng.choice([0, 0, 0, 1, 2, 5, 60])
        ttl = rng.choice([1, 60, 300, 3600])
        t0 = exp - ttl
        ident = (mac[:16], exp)
        if t0 < 0 or ident in seen:
            continue
        seen.add(ident)
        keys.append((mac, t0, ttl))
    return keys


def _order(keys):
    """indices in chain order: memcmp of the 16 kept bytes, then expiry"""
    return sorted(range(len(keys)), key=lambda i: (keys[i][0][:16].ljust(16, b"\0"), keys[i][1] + keys[i][2]))


def gen_rollback_line(rng, size, where):
    """where in {'first','middle','last','any'}: position of the rolled-back record in its chain at the time of the roll-back"""
    base = rng.choice([1000, 5000, 1 << 31])
    n = rng.randrange(3, 8)
    keys = _one_bucket_keys(rng, size, n, base)
    if len(keys) < 3:
        return None
    nin = len(keys)
    # a few keys in other buckets as bystanders
    for _ in range(rng.randrange(0, 3)):
        keys.append((bytes(rng.getrandbits(8) for _ in range(16)), base - 60, 60 + rng.randrange(0, 5)))
    inb = list(range(nin))                          # indices of the one-bucket keys
    order = [i for i in _order(keys) if i in inb]
    if where == "first":
        tgt = order[0]
    elif where == "last":
        tgt = order[-1]
    elif where == "middle":
        tgt = order[rng.randrange(1, len(order) - 1)]
    else:
        tgt = rng.choice(order)
    prior = [i for i in order if i != tgt]
    rng.shuffle(prior)
    spare = prior.pop() if len(prior) > 2 and rng.random() < 0.5 else None    # joins the chain in the middle of things
    clock = base - 5
    ops = ["t%d" % clock] + ["i%d" % i for i in prior] + ["i%d" % i for i in range(len(keys)) if i not in inb]
    T = tgt
    tpl = rng.randrange(6)
    if tpl == 0:        # decode, reply undeliverable -> rolled back; decodable again; then really consumed
        ops += ["i%d" % T, "r%d" % T, "f%d" % T, "i%d" % T, "i%d" % T]
    elif tpl == 1:      # another credential of the same bucket is decoded in between
        o = spare if spare is not None else prior[0]
        ops += ["i%d" % T, "i%d" % o, "r%d" % T, "f%d" % o, "f%d" % T, "i%d" % T]
    elif tpl == 2:      # another roll-back in between
        o = prior[0]
        ops += ["i%d" % T, "r%d" % o, "r%d" % T, "i%d" % o, "i%d" % T, "f%d" % o]
    elif tpl == 3:      # retried decode let through on the record of the lost first attempt, its reply undeliverable too
        ops += ["i%d" % T, "i%d" % T, "r%d" % T, "f%d" % T, "r%d" % T, "i%d" % T]
    elif tpl == 4:      # a purge tick (nothing expired yet) between decode and roll-back
        ops += ["i%d" % T, "p%d" % clock, "r%d" % T, "i%d" % T]
    else:               # roll-back, decode, roll-back again (two undeliverable replies in a row), decode
        ops += ["i%d" % T, "r%d" % T, "i%d" % T, "r%d" % T, "i%d" % T, "i%d" % T]
    # every other record is still there
    ops += ["f%d" % i for i in prior[:3]]
    if spare is not None and tpl != 1:
        ops += ["i%d" % spare, "i%d" % T, "r%d" % spare, "f%d" % T]
    return "Q %d %s %s" % (size, RC.key_str(keys), ",".join(ops))


def gen_lines(ctx):
    rng = ctx.rng
    lines, kinds = [], {}
    n_small, n_real = (4000, 1500) if ctx.thorough else (270, 90)
    for j in range(n_small + n_real):
        size = rng.choice([1, 1, 2, 3, 5]) if j < n_small else 0
        where = ("first", "middle", "last")[j % 3]
        l = gen_rollback_line(rng, size, where)
        if l:
            lines.append(l)
            k = "rollback-%s-%s" % (where, "real" if size == 0 else "small")
            kinds[k] = kinds.get(k, 0) + 1
    return lines, kinds


# ----------------------------------------------------------------------------- component: run
def build_harness(ctx):
    src = [os.path.join(vlib.HARNESS, "replay_harness.c"), os.path.join(vlib.REPO, "src/munged/hash.c")]
    return vlib.cc(ctx, "c13replayh", src, extra=["-Wl,--wrap=time,--wrap=malloc"], libs=["-lpthread"])


def rollback_component(ctx, proved=True, built=None, oracle=None):
    """returns (n_cases, direct_failures) and records violations in ctx"""
    if oracle is None:
        oracle = vlib.build_oracle(ctx, "replay")
    exe, err = built if built is not None else build_harness(ctx)
    if exe is None:
        ctx.violation("replay harness does not build against /repo (replay.c/hash.c interface changed?): " + err[-500:],
                      {"obligation": "correspondence C13 roll-back (build)", "stderr": err}, found_input=False)
        return 0, []
    lines, kinds = gen_lines(ctx)
    if getattr(ctx, "replay", None):
        try:
            r = json.load(open(ctx.replay))
            if str(r.get("case_line", "")).startswith("Q "):
                lines, kinds = [r["case_line"]], {"replayed-case": 1}
        except (OSError, ValueError):
            pass
    ctx.cov.setdefault("input_distribution", {}).update(kinds)
    rc, impl, stderr = vlib.run_lines([exe], lines, timeout=900)
    ctx.log("roll-back: replay.c+hash.c ran %d histories rc=%d" % (len(lines), rc))
    if rc != 0 or len(impl) != len(lines):
        idx = min(len(impl), len(lines) - 1)
        ctx.violation("replay.c/hash.c abort under ASan/UBSan/LSan (memory error or leak) in a roll-back history (#%d)" % idx,
                      {"case_line": lines[idx], "stderr": stderr[-3000:], "rc": rc})
        return len(lines), [lines[idx]]
    direct = []
    for l, o in zip(lines, impl):
        ctx.count(l)
        why = RC.property_holds(l, o)
        if why:
            direct.append((l, o, why))
    for l in lines[:1] + lines[-1:]:
        ctx.sample(l[:400])
    mism = []
    if oracle:
        rc2, mod, err2 = vlib.run_lines([oracle], lines, timeout=900, env={"OCAMLRUNPARAM": "l=8G"})
        if rc2 != 0 or len(mod) != len(lines):
            ctx.violation("replay oracle failed to run: rc=%d %s" % (rc2, err2[-300:]), {"obligation": "oracle run"}, found_input=False)
        else:
            mism = [(l, a, b) for l, a, b in zip(lines, impl, mod) if a != b]
            ctx.cov["traces_validated_against_impl"] = ctx.cov.get("traces_validated_against_impl", 0) + len(lines)
            ctx.log("roll-back: ReplayModel ran %d histories, %d mismatches, %d direct failures" % (len(lines), len(mism), len(direct)))
    else:
        ctx.violation("replay oracle does not build", {"obligation": "oracle build", "notes": ctx.notes[-1:]}, found_input=False)
    if direct:
        l, o, why = direct[0]
        ctx.violation("%s: %s [%s] (%d failing histories of %d; keys of one bucket chain, the rolled-back record not at the head)"
                      % (TAG_TEXT.get(why[0], "replay cache misbehaves around a roll-back"), why[1], why[0], len(direct), len(lines)),
                      {"case_line": l, "impl_output": o[:2000], "why": why[1], "kind": why[0], "n_failing": len(direct),
                       "clause": "If munged cannot deliver the reply to a successful decode and the client never retries, the "
                                 "credential remains decodable",
                       "more": [(x[0][:300], x[2][1]) for x in direct[1:4]]})
    elif mism:
        l, a, b = mism[0]
        ctx.violation("ReplayModel and replay.c/hash.c disagree on %d roll-back histories although the property evaluated "
                      "directly holds on all %d" % (len(mism), len(lines)),
                      {"obligation": "correspondence ReplayModel ~ replay.c+hash.c (C13 roll-back)", "case_line": l,
                       "impl": a[:2000], "model": b[:2000]}, found_input=False)
    return len(lines), direct


# ----------------------------------------------------------------------------- live daemon: colliding credentials
MAC_LEN = {2: 16, 3: 20, 4: 20, 5: 32, 6: 64}      # by munge_mac_t
IV_LEN = {0: 0, 2: 8, 3: 8, 4: 16, 5: 16}          # by munge_cipher_t


def cred_mac(cred):
    """the MAC of a credential: outer part = version, cipher, mac, zip, realm_len, realm, IV, MAC; then the inner part"""
    try:
        raw = base64.b64decode(cred.rstrip(b"\0")[6:-1])
        off = 5 + raw[4] + IV_LEN[raw[1]]
        mac = raw[off:off + MAC_LEN[raw[2]]]
    except (ValueError, KeyError, IndexError):
        return None
    return mac if len(mac) >= 16 else None


def find_groups(ctx, cr, facts, want_size, want_groups, cap, payload=b"c13 bucket"):
    """encode credentials until `want_groups` buckets hold `want_size` of them (or `cap` credentials were made).
    Returns (big, pairs, n_made): big = the buckets that reached want_size, pairs = other buckets with two or more members;
    a group = list of (mac, cred) sorted in chain order (all expire in the same second, so the MAC bytes decide)."""
    buckets, full = {}, []
    n = 0
    macs = (5, 5, 2, 3, 6)
    klen = facts[3]
    while n < cap and len(full) < want_groups:
        r, _ = rig.encode(cr.d.sock, uid=0, gid=0, mac=macs[n % len(macs)], data=payload)
        n += 1
        if r is None or r["error_num"] != 0:
            continue
        mac = cred_mac(r["data"])
        if mac is None:
            continue
        b = bucket_of(mac, facts)
        g = buckets.setdefault(b, [])
        if len(g) < want_size and all(x[0][:klen] != mac[:klen] for x in g):
            g.append((mac, r["data"]))
            if len(g) == want_size:
                full.append(b)
    srt = lambda g: sorted(g, key=lambda x: x[0][:klen])
    big = [srt(buckets[b]) for b in full]
    rest = sorted((g for b, g in buckets.items() if b not in full and len(g) >= 2), key=len, reverse=True)
    return big, [srt(g) for g in rest], n


def _undeliverable(cr, cred, how, uid=0, gid=0):
    """a successful decode of `cred` whose reply cannot be delivered, after which the client never comes back.
    how = 'S': first attempt, send fails.  'LS': first attempt answered but the reply is lost on the way (the client saw
    nothing), the retry (retry=1) is let through as a retry and its send fails."""
    if how == "LS":
        rig.decode(cr.d.sock, cred, uid=uid, gid=gid, retry=0)          # processed and answered; we drop the answer
        rig.decode_undeliverable(cr.d.sock, cred, uid=uid, gid=gid, retry=1)
        cr.o.ask("DECF %s %d %d %d - L,S,S,S,S" % (cred.hex(), uid, gid, cr.now))
    else:
        rig.decode_undeliverable(cr.d.sock, cred, uid=uid, gid=gid, retry=0)
        cr.o.ask("DECF %s %d %d %d - S,S,S,S,S" % (cred.hex(), uid, gid, cr.now))


def rollback_live(ctx, cr, fails, mism, dist):
    """populate one bucket chain of the live daemon's replay table and roll back a record at its head / middle / tail"""
    facts = replay_facts()
    t0 = time.time()
    if ctx.thorough:
        quads, pairs, n1 = find_groups(ctx, cr, facts, 4, 2, 60000)
    else:
        quads, pairs, n1 = find_groups(ctx, cr, facts, 3, 1, 20000)
    pairs = pairs[:8 if ctx.thorough else 4]
    ctx.log("live roll-back: %d credentials made in %.1fs: bucket(s) with %s colliding MACs, %d smaller groups"
            % (n1, time.time() - t0, [len(g) for g in quads], len(pairs)))
    ctx.cov["live_bucket_collisions"] = {"credentials_generated": n1, "groups": [len(g) for g in quads + pairs]}

    def check(cred, want, what, case):
        d, m, diff = cr.decode_both(cred)
        if diff:
            mism.append(dict(case, diff="%s: %s" % (what, diff)))
        got = None if d is None else d["error_num"]
        if got != want:
            fails.append(dict(case, key="live: " + what[:45], why="%s: decode gives %s, expected %s (%s)" % (
                what, d and (d["error_num"], d["error_str"]), want, "Success" if want == 0 else "Replayed credential")))
            return False
        return True

    def scenario(group, plan, hows):
        """plan: list of ('d', idx) ordinary delivered decode / ('u', idx) undeliverable success then the checks"""
        macs = [g[0][:facts[3]].hex() for g in group]
        live, nu = [], 0
        for (op, idx) in plan:
            cred = group[idx][1]
            if op == "d":
                case = {"op": "bucket-populate", "bucket_macs": macs, "index": idx}
                check(cred, 0, "ordinary first decode of credential #%d of the bucket" % idx, case)
                live.append(idx)
                continue
            how = hows[nu % len(hows)]
            nu += 1
            pos = "first" if all(idx < j for j in live) else "last" if all(idx > j for j in live) else "middle"
            if not live:
                pos = "alone"
            case = {"op": "live-rollback", "bucket_macs": macs, "chain_before": [macs[j] for j in sorted(live)],
                    "rolled_back": macs[idx], "position_in_chain": pos, "attempts": how,
                    "cred_hex": cred.rstrip(b"\0").hex(), "daemon_key_hex": cr.d.key.hex(), "clock": cr.now,
                    "bucket_creds_hex": [g[1].rstrip(b"\0").hex() for g in group],
                    "how_to_replay": "start munged with this key and clock; decode the chain_before credentials; send a DEC_REQ for "
                                     "cred_hex from a client that has shut down its receiving side (attempts S; for LS first an "
                                     "ordinary decode whose answer is dropped, then retry=1 that way); decode cred_hex again"}
            _undeliverable(cr, cred, how)
            time.sleep(0.02)
            ctx.count(("live-rollback", pos, how, len(live)))
            k = "live-rollback-%s" % pos
            dist[k] = dist.get(k, 0) + 1
            # an earlier attempt answered as far as munged can tell ('L'): the retry adds no record and takes none back
            # (repair 3dbe0fd: take back only the replay entry that this decode added) - the credential stays consumed
            want = 17 if "L" in how[:-1] else 0
            ok = check(cred, want, "attempts %s: the reply to the successful decode of a credential could not be delivered and the "
                                   "client never came back, while %d other live credential(s) share its replay-table bucket "
                                   "(it is the %s node of the chain); %s"
                       % (list(how), len(live), pos, "the credential must remain decodable" if want == 0 else
                          "the retry added no record, so the credential must stay consumed"), case)
            if ok and want == 0:
                check(cred, 17, "the credential decoded after a roll-back is presented once more", case)
            for j in live:
                check(group[j][1], 17, "another live credential of the same bucket after the roll-back", case)
            live.append(idx)
            if len(ctx.cov["samples"]) < 12:
                ctx.sample({k2: case[k2] for k2 in ("op", "chain_before", "rolled_back", "position_in_chain", "attempts")})

    for g in quads:
        if len(g) >= 4:
            # b delivered; a rolled back as head; d rolled back as tail; c rolled back in the middle
            scenario(g, [("d", 1), ("u", 0), ("u", 3), ("u", 2)], ["S", "LS", "S"])
        elif len(g) == 3:
            scenario(g, [("d", 0), ("d", 2), ("u", 1)], ["S"])
        elif len(g) == 2:
            scenario(g, [("d", 0), ("u", 1)], ["S"])
    for n, g in enumerate(pairs):
        if len(g) < 2:
            continue
        if len(g) >= 3:
            scenario(g, [("d", 0), ("d", 2), ("u", 1)], ["LS" if n % 2 else "S"])  # middle
        elif n % 2 == 0:
            scenario(g, [("d", 0), ("u", 1)], ["S" if n % 4 == 0 else "LS"])     # tail
        else:
            scenario(g, [("d", 1), ("u", 0)], ["LS" if n % 4 == 1 else "S"])     # head
