"""C16 — start-up refuses insecure key/path/file settings; created files are safe."""
import importlib.util, itertools, json, os, re, shutil, signal, socket, stat, subprocess, sys, threading, time
sys.path.insert(0, os.path.dirname(os.path.dirname(os.path.abspath(__file__))))
import vlib

MANIFEST = dict(
    level=("proof", "Twenty-eight Coq theorems over an executable model of path.c's directory walk (chains of any "
           "length: secure <-> every directory acceptable, first offender and complaint reported), the key/seed/log "
           "file vetting of conf.c/random.c/munged.c with the whole process identity (real/effective/saved uid and "
           "gid) as an explicit parameter and every rule stated for the EFFECTIVE uid, the order of the start-up "
           "checks, the mode/umask recipe of the five created files (all 512 umasks, foreground and daemon mode) and "
           "which directory walks run as a function of the site and of what is at the file's name (verdict on the chain "
           "proved independent of the leaf's prior state), "
           "their creation as an operation on the prior state of the directory entry AND on what the process may do in "
           "the directory that holds it (remove a name, create a name: unlink can fail with EACCES for a daemon that is "
           "not root, open then reuses the old inode; the mode reset of the reused file is a fact observed with strace, "
           "the source without it is refuted by witness); prior state: (nothing / file of any type, "
           "owner, mode / symlink / dangling symlink: unlink-then-create vs open-in-place), proved for every prior "
           "state; flag values, permission bits, the flags each call site passes, the recipes, unlink-before-create "
           "and open flags (strace + --wrap) and which uid each ownership test consults (starts with real != "
           "effective uid) are re-observed on every run; tied to the code by running /repo's path.c on real "
           "directory trees under every kind of real/effective/saved uid and gid combination (forked children, "
           "setresuid/setresgid) and the real daemon rebuilt from /repo in generated trees (identities, prior states "
           "of all five names), both diffed with the extracted model and judged by an independent statement of the "
           "property.", "7 C16"),
    note="Trusted: Coq kernel+vm_compute, facts probe (strace parser), extraction, harness/driver glue, Linux "
         "semantics of umask/bind/open/unlink (fs.protected_* sysctls do not apply: no sticky directories among "
         "the leaf directories used); the C code is modelled and tied by differential testing, not verified. "
         "TOCTOU between the checks and the later open() calls is outside the model. Observation proved and "
         "replayed: a pre-existing log file keeps its mode (group/other read bits are not examined). Candidate "
         "finding proved and replayed on every run: a FIFO at the seed path wedges the start (random.c opens the "
         "seed without O_NONBLOCK); the theorem is stated so that it checks before and after the repair. Same kind: a "
         "FIFO at the lock file's name blocks the start in open(O_WRONLY) until a signal arrives "
         "(C16_lock_fifo_blocks).",
    technique="Coq proof (induction over the chain + 512-value sweep lifted by lemma) + translator (probe, strace, "
              "--wrap) + differential correspondence on real trees and real daemon starts")

FOREIGN = 5151          # owner that is neither root nor any uid a process here runs with
EUID2 = 4242            # non-root effective uid for part of the runs
RUID2 = 4343            # non-root real uid (differs from the effective one) for part of the runs
SUID2 = 4444            # non-root saved uid (path.c harness only: execve makes saved = effective)
RGID2, EGID2, SGID2 = 6161, 6262, 6363
TGID = 7070             # the --trusted-group
OGID = 6060             # some other group
NO_TG = 4294967295
SITES = ("key", "seed", "log", "sock", "pid")


def _facts():
    spec = importlib.util.spec_from_file_location("facts_path", os.path.join(vlib.VERIF, "tools/facts/path.py"))
    m = importlib.util.module_from_spec(spec)
    spec.loader.exec_module(m)
    return m


# --------------------------------------------------------------------------------------------------
# the property, stated independently of the Coq model
# --------------------------------------------------------------------------------------------------
def spec_dir(euid, tg, ignore_gw, d):
    """None when directory d=(uid,gid,mode) is acceptable, else the first objection O/G/W"""
    u, g, m = d
    if u != 0 and u != euid:
        return "O"
    if (m & 0o020) and not (m & 0o1000) and not ignore_gw and not (tg is not None and g == tg):
        return "G"
    if (m & 0o002) and not (m & 0o1000):
        return "W"
    return None


def spec_chain(euid, tg, ignore_gw, chain):
    for i, d in enumerate(chain):
        r = spec_dir(euid, tg, ignore_gw, d)
        if r:
            return (i, r)
    return None


def parse_chain(s):
    return [] if s == "-" else [(int(a), int(b), int(c, 8)) for a, b, c in (t.split(":") for t in s.split(","))]


# --------------------------------------------------------------------------------------------------
# part (a): path.c on real trees
# --------------------------------------------------------------------------------------------------
def dir_attrs(euid_set):
    out = []
    for u in euid_set:
        for g in (TGID, OGID):
            for bits in range(8):
                m = 0o755 | (0o020 if bits & 1 else 0) | (0o002 if bits & 2 else 0) | (0o1000 if bits & 4 else 0)
                out.append((u, g, m))
    return out


CLEAN = (0, OGID, 0o755)


def fmt_attrs(a):
    return ",".join("%d:%d:%04o" % tuple(x) for x in a)


def gen_path_cases(ctx):
    rng = ctx.rng
    attrs = dir_attrs((0, EUID2, FOREIGN))
    glob = [(e, tg, fl) for e in (0, EUID2) for tg in ("-", str(TGID)) for fl in (0, 1)]
    cases = []
    full_depth = 3 if ctx.thorough else 2
    for k in range(1, full_depth + 1):
        for combo in itertools.product(attrs, repeat=k):
            for (e, tg, fl) in glob:
                cases.append("P %d %s %d d %d %s" % (e, tg, fl, k, fmt_attrs(combo)))
    # every attribute subset at each position of a depth-5 chain, the other directories clean
    for pos in range(5):
        for a in attrs:
            for (e, tg, fl) in glob:
                combo = [CLEAN] * 5
                combo[pos] = a
                form = "dsuf"[(pos + a[2] + e) % 4]
                cases.append("P %d %s %d %s 5 %s" % (e, tg, fl, form, fmt_attrs(combo)))
    for _ in range(60000 if ctx.thorough else 6000):
        k = rng.randrange(3, 7)
        # mostly-clean chains with one or two dirty directories, and fully random chains
        if rng.random() < 0.6:
            combo = [CLEAN] * k
            for _ in range(rng.choice((1, 1, 2))):
                combo[rng.randrange(k)] = rng.choice(attrs)
        else:
            combo = [rng.choice(attrs) for _ in range(k)]
        e, tg, fl = rng.choice(glob)
        cases.append("P %d %s %d %s %d %s" % (e, tg, fl, rng.choice("ddddsuf"), k, fmt_attrs(combo)))
    cases += gen_identity_path_cases(ctx)
    xmodes = (0o755, 0o750, 0o711, 0o710, 0o700, 0o754, 0o745, 0o355, 0o1777, 0o555, 0o111, 0o110)
    for _ in range(2000 if ctx.thorough else 300):
        k = rng.randrange(1, 6)
        cases.append("A %d %s" % (k, fmt_attrs([(0, 0, rng.choice(xmodes) if rng.random() < 0.4 else 0o755)
                                                for _ in range(k)])))
    dn = ["", "/", "//", "a", "a/", "/a", "/a/", "/a/b", "/a/b/", "/a//b//", "a/b", "a//b", "///a", ".", "..", "/.",
          "/a/.", "a/b/c/", "/usr/lib", "/usr/", "usr", "/run/munge/munge.socket.2", "/etc/munge/munge.key"]
    for n in range(1, 7 if ctx.thorough else 6):
        for t in itertools.product("/a.", repeat=n):
            dn.append("".join(t))
    for s in dn:
        cases.append("D %s" % vlib.hexs(s.encode()))
    return cases


def gen_identity_path_cases(ctx):
    """path_is_secure called by a process with every kind of (real, effective, saved) uid combination — all equal,
    pairwise equal, all different, with and without root in each position — and likewise for the gids; one
    directory of the chain belongs to each of the ids in turn (and to root, and to nobody of them)"""
    rng = ctx.rng
    cases = []
    upool = (0, RUID2, EUID2, SUID2)
    # every (r, e, s) over four uids up to renaming of the non-root ones that keeps the roles apart
    utriples = [(r, e, sv) for r in upool for e in upool for sv in upool
                if r in (0, RUID2, e) and sv in (0, SUID2, e, r) and e in (0, EUID2)]
    gtriples = [(0, 0, 0), (RGID2, EGID2, SGID2), (RGID2, 0, 0), (0, EGID2, 0), (0, 0, SGID2), (TGID, OGID, 0),
                (OGID, TGID, TGID), (EGID2, EGID2, EGID2), (TGID, TGID, TGID), (0, OGID, TGID), (RGID2, RGID2, EGID2)]
    n = 0
    for (r, e, sv) in utriples:
        owners = sorted({0, r, e, sv, FOREIGN})
        for owner in owners:
            for bits in (0, 1, 2, 5) + ((4, 3) if ctx.thorough else ()):
                for rep in range(12 if ctx.thorough else 6):
                    n += 1
                    rg, eg, sg = gtriples[n % len(gtriples)] if not ctx.thorough else rng.choice(gtriples)
                    k = 2 + n % 3
                    pos = (n // 3) % k
                    # group of the odd directory: one of the process's gids, the trusted group, or another one
                    g = (rg, eg, sg, TGID, OGID)[n % 5] or OGID
                    m = 0o755 | (0o020 if bits & 1 else 0) | (0o002 if bits & 2 else 0) | (0o1000 if bits & 4 else 0)
                    combo = [(0, OGID, 0o755)] * k
                    combo[pos] = (owner, g, m)
                    if e != 0 and pos != k - 1 and n % 2:
                        combo[k - 1] = (e, OGID, 0o755)      # leaf owned by the effective user, as munged's would be
                    tg = ("-", str(TGID), str(g))[n % 3] if bits & 1 else ("-", str(TGID))[n % 2]
                    cases.append("I %d %d %d %d %d %d %s %d %s %d %s" % (r, e, sv, rg, eg, sg, tg, (n // 7) % 2,
                                                                       "dsuf"[n % 4], k, fmt_attrs(combo)))
    return cases


def posix_dirname(s):
    """dirname(3): trailing slashes ignored, no slash -> ".", root stays "/" """
    t = s.rstrip("/")
    if t == "":
        return "/" if s.startswith("/") else "."
    i = t.rfind("/")
    if i < 0:
        return "."
    t = t[:i].rstrip("/")
    return t if t else "/"


def path_case_property(case, answer):
    """the property itself on one harness answer; returns (why or None, oracle input line or None)"""
    if case.startswith("D "):
        s = bytes.fromhex(case[2:]).decode() if case[2:] != "-" else ""
        f = answer.split()
        if len(f) != 2 or f[0] != "D":
            return "malformed harness answer", None
        got = None if f[1] == "!" else ("" if f[1] == "-" else bytes.fromhex(f[1]).decode())
        if got != posix_dirname(s):
            return "path_dirname(%r) = %r, dirname(3) says %r: the wrong directory would be vetted" % (
                s, got, posix_dirname(s)), None
        return None, None
    if " => " not in answer:
        return "malformed harness answer", None
    left, right = answer.split(" => ")
    f = left.split()
    if case.startswith("A "):
        chain = parse_chain(f[1])
        bad = next((i for i, d in enumerate(chain) if d[2] & 0o111 != 0o111), None)
        want = "A 1" if bad is None else "A 0 %d" % bad
        return (None if right == want else "path_is_accessible answers %s, expected %s" % (right, want)), left
    c = case.split()
    ids = None
    if case.startswith("I "):
        # the process identity the harness reports must be the one asked for; the rule is about the EFFECTIVE uid
        ids = [int(x) for x in f[1].split(":")]
        if ids != [int(x) for x in c[1:7]]:
            return "harness did not assume the requested identity (%s vs %s)" % (ids, c[1:7]), left
        c = ["P", c[2]] + c[7:]
        euid = ids[1]
    else:
        euid = int(f[1])
    tg, flags, leaf_is_dir = int(f[2]), int(f[3]), f[4] == "1"
    chain = parse_chain(f[5])
    # the harness applied what the case asked for (leaf first in the answer, top first in the case)
    want_attrs = list(reversed(parse_chain(c[6])))
    got_attrs = chain[(0 if leaf_is_dir else 1):][:len(want_attrs)]
    if got_attrs != want_attrs or leaf_is_dir != (c[4] != "f"):
        return "harness did not build the requested chain (%s vs %s)" % (got_attrs, want_attrs), left
    visited = chain if leaf_is_dir else chain[1:]
    v = spec_chain(euid, None if tg == NO_TG else tg, bool(flags & 1), visited)
    want = "P 1" if v is None else "P 0 %d %s" % v
    if right == want:
        return None, left
    if right == "P 1":
        i, r = v
        return ("path_is_secure accepts a path whose directory #%d from the leaf %s (euid %d%s, trusted group %s, "
                "flags %d, chain %s)" % (i, {"O": "is owned by neither root nor the effective user", "G": "is "
                "group-writable without sticky bit/trusted group", "W": "is world-writable without sticky bit"}[r],
                euid, "" if ids is None else ", process ids ruid:euid:suid:rgid:egid:sgid = " + f[1],
                "unset" if tg == NO_TG else tg, flags, f[5])), left
    return "path_is_secure answers %s, the property demands %s (%schain %s)" % (
        right, want, "" if ids is None else "process ids ruid:euid:suid:rgid:egid:sgid = %s, " % f[1], f[5]), left


# --------------------------------------------------------------------------------------------------
# part (b): the real daemon in generated trees
# --------------------------------------------------------------------------------------------------
def base_case(fg=True, euid=0, tg=None, umask=0o022, force=False, depth=1):
    own = euid
    d = lambda: [(0, 0, 0o755)] * (depth - 1) + [(own, 0, 0o755)]
    return {"fg": fg, "force": force, "euid": euid, "tg": tg, "umask": umask,
            "ids": None,        # (ruid, euid, rgid, egid); None = all uids euid, all gids euid (0 for root)
            "dirs": {s: d() for s in SITES},
            "key": {"type": "reg", "uid": euid, "gid": 0, "mode": 0o600},
            "seed": None, "log": None, "lock": None, "pid": None, "sock": None}


def ids_of(case):
    """(ruid, euid, rgid, egid) the daemon is started with"""
    if case.get("ids"):
        return tuple(case["ids"])
    e = case["euid"]
    return (e, e, e, e)


def gen_daemon_cases(ctx):
    rng = ctx.rng
    cases = []
    T = ctx.thorough

    def add(fam, c):
        c["fam"] = fam
        cases.append(c)

    # --- key file: modes x types x owners
    if T:
        kmodes = list(range(512))
    else:
        kmodes = sorted({0, 0o600, 0o400, 0o200, 0o700, 0o500, 0o640, 0o620, 0o610, 0o660, 0o604, 0o602, 0o601,
                         0o606, 0o644, 0o666, 0o777, 0o711, 0o611, 0o066, 0o022, 0o044, 0o060, 0o006}
                        | {1 << b for b in range(9)} | {0o600 | (1 << b) for b in range(6)})
    for m in range(512):
        for typ in ("reg", "symlink"):
            for owner in ("euid", "other"):
                if m not in kmodes and not (typ == "reg" and owner == "euid"):
                    continue        # quick: all 512 modes for the regular key of euid, a boundary sample otherwise
                if not T and typ == "symlink" and owner == "other" and m not in (0o600, 0o640, 0o604):
                    continue
                # (a non-root daemon cannot open a key it may not read: file access control is outside the model)
                e = EUID2 if (m + len(typ)) % 5 == 0 and (m & 0o400) else 0
                c = base_case(fg=bool(m & 1) ^ (typ == "reg"), euid=e, umask=0o022)
                c["key"] = {"type": typ, "uid": e if owner == "euid" else FOREIGN, "gid": 0, "mode": m}
                add("key", c)
    # files owned by root while the daemon runs as somebody else: "owned by root" is not "owned by euid"
    for m in (0o600, 0o400, 0o640, 0o644, 0o604):
        for fg in (True, False):
            c = base_case(fg=fg, euid=EUID2)
            c["key"] = {"type": "reg", "uid": 0, "gid": 0, "mode": m}
            add("key", c)
            c = base_case(fg=fg, euid=EUID2)
            c["seed"] = {"type": "reg", "uid": 0, "gid": 0, "mode": m}
            add("seed", c)
        c = base_case(fg=False, euid=EUID2)
        c["log"] = {"type": "reg", "uid": 0, "gid": 0, "mode": m}
        add("log", c)
    for typ in ("fifo", "dir", "missing", "dangling"):
        for owner in (0, FOREIGN):
            for m in (0o600, 0o644):
                c = base_case(fg=(m == 0o600))
                c["key"] = {"type": typ, "uid": owner, "gid": 0, "mode": m}
                add("key", c)
    # --- an insecure ancestor on each of the five paths
    depth = 5 if T else 3
    variants = []
    for u in ("root", "euid", "foreign"):
        for g in (TGID, OGID):
            for bits in range(8):
                variants.append((u, g, bits))
    for site in SITES:
        for pos in range(depth):
            for (u, g, bits) in variants:
                for tg in (None, TGID):
                    if not T and (bits & 1) == 0 and tg is not None:
                        continue            # the trusted group only matters for group-writable directories
                    if not T and g == OGID and u == "euid" and bits in (0, 4):
                        continue
                    e = EUID2 if (pos + bits + len(site)) % 3 == 0 else 0
                    leaf = (pos == depth - 1)
                    if e != 0 and leaf and u == "root":
                        continue            # a non-root daemon cannot create files there: outside the model
                    c = base_case(fg=(site != "log") and bool((bits + pos) & 1), euid=e, tg=tg, depth=depth)
                    owner = {"root": 0, "euid": e, "foreign": FOREIGN}[u]
                    m = 0o755 | (0o020 if bits & 1 else 0) | (0o002 if bits & 2 else 0) | (0o1000 if bits & 4 else 0)
                    ch = list(c["dirs"][site])
                    ch[pos] = (owner, g, m)
                    c["dirs"][site] = ch
                    add("dir", c)
    if not T:       # quick: a boundary sample at every position of depth-5 chains as well
        for site in SITES:
            for pos in range(5):
                for (owner, g, m, tg) in ((FOREIGN, OGID, 0o755, None), (0, OGID, 0o775, None), (0, OGID, 0o757, None),
                                          (0, OGID, 0o1777, None), (0, TGID, 0o775, TGID), (0, OGID, 0o775, TGID),
                                          (0, TGID, 0o775, None), (0, OGID, 0o1775, None)):
                    c = base_case(fg=(site != "log") and bool(pos & 1), euid=0, tg=tg, depth=5)
                    ch = list(c["dirs"][site])
                    ch[pos] = (owner, g, m)
                    c["dirs"][site] = ch
                    add("dir", c)
    # --- inherited umasks
    # all 512 in both tiers (a start/stop costs ~20 ms); thorough adds a non-root daemon
    for u in range(512):
        for fg in (True, False):
            c = base_case(fg=fg, umask=u, euid=0)
            add("umask", c)
            if T:
                add("umask", base_case(fg=fg, umask=u, euid=EUID2))
            if u in (0o000, 0o077, 0o777, 0o027) or T and u % 16 == 5:
                c = base_case(fg=fg, umask=u, euid=0)
                c["seed"] = {"type": "reg", "uid": 0, "gid": 0, "mode": 0o600}
                c["log"] = None
                add("umask", c)
    # --- existing seed file
    smodes = (0o600, 0o400, 0o640, 0o604, 0o620, 0o602, 0o644, 0o666, 0o000, 0o700, 0o660, 0o606)
    for typ in ("reg", "symlink", "dangling", "dir"):
        for owner in ("euid", "other"):
            for m in (smodes if typ in ("reg", "symlink") else (0o600, 0o755)):
                if typ == "symlink" and not T and m not in (0o600, 0o644):
                    continue
                e = EUID2 if (m >> 3) % 3 == 1 and typ != "dir" else 0
                c = base_case(fg=bool(m & 0o040) or typ == "reg" and owner == "euid", euid=e)
                c["seed"] = {"type": typ, "uid": e if owner == "euid" else FOREIGN, "gid": 0, "mode": m}
                add("seed", c)
    for fg in (True, False):      # a FIFO in the seed's place: vetted like any non-regular file, or the start blocks
        c = base_case(fg=fg)
        c["seed"] = {"type": "fifo", "uid": 0, "gid": 0, "mode": 0o600}
        add("seed", c)
    for m in (0o600, 0o644):      # with --force an insecure seed directory is tolerated; the file is still vetted
        for dm in (0o775, 0o757):
            c = base_case(fg=True, force=True)
            c["dirs"]["seed"] = [(0, 0, dm)]
            c["seed"] = {"type": "reg", "uid": 0, "gid": 0, "mode": m}
            add("seed", c)
    # --- existing log file (daemon mode)
    for typ in ("reg", "symlink", "fifo", "dir"):
        for owner in ("euid", "other"):
            for m in ((0o640, 0o644, 0o600, 0o660, 0o620, 0o602, 0o606, 0o604, 0o666, 0o000, 0o400)
                      if typ == "reg" else (0o640, 0o622)):
                e = EUID2 if (m & 0o007) == 4 else 0
                c = base_case(fg=False, euid=e)
                c["log"] = {"type": typ, "uid": e if owner == "euid" else FOREIGN, "gid": 0, "mode": m}
                add("log", c)
    # --- existing lock file
    for owner in ("euid", "other"):
        for m in (0o200, 0o600, 0o644, 0o000, 0o220, 0o202, 0o1200, 0o300):
            for fg in (True, False):
                e = EUID2 if m == 0o200 and fg and owner == "euid" else 0
                c = base_case(fg=fg, euid=e)
                c["lock"] = {"type": "reg", "uid": e if owner == "euid" else FOREIGN, "gid": 0, "mode": m}
                add("lock", c)
    # --- socket directory not accessible to all
    for m in (0o750, 0o711, 0o700, 0o754, 0o745, 0o710):
        for pos in (0, 1):
            c = base_case(fg=bool(pos), depth=2)
            ch = list(c["dirs"]["sock"])
            ch[pos] = (0, 0, m)
            c["dirs"]["sock"] = ch
            add("access", c)
    # --- --force: complaints become warnings, except a missing or non-regular key
    for k in range(12 if T else 6):
        c = base_case(fg=bool(k & 1), force=True, umask=(0o077, 0o000, 0o027)[k % 3])
        for s in SITES:
            c["dirs"][s] = [(FOREIGN if (k + len(s)) % 2 else 0, 0, 0o777 if k % 3 else 0o775)]
        c["key"] = {"type": ("reg", "symlink", "reg", "fifo", "reg", "missing")[k % 6], "uid": FOREIGN, "gid": 0,
                    "mode": 0o666}
        if k % 2:
            c["lock"] = {"type": "reg", "uid": 0, "gid": 0, "mode": 0o644}
        add("force", c)
    # --- which identity the ownership rules use: real uid != effective uid (and gids likewise).  A process
    #     started by execve has saved = effective, so (ruid, euid) x (rgid, egid) is all a daemon can differ in.
    idents = [(RUID2, 0, 0, 0), (RUID2, 0, RGID2, EGID2), (0, EUID2, 0, EUID2), (RUID2, EUID2, RGID2, EGID2),
              (0, EUID2, TGID, OGID), (RUID2, 0, OGID, TGID)]
    if T:
        idents += [(FOREIGN, 0, 0, 0), (RUID2, EUID2, EGID2, EGID2), (0, 0, RGID2, 0), (EUID2, EUID2, 0, EGID2)]
    for (r, e, rg, eg) in idents:
        owners = sorted({0, r, e, FOREIGN})
        for owner in owners:
            for fg in (True, False):
                for site in ("key", "seed", "log", "lock"):
                    if site == "log" and fg:
                        continue
                    if not T and owner == FOREIGN and not fg:
                        continue
                    c = base_case(fg=fg, euid=e, tg=(TGID if (r + eg) % 2 else None))
                    c["ids"] = (r, e, rg, eg)
                    c[site] = {"type": "reg", "uid": owner, "gid": 0, "mode": 0o200 if site == "lock" else 0o600}
                    add("ident", c)
            # a directory above each of the five names owned by that uid
            for site in SITES:
                c = base_case(fg=(site != "log"), euid=e, depth=2)
                c["ids"] = (r, e, rg, eg)
                ch = list(c["dirs"][site])
                ch[0] = (owner, OGID, 0o755)
                c["dirs"][site] = ch
                add("ident", c)
        # group-writable directories whose group is one of the process's gids: only the --trusted-group counts
        for g in sorted({rg, eg} - {0}):
            for tg in (None, TGID):
                c = base_case(fg=True, euid=e, tg=tg, depth=2)
                c["ids"] = (r, e, rg, eg)
                ch = list(c["dirs"]["key"])
                ch[0] = (0, g, 0o775)
                c["dirs"]["key"] = ch
                add("ident", c)
    # --- whatever is at the name of a file the daemon creates: nothing, a regular file of any owner and mode, a
    #     symlink to one, a dangling symlink, a directory, a FIFO, a socket
    def priors(site):
        # (no set-id modes: the kernel strips them when an unprivileged process writes to the file)
        out = []
        rmodes = (0o666, 0o644, 0o600, 0o777, 0o000, 0o200, 0o660, 0o640, 0o606, 0o755, 0o1644, 0o620) if T else \
                 (0o666, 0o644, 0o600, 0o777, 0o000, 0o200, 0o660, 0o606)
        for m in rmodes:
            for owner in ("euid", "foreign", "ruid"):
                out.append(("reg", owner, m))
        for m in (0o666, 0o600, 0o200, 0o644):
            for owner in ("euid", "foreign"):
                out.append(("symlink", owner, m))
        out += [("dangling", "euid", 0o777), ("dir", "euid", 0o755), ("dir", "foreign", 0o777), ("sock", "foreign", 0o777),
                ("sock", "euid", 0o600)]
        if site in ("pid", "sock"):
            out += [("fifo", "foreign", 0o666), ("fifo", "euid", 0o600)]    # unlinked before anything opens them
        if site == "lock":
            out += [("fifo", "euid", 0o200)]                                # blocks the start (observation)
        return out

    k = 0
    umasks = (0o022, 0o000, 0o077, 0o027, 0o002, 0o777, 0o026, 0o755)
    for site in PRIOR_SITES:
        for (typ, who, m) in priors(site):
            for fg in (True, False):
                if site == "log" and fg:
                    continue
                for force in ((False, True) if (site in ("lock", "log") or typ in ("symlink", "dangling")) and (T or m in (0o666, 0o200, 0o777, 0o755)) else (False,)):
                    k += 1
                    r, e, rg, eg = ((0, 0, 0, 0), (RUID2, 0, RGID2, 0), (0, 0, 0, 0), (EUID2, EUID2, EGID2, EGID2))[k % 4]
                    if e != 0 and (who != "euid" or typ == "fifo" or not (m & 0o200) or (site == "seed" and not (m & 0o400))):
                        r, e, rg, eg = (RUID2, 0, 0, EGID2)      # a non-root daemon may not open/replace those: outside the model
                    if typ == "fifo" and site == "lock" and force:
                        continue
                    c = base_case(fg=fg, euid=e, force=force, umask=umasks[k % len(umasks)])
                    c["ids"] = (r, e, rg, eg)
                    owner = {"euid": e, "foreign": FOREIGN, "ruid": r if r != e else FOREIGN}[who]
                    c[site] = {"type": typ, "uid": owner, "gid": (0, eg, OGID)[k % 3], "mode": m}
                    add("prior", c)
    # several names occupied at once
    for _ in range(400 if T else 40):
        e = rng.choice((0, 0, 0, EUID2))
        c = base_case(fg=rng.random() < 0.5, euid=e, umask=rng.choice(umasks))
        c["ids"] = (rng.choice((e, RUID2)), e, rng.choice((0, RGID2)), rng.choice((e, EGID2)))
        for site in PRIOR_SITES:
            if rng.random() < 0.6:
                typ = rng.choice(("reg", "reg", "symlink", "dangling") + (("sock", "fifo") if site in ("pid", "sock") else ()))
                c[site] = {"type": typ, "uid": e if (e != 0 or rng.random() < 0.5) else FOREIGN, "gid": 0,
                           "mode": rng.choice((0o666, 0o644, 0o600, 0o200, 0o640, 0o777)) | (0o600 if e != 0 else 0)}
        add("prior", c)
    # --- the directory rules hold whatever is at the file's name already: every defect the property lists, on each
    #     ancestor of each of the five names, crossed with {name free, file there with good owner/mode, file there
    #     with bad mode} and foreground/daemon mode (a later start finds log, seed, pid file and a stale socket)
    leafs = {
        "key": [{"type": "reg", "uid": 0, "gid": 0, "mode": 0o600}, {"type": "reg", "uid": 0, "gid": 0, "mode": 0o400}],
        "seed": [None, {"type": "reg", "uid": 0, "gid": 0, "mode": 0o600}, {"type": "reg", "uid": 0, "gid": 0, "mode": 0o644}],
        "log": [None, {"type": "reg", "uid": 0, "gid": 0, "mode": 0o640}, {"type": "reg", "uid": 0, "gid": 0, "mode": 0o666}],
        "sock": [None, {"type": "sock", "uid": 0, "gid": 0, "mode": 0o777}, {"type": "reg", "uid": 0, "gid": 0, "mode": 0o666}],
        "pid": [None, {"type": "reg", "uid": 0, "gid": 0, "mode": 0o644}, {"type": "reg", "uid": FOREIGN, "gid": 0, "mode": 0o666}],
    }
    defects = [((FOREIGN, OGID, 0o755), None), ((0, OGID, 0o775), None), ((0, OGID, 0o757), None),
               ((0, TGID, 0o775), TGID), ((0, OGID, 0o775), TGID), ((0, OGID, 0o1777), None)]
    if T:
        defects += [((FOREIGN, OGID, 0o1777), None), ((0, TGID, 0o777), TGID), ((EUID2, OGID, 0o755), None)]
    cdepth = 5 if T else 3
    k = 0
    for site in SITES:
        for leaf in leafs[site]:
            for (attr, tg) in defects:
                for pos in range(cdepth):
                    for fg in ((False,) if site == "log" else (True, False)):
                        k += 1
                        c = base_case(fg=fg, euid=0, tg=tg, depth=cdepth, umask=(0o022, 0o077, 0o000)[k % 3])
                        if k % 5 == 0:
                            c["ids"] = (RUID2, 0, RGID2, 0)
                        ch = list(c["dirs"][site])
                        ch[pos] = attr
                        c["dirs"][site] = ch
                        if leaf is not None:
                            c[site] = dict(leaf)
                        if site == "sock" and leaf is not None and k % 2:
                            c["lock"] = {"type": "reg", "uid": 0, "gid": 0, "mode": 0o200}   # left by the last run
                        add("cross", c)
    # --- a daemon that is NOT root whose seed and/or pid file live in a directory that is secure (root-owned 0755)
    #     but not writable by it, with a file there already: unlink fails (EACCES), open() reuses the old file,
    #     mode and all.  Modes are looked at while running (pid) and after a clean stop (seed).
    nr_modes = (0o600, 0o644, 0o666, 0o640, 0o700, 0o400)
    nr_umasks = (0o022, 0o000, 0o077, 0o027, 0o777) if T else (0o022, 0o000, 0o077)
    k = 0
    for which in (("seed",), ("pid",), ("seed", "pid")):
        for owner in ((EUID2, 0, FOREIGN) if T else (EUID2, 0)):
            for m in nr_modes:
                for fg in (True, False):
                    for um in (nr_umasks if T else (nr_umasks[k % 3],)):
                        k += 1
                        if not T and owner == 0 and (m not in (0o666, 0o644) or len(which) == 2 or not fg):
                            continue
                        c = base_case(fg=fg, euid=EUID2, umask=um)
                        if k % 4 == 0:
                            c["ids"] = (EUID2, EUID2, EGID2, EGID2)
                        for site in which:
                            c["dirs"][site] = [(0, 0, 0o755)]
                            c[site] = {"type": "reg", "uid": owner, "gid": 0, "mode": m}
                        add("noremove", c)
    for site in ("seed", "pid"):        # nothing there, and the directory not writable: nothing can be created
        for fg in (True, False):
            c = base_case(fg=fg, euid=EUID2)
            c["dirs"][site] = [(0, 0, 0o755)]
            add("noremove", c)
    if T:
        for site in ("seed", "pid"):    # the same through a symlink root planted there
            for typ in ("symlink", "dangling"):
                for fg in (True, False):
                    c = base_case(fg=fg, euid=EUID2)
                    c["dirs"][site] = [(0, 0, 0o755)]
                    c[site] = {"type": typ, "uid": EUID2, "gid": 0, "mode": 0o666}
                    add("noremove", c)
        for site in ("seed", "pid"):    # group-writable for the trusted group the daemon is not in; sticky root-owned
            for (attr, tg) in (((0, TGID, 0o775), TGID), ((0, 0, 0o1755), None)):
                for m in (0o644, 0o666):
                    c = base_case(fg=True, euid=EUID2, tg=tg)
                    c["dirs"][site] = [attr]
                    c[site] = {"type": "reg", "uid": EUID2, "gid": 0, "mode": m}
                    add("noremove", c)
    # --- seed acceptance does not depend on the trusted group: an existing seed of the effective user whose GROUP
    #     is the trusted group / another group / root's, with and without group (and other) permission bits, with
    #     --trusted-group set to that group, to another one, or not given.  "used" / "removed" are read off the real
    #     daemon (its "Seeded PRNG ... from <file>" line, the name gone while it runs)
    sg_modes = (0o660, 0o640, 0o620, 0o604, 0o600, 0o400, 0o664, 0o602) + ((0o610, 0o650, 0o606, 0o700) if T else ())
    k = 0
    for g in (TGID, OGID, 0):
        for m in sg_modes:
            for tg in (None, TGID, OGID):
                for fg in ((True, False) if T or m in (0o660, 0o640, 0o620, 0o600) else (bool(k % 2),)):
                    k += 1
                    e = EUID2 if k % 3 == 0 else 0
                    c = base_case(fg=fg, euid=e, tg=tg, umask=(0o022, 0o077)[k % 2])
                    if e != 0 and k % 2:
                        c["ids"] = (e, e, g or EGID2, g or EGID2)      # the daemon's own group is that group
                    c["seed"] = {"type": "reg", "uid": e, "gid": g, "mode": m}
                    add("seedgid", c)
    for tg in (None, TGID):             # ... and in a seed directory that is group-writable for the trusted group
        for m in (0o660, 0o640, 0o600):
            c = base_case(fg=True, euid=0, tg=tg, depth=2)
            c["dirs"]["seed"] = [(0, TGID, 0o775), (0, TGID, 0o775)]
            c["seed"] = {"type": "reg", "uid": 0, "gid": TGID, "mode": m}
            add("seedgid", c)
    # --- random combinations (order of the checks, several faults at once)
    for _ in range(8000 if T else 150):
        e = rng.choice((0, 0, 0, EUID2))
        d = rng.randrange(1, 4)
        c = base_case(fg=rng.random() < 0.5, euid=e, tg=rng.choice((None, TGID)), umask=rng.randrange(512), depth=d)
        for s in SITES:
            if rng.random() < 0.35:
                ch = list(c["dirs"][s])
                pos = rng.randrange(d)
                owner = rng.choice((0, e, FOREIGN)) if pos < d - 1 or e == 0 else rng.choice((e, FOREIGN))
                ch[pos] = (owner, rng.choice((TGID, OGID)), 0o755 | rng.choice((0, 0o020, 0o002, 0o022, 0o1020, 0o1002)))
                c["dirs"][s] = ch
        if rng.random() < 0.4:
            c["key"] = {"type": rng.choice(("reg", "reg", "symlink", "fifo")), "uid": rng.choice((e, e, FOREIGN)),
                        "gid": 0, "mode": rng.choice((0o600, 0o400, 0o640, 0o604, 0o660, 0o602))}
        if rng.random() < 0.4:
            c["seed"] = {"type": rng.choice(("reg", "reg", "symlink")), "uid": rng.choice((e, FOREIGN)), "gid": 0,
                         "mode": rng.choice((0o600, 0o644, 0o640, 0o400))}
        if rng.random() < 0.3:
            c["log"] = {"type": "reg", "uid": rng.choice((e, e, FOREIGN)), "gid": 0,
                        "mode": rng.choice((0o640, 0o600, 0o660, 0o642, 0o644))}
        if rng.random() < 0.15:
            c["lock"] = {"type": "reg", "uid": e, "gid": 0, "mode": rng.choice((0o200, 0o600))}
        add("random", c)
    # --- two of the five names in ONE directory (round 8: a directory found acceptable for one name - the log file's rule
    #     tolerates group-writable directories - was remembered and not examined again for another name kept in it):
    #     every ordered pair of sites, the shared directory with each kind of attribute, daemonized and in the foreground
    for a in SITES:
        for b in SITES:
            if a == b:
                continue
            for vi, attr in enumerate(((0, OGID, 0o775), (0, 0, 0o777), (0, 0, 0o1777), (FOREIGN, 0, 0o755), (0, 0, 0o755))):
                for fg in (False, True):
                    if not T and (vi + SITES.index(a) + SITES.index(b) + fg) % 2 and attr[2] != 0o775:
                        continue
                    c = base_case(fg=fg, euid=0, depth=2)
                    ch = list(c["dirs"][b])
                    ch[-1] = attr
                    c["dirs"][b] = ch
                    c["dirs"][a] = list(ch)
                    c["share"] = {a: b}
                    add("shared-dir", c)
    return cases


TYPE_LETTER = {stat.S_IFREG: "r", stat.S_IFDIR: "d", stat.S_IFLNK: "l", stat.S_IFIFO: "f", stat.S_IFSOCK: "s",
               stat.S_IFCHR: "c", stat.S_IFBLK: "b"}


def fstat_str(st):
    return "%s:%d:%d:%04o" % (TYPE_LETTER[stat.S_IFMT(st.st_mode)], st.st_uid, st.st_gid, st.st_mode & 0o7777)


def fobs_str(path):
    try:
        sym = stat.S_ISLNK(os.lstat(path).st_mode)
    except OSError:
        sym = False
    try:
        return "%d/%s" % (sym, fstat_str(os.stat(path)))
    except OSError:
        return "%d/-" % sym


def chain_of(d):
    d = os.path.realpath(d)
    out = []
    while True:
        st = os.lstat(d)
        out.append((st.st_uid, st.st_gid, st.st_mode & 0o7777))
        if d == "/":
            return out
        d = os.path.dirname(d)


def make_file(path, spec, payload):
    typ = spec["type"]
    target = path
    if typ in ("symlink", "dangling"):
        target = path + ".real"
        os.symlink(target if typ == "symlink" else path + ".nonexistent", path)
        if typ == "dangling":
            return
        typ = "reg"
    if typ == "reg":
        with open(target, "wb") as f:
            f.write(payload)
    elif typ == "fifo":
        os.mkfifo(target)
    elif typ == "sock":
        sk = socket.socket(socket.AF_UNIX, socket.SOCK_STREAM)
        sk.bind(target)
        sk.close()
    elif typ == "dir":
        os.mkdir(target)
    elif typ == "missing":
        return
    os.chown(target, spec["uid"], spec["gid"])
    os.chmod(target, spec["mode"])


def depth_of(p):
    return len([x for x in p.split("/") if x])


def classify(err, leaf):
    """first error line of munged -> site:why in the oracle's vocabulary"""
    m = re.search(r"Error:\s+(.*)", err)
    if not m:
        return "other:" + err.strip()[:80].replace(" ", "_")
    t = m.group(1)

    def pathmsg(site, rest):
        mm = re.match(r'(invalid ownership of|group-writable permissions without sticky bit set on|'
                      r'world-writable permissions without sticky bit set on|'
                      r'execute permissions for all required on) "([^"]*)"', rest)
        if not mm:
            return "%s:?%s" % (site, rest[:60].replace(" ", "_"))
        idx = depth_of(leaf[site]) - depth_of(mm.group(2))
        if mm.group(1).startswith("execute"):
            return "%s:access:%d" % (site, idx)
        return "%s:dir:%d:%s" % (site, idx, {"i": "O", "g": "G", "w": "W"}[mm.group(1)[0]])

    def filemsg(site, rest):
        for pat, w in (("must be a regular file", "type"), ("should not be a symbolic link", "symlink"),
                       ("should be owned by UID", "owner"), ("by group", "group"), ("by other", "other")):
            if pat in rest:
                return "%s:%s" % (site, w)
        return pathmsg(site, rest)

    if t.startswith("Keyfile is insecure: "):
        return filemsg("key", t[len("Keyfile is insecure: "):])
    if t.startswith("Failed to find keyfile"):
        return "key:missing"
    if t.startswith("PRNG seed dir is insecure: "):
        return pathmsg("seed", t[len("PRNG seed dir is insecure: "):])
    if t.startswith("Logfile is insecure: "):
        return filemsg("log", t[len("Logfile is insecure: "):])
    if t.startswith("Socket is insecure: "):
        return pathmsg("sock", t[len("Socket is insecure: "):])
    if t.startswith("Socket is inaccessible: "):
        return pathmsg("sock", t[len("Socket is inaccessible: "):])
    if t.startswith("Failed to validate lockfile"):
        return "lock:lockfile"
    if re.match(r'Failed to create "[^"]*\.lock"', t):
        return "lock:create"
    if t.startswith("Failed to remove socket") or t.startswith("Failed to bind socket"):
        return "bind:exists"
    if t.startswith("Failed to open logfile"):
        return "log:create"
    if t.startswith("PIDfile is insecure: "):
        return pathmsg("pid", t[len("PIDfile is insecure: "):])
    return "other:" + t[:80].replace(" ", "_")


def mode_of(path):
    try:
        st = os.lstat(path)
    except OSError:
        return None
    return st.st_mode


def o3(m):
    return "-" if m is None else "%03o" % (m & 0o7777)


PRIOR_SITES = ("seed", "log", "lock", "pid", "sock")     # names the daemon creates; a case may put something there first


def pids_by_marker(marker):
    out = []
    me = os.getpid()
    for q in os.listdir("/proc"):
        if q.isdigit() and int(q) != me:
            try:
                if marker.encode() in open("/proc/%s/cmdline" % q, "rb").read():
                    out.append(int(q))
            except OSError:
                pass
    return out


def proc_gone(pid):
    try:
        return open("/proc/%d/stat" % pid).read().split(")")[-1].split()[0] == "Z"
    except OSError:
        return True


def reg_nonempty(path):
    try:
        st = os.stat(path)
    except OSError:
        return False
    return stat.S_ISREG(st.st_mode) and st.st_size > 0


def trusted_spelling_phase(ctx, exe, top):
    """the socket directory is group-writable (no sticky bit) for group G.  munged may start only when G is the trusted group,
    i.e. when --trusted-group NAMES G: a decimal string that is not a GID at all (beyond 2^32-1, negative) names no group, in
    particular not the group its low 32 bits spell"""
    fails, n = [], 0
    for G, spell, ok in ((TGID, "%d" % TGID, True), (TGID, "%d" % (TGID + 1), False), (TGID, "%d" % (2 ** 32 + TGID), False),
                         (TGID, "%d" % (2 ** 33 + TGID), False), (0, "%d" % 2 ** 32, False), (0, "%d" % 2 ** 63, False),
                         (TGID, "%d" % (TGID - 2 ** 32), False), (5, "8589934597", False), (TGID, "0x%x" % TGID, False)):
        R = os.path.join(top, "ts%02d" % n)
        n += 1
        os.mkdir(R, 0o755)
        os.chmod(R, 0o755)
        sd = os.path.join(R, "sd")
        od = os.path.join(R, "od")
        for d_, g_, m_ in ((sd, G, 0o775), (od, 0, 0o755)):
            os.mkdir(d_)
            os.chown(d_, 0, g_)
            os.chmod(d_, m_)
        key = os.path.join(od, "key")
        with open(key, "wb") as f:
            f.write(os.urandom(32))
        os.chmod(key, 0o600)
        pid = os.path.join(od, "pid")
        errf = os.path.join(R, "stderr")
        argv = [exe, "-F", "-S", os.path.join(sd, "sock"), "--key-file=" + key, "--pid-file=" + pid, "--seed-file=" + os.path.join(od, "seed"),
                "--log-file=" + os.path.join(od, "log"), "--group-update-time=-1", "--num-threads=1", "--trusted-group=" + spell]
        with open(errf, "wb") as ef:
            p = subprocess.Popen(argv, stdin=subprocess.DEVNULL, stdout=ef, stderr=ef, cwd="/")
        started = False
        t0 = time.time()
        while time.time() - t0 < 10:
            if p.poll() is not None:
                break
            if reg_nonempty(pid):
                started = True
                break
            time.sleep(0.01)
        if p.poll() is None:
            p.send_signal(signal.SIGTERM)
            try:
                p.wait(timeout=5)
            except subprocess.TimeoutExpired:
                p.kill()
                p.wait()
        text = open(errf, "rb").read().decode(errors="replace")[-400:]
        ctx.count(("trusted-spelling", G, spell))
        if started and not ok:
            fails.append(("munged starts without --force although the socket directory is group-writable (0775, no sticky bit) for gid %d and "
                          "--trusted-group=%s does not name that group (it is not a GID at all, or another one)" % (G, spell), argv, text))
        elif ok and not started:
            fails.append(("munged refuses to start although the socket directory's group %d is the --trusted-group" % G, argv, text))
    return n, fails


def run_daemon_case(exe, top, idx, case):
    """builds the tree, runs munged, stops it; returns dict(model_line, impl, obs)"""
    R = os.path.join(top, "r%05d" % idx)
    res = {"case": case}
    launcher = os.path.join(os.path.dirname(exe), "c16_launch")
    try:
        os.mkdir(R, 0o755)
        os.chmod(R, 0o755)
        paths, leaf = {}, {}
        share = case.get("share") or {}
        for s in SITES:
            if s in share:
                continue          # kept in another site's directory (below)
            d = R
            made = []
            for i, (u, g, m) in enumerate(case["dirs"][s]):
                d = os.path.join(d, s + "d" if i == 0 else "x%d" % i)
                os.mkdir(d)
                made.append((d, u, g, m))
            for (dd, u, g, m) in made:
                os.chown(dd, u, g)
                os.chmod(dd, m)
            leaf[s] = d
            paths[s] = os.path.join(d, s)
        for s, other in share.items():
            leaf[s] = leaf[other]
            paths[s] = os.path.join(leaf[other], s)
        paths["lock"] = paths["sock"] + ".lock"
        make_file(paths["key"], case["key"], os.urandom(32))
        for s in PRIOR_SITES:
            if case.get(s) is not None:
                make_file(paths[s], case[s], os.urandom(1024) if s == "seed" else b"")
        euid, tg = case["euid"], case["tg"]
        ruid, euid_, rgid, egid = ids_of(case)
        assert euid_ == euid
        ids_s = "%d:%d:%d:%d:%d:%d" % (ruid, euid, euid, rgid, egid, egid)     # execve: saved := effective
        # what the model is told: lstat/stat of the tree as built
        line = ("U %d %d %s %d %03o key=%s keydir=%s seed=%s seeddir=%s log=%s logdir=%s sock=%s sockdir=%s lock=%s "
                "pid=%s piddir=%s") % (
            case["fg"], case["force"], ids_s, NO_TG if tg is None else tg, case["umask"],
            fobs_str(paths["key"]), fmt_attrs(chain_of(leaf["key"])),
            fobs_str(paths["seed"]), fmt_attrs(chain_of(leaf["seed"])),
            fobs_str(paths["log"]), fmt_attrs(chain_of(leaf["log"])),
            fobs_str(paths["sock"]), fmt_attrs(chain_of(leaf["sock"])),
            fobs_str(paths["lock"]), fobs_str(paths["pid"]), fmt_attrs(chain_of(leaf["pid"])))
        res["model_line"] = line
        res["before"] = {s: fobs_str(paths[s]) for s in PRIOR_SITES}
        seed_before = os.path.lexists(paths["seed"])
        errf = os.path.join(R, "stderr")
        argv = [launcher, str(ruid), str(euid), str(rgid), str(egid), "%o" % case["umask"], exe] \
            + (["-F"] if case["fg"] else []) + (["-f"] if case["force"] else []) + [
            "-S", paths["sock"], "--key-file=" + paths["key"], "--pid-file=" + paths["pid"],
            "--seed-file=" + paths["seed"], "--log-file=" + paths["log"], "--group-update-time=-1",
            "--origin=127.0.0.1", "--num-threads=1"] + (["--trusted-group=%d" % tg] if tg is not None else [])
        res["argv"] = argv
        with open(errf, "wb") as ef:
            os.chmod(errf, 0o666)
            p = subprocess.Popen(argv, stdin=subprocess.DEVNULL, stdout=ef, stderr=ef, cwd="/")
        started = False
        t0 = time.time()
        # a FIFO at the seed's or (without --force) the lock file's name is expected to block the start: do not
        # wait long for those; everything else gets the generous limit
        blocks = (case.get("seed") or {}).get("type") == "fifo" or \
            ((case.get("lock") or {}).get("type") == "fifo" and not case["force"])
        limit = 3 if blocks else 10
        if case["fg"]:
            while time.time() - t0 < limit:
                if p.poll() is not None:
                    break
                # started = the pid has been written; when a directory sits at the pid file's name the daemon
                # says so on stderr instead (write_pidfile is the last step of the start-up either way)
                if reg_nonempty(paths["pid"]) or re.search(rb"Failed to (open|set permissions of) PIDfile", open(errf, "rb").read()):
                    started = True
                    break
                time.sleep(0.004)
        else:
            try:
                started = (p.wait(timeout=limit) == 0)
            except subprocess.TimeoutExpired:
                pass
        obs = {"started": started}
        if started:
            for s in ("sock", "lock", "pid"):
                obs[s] = fobs_str(paths[s])
            obs["log"] = "-" if case["fg"] else fobs_str(paths["log"])
            obs["seed_removed"] = seed_before and not os.path.lexists(paths["seed"])
            try:
                obs["pid_content"] = open(paths["pid"]).read().strip() if reg_nonempty(paths["pid"]) else None
            except OSError:
                obs["pid_content"] = None
            # SIGTERM is repeated: a signal landing between job_accept's flag test and accept() is lost
            # (finding F-C12-accept, not this property's business)
            if case["fg"]:
                obs["daemon_pid"] = p.pid
                for _ in range(20):
                    p.send_signal(signal.SIGTERM)
                    try:
                        p.wait(timeout=0.5)
                        break
                    except subprocess.TimeoutExpired:
                        pass
                else:
                    p.kill()
                    p.wait()
                    obs["stuck"] = True
            else:
                dp = [q for q in pids_by_marker(R) if not proc_gone(q)]
                obs["daemon_pid"] = dp[0] if len(dp) == 1 else None
                gone = not dp
                for _ in range(20):
                    if gone:
                        break
                    for q in dp:
                        try:
                            os.kill(q, signal.SIGTERM)
                        except OSError:
                            pass
                    t1 = time.time()
                    while time.time() - t1 < 0.5 and not gone:
                        gone = all(proc_gone(q) for q in dp)
                        if not gone:
                            time.sleep(0.004)
                if not gone:
                    obs["stuck"] = True
            obs["seed"] = fobs_str(paths["seed"])
        else:
            if p.poll() is None:
                p.kill()
                p.wait()
                obs["hung"] = True
            obs["lock"] = fobs_str(paths["lock"])
            obs["sock"] = fobs_str(paths["sock"])
        text = open(errf, errors="replace").read()
        if started and not case["fg"]:
            try:
                text += open(paths["log"], errors="replace").read()
            except OSError:
                pass
        obs["text"] = text[-1500:]
        obs["seed_used"] = bool(re.search(r'Seeded PRNG with \d+ bytes? from "%s"' % re.escape(paths["seed"]), text))
        obs["seed_wrote"] = bool(re.search(r'Wrote \d+ bytes? to PRNG seed "%s"' % re.escape(paths["seed"]), text))
        obs["pid_wrote"] = bool(obs.get("pid_content"))
        if started:
            impl = "U start sock=%s lock=%s pid=%s log=%s seed=%s used=%d removed=%d pidw=%d wrote=%d" % (
                obs["sock"], obs["lock"], obs["pid"], obs["log"], obs["seed"], obs["seed_used"], obs["seed_removed"],
                obs["pid_wrote"], obs["seed_wrote"])
        elif obs.get("hung"):
            impl = "U hung"
        else:
            impl = "U refuse " + classify(text, leaf)
        res["impl"] = impl
        res["obs"] = obs
    except Exception as e:      # infrastructure trouble in one run: reported, never silently dropped
        import traceback
        res["error"] = "%r\n%s" % (e, traceback.format_exc())
    finally:
        _facts_mod.kill_by_marker(R)
        shutil.rmtree(R, ignore_errors=True)
    return res


def acceptable_file(spec, euid, mask):
    return (spec is not None and spec["type"] == "reg" and spec["uid"] == euid and (spec["mode"] & mask) == 0)


def parse_fobs(t):
    """'<symlink>/<type>:<uid>:<gid>:<mode>' -> dict(sym, type, uid, gid, mode) ; type None = nothing there"""
    sym, st = t.split("/", 1)
    if st == "-":
        return {"sym": sym == "1", "type": None}
    ty, u, g, m = st.split(":")
    return {"sym": sym == "1", "type": ty, "uid": int(u), "gid": int(g), "mode": int(m, 8)}


def created_file_clause(name, bound, exact, ftype, after, before, euid, umask, ids):
    """the clause about one file the daemon creates, judged on what lstat/stat report at its name after the start
    (before = the same beforehand).  "The pid/log/seed file is never more permissive than B" and "the socket it
    creates is 0777 / the lock file exactly 0200" speak about the file the daemon uses under that name: it has to
    be that file (not one reached through somebody's symlink), owned by the user munged acts as (a file of another
    owner is as permissive as its owner likes), with permission bits inside the bound."""
    a = parse_fobs(after)
    ctx_ = "(there before the start: %s; inherited umask %03o; process ruid:euid:rgid:egid = %s)" % (before, umask, ids)
    if a["type"] != ftype:
        return None if not exact else "%s is not a %s after the start: %s %s" % (
            name, {"r": "regular file", "s": "socket"}[ftype], after, ctx_)
    if exact:
        if a["mode"] != bound:
            return "%s mode is %04o, not %04o %s" % (name, a["mode"], bound, ctx_)
    elif a["mode"] & ~bound:
        return "%s mode %04o is more permissive than %04o %s" % (name, a["mode"], bound, ctx_)
    if a["uid"] != euid:
        return "%s belongs to uid %d, not to the effective uid %d munged runs as: its owner controls it %s" % (
            name, a["uid"], euid, ctx_)
    if a["sym"] and not (name == "lock file"):
        return "%s is reached through a symbolic link somebody else planted %s" % (name, ctx_)
    return None


def may_remove_at(case, site, prior):
    """may the daemon remove a name from the directory that holds the file of `site` (stated independently of the
    model): uid 0 always; otherwise write permission on that directory by owner/group/other class, and in a
    sticky directory only the owner of the directory or of the file"""
    ruid, euid, rgid, egid = ids_of(case)
    if euid == 0:
        return True
    u, g, m = case["dirs"][site][-1]
    w = bool(m & 0o200) if u == euid else bool(m & 0o020) if g == egid else bool(m & 0o002)
    if w and (m & 0o1000) and u != euid and not (prior.get("type") and not prior["sym"] and prior.get("uid") == euid):
        return False
    return w


def daemon_property(case, obs, tail, before):
    """the property itself, judged on what the daemon did; tail = chain above the run root (root first... leaf
    first order is irrelevant: every element is checked).  Every ownership rule is about the EFFECTIVE uid."""
    euid, tg = case["euid"], case["tg"]
    ids = ":".join(str(x) for x in ids_of(case))
    why_refuse = []
    if not case["force"]:
        if not acceptable_file(case["key"], euid, 0o066):
            why_refuse.append("key file %s (effective uid %d, process ruid:euid:rgid:egid = %s)" % (case["key"], euid, ids))
        for s in SITES:
            if s == "log" and case["fg"]:
                continue
            chain = list(reversed(case["dirs"][s])) + tail
            v = spec_chain(euid, tg, s == "log", chain)
            if v:
                why_refuse.append("%s directory #%d from the leaf: %s %s (effective uid %d, process ruid:euid:rgid:egid = %s)"
                                  % (s, v[0], v[1], chain[v[0]], euid, ids))
    if obs.get("hung"):
        if (case.get("seed") or {}).get("type") == "fifo":
            return None     # candidate finding reported as an observation (C16_seed_fifo_outcome), see run()
        if (case.get("lock") or {}).get("type") == "fifo" and not case["force"]:
            return None     # same kind (C16_lock_fifo_blocks)
        return "munged neither started nor refused within the time limit (there before the start: %s)" % before
    if obs["started"]:
        if why_refuse:
            return "munged starts without --force although: " + "; ".join(why_refuse[:3])
        um = case["umask"]
        w = created_file_clause("socket", 0o777, True, "s", obs["sock"], before["sock"], euid, um, ids)
        if w:
            return w
        lk = parse_fobs(obs["lock"])
        if not (case["force"] and lk["type"] != "r"):       # --force may carry on without a lock file
            w = created_file_clause("lock file", 0o200, True, "r", obs["lock"], before["lock"], euid, um, ids)
            if w:
                return w
        # the pid file: the clause is about the file that holds THIS daemon's pid.  When the daemon may remove the
        # old name (root always may) the file must be brand-new: within 0644, its own, no symlink.  When it may not
        # (not root, directory not writable by it) the old file is reused: within 0644 if it is the daemon's own;
        # a file of another owner that it may write but neither remove nor chmod keeps its mode (observation)
        pb = parse_fobs(before["pid"])
        if obs.get("pid_wrote"):
            if may_remove_at(case, "pid", pb) or pb["type"] is None:
                w = created_file_clause("pid file", 0o644, False, "r", obs["pid"], before["pid"], euid, um, ids)
                if w:
                    return w
            else:
                pa = parse_fobs(obs["pid"])
                if pa["type"] == "r" and pa["uid"] == euid and (pa["mode"] & ~0o644):
                    return ("pid file mode %04o is more permissive than 0644: the daemon (uid %d, not root) could not "
                            "remove its old pid file from a directory it may not write to (%s) and reused it, mode and "
                            "all (there before the start: %s; inherited umask %03o)"
                            % (pa["mode"], euid, case["dirs"]["pid"][-1], before["pid"], um))
                if pa["type"] == "r" and pa["uid"] != euid and (pa["mode"] & ~0o644):
                    obs["note_foreign_pid"] = "pid written into %s (before: %s), a file of another owner the daemon may " \
                        "write but neither remove nor chmod" % (obs["pid"], before["pid"])
        if obs.get("pid_content") is not None and obs.get("daemon_pid") and obs["pid_content"] != str(obs["daemon_pid"]):
            return "pid file holds %r, the daemon's pid is %d" % (obs["pid_content"], obs["daemon_pid"])
        if not case["fg"] and parse_fobs(before["log"])["type"] is None and not parse_fobs(before["log"])["sym"]:
            w = created_file_clause("created log file", 0o640, False, "r", obs["log"], before["log"], euid, um, ids)
            if w:
                return w
        elif not case["fg"] and not case["force"]:
            # a log file that was there already: its mode is left alone (observation C16_existing_log_keeps_mode),
            # but without --force it has to be the daemon's own file, not one reached through a symlink
            lg = parse_fobs(obs["log"])
            if lg["type"] == "r" and lg["uid"] != euid:
                return ("log file belongs to uid %d, not to the effective uid %d munged runs as: its owner controls it "
                        "(there before the start: %s; process ruid:euid:rgid:egid = %s)" % (lg["uid"], euid, before["log"], ids))
            if lg["sym"]:
                return "log file is reached through a symbolic link (there before the start: %s)" % before["log"]
        # the seed: what the daemon leaves at the name after a clean stop.  Removable old name: as before.  Not
        # removable (not root, directory not writable): a seed failing the checks is ignored and not used; whatever
        # the daemon then writes there at exit must be its own file and within 0600
        sb = parse_fobs(before["seed"])
        seed_removable = may_remove_at(case, "seed", sb)
        if seed_removable or sb["type"] is None:
            w = created_file_clause("seed file", 0o600, False, "r", obs["seed"], before["seed"], euid, um, ids)
            if w:
                return w
        elif obs.get("seed_wrote"):
            sa = parse_fobs(obs["seed"])
            if sa["type"] == "r" and (sa["mode"] & ~0o600):
                return ("seed file mode %04o is more permissive than 0600 after the daemon wrote a new seed into it: the "
                        "daemon (uid %d, not root) could not remove the old seed from a directory it may not write to "
                        "(%s) and reused it, mode and all (there before the start: %s; inherited umask %03o)"
                        % (sa["mode"], euid, case["dirs"]["seed"][-1], before["seed"], um))
            if sa["type"] == "r" and sa["uid"] != euid:
                return ("a new seed was written into a file of uid %d, not of the effective uid %d (there before the "
                        "start: %s)" % (sa["uid"], euid, before["seed"]))
        sd = case["seed"]
        if sd is not None and sd["type"] != "missing":
            ok = acceptable_file(sd, euid, 0o066)
            if not ok and obs["seed_used"]:
                return ("a seed file failing the ownership/permission checks was used (%s, mode %04o; effective uid %d, "
                        "process %s, --trusted-group %s)" % (sd, sd["mode"], euid, ids, "not given" if tg is None else tg))
            if not ok and sd["type"] != "dir" and not obs["seed_removed"] and seed_removable:
                return "a seed file failing the ownership/permission checks was not removed (%s)" % sd
    elif case["lock"] is None:
        # a refused start must not leave a wrong lock file behind either
        lk = parse_fobs(obs.get("lock", "0/-"))
        if lk["type"] == "r" and lk["mode"] != 0o200:
            return "lock file created with mode %04o, not 0200" % lk["mode"]
    return None


_facts_mod = None
NWORKERS = 12


def run_daemon_cases(exe, top, cases):
    """runs the cases in NWORKERS single-threaded worker processes (fork from a small process is cheap;
    forking from this one, with its case lists and threads, is not)"""
    n = max(1, min(NWORKERS, len(cases)))
    procs = []
    for w in range(n):
        procs.append(subprocess.Popen([sys.executable, os.path.abspath(__file__), "--worker", exe, top],
                                      stdin=subprocess.PIPE, stdout=subprocess.PIPE, text=True))
    outs = [None] * n

    def feed(w):
        lines = [json.dumps({"idx": i, "case": cases[i]}) for i in range(w, len(cases), n)]
        outs[w] = procs[w].communicate("\n".join(lines) + "\n")[0]

    th = [threading.Thread(target=feed, args=(w,)) for w in range(n)]
    for t in th:
        t.start()
    for t in th:
        t.join()
    results = [None] * len(cases)
    for w in range(n):
        for l in (outs[w] or "").splitlines():
            try:
                r = json.loads(l)
            except ValueError:
                continue
            results[r["idx"]] = r
    for i, r in enumerate(results):
        if r is None:
            results[i] = {"case": cases[i], "error": "worker produced no result for this case"}
    return results


def worker_main(exe, top):
    global _facts_mod
    _facts_mod = _facts()
    for l in sys.stdin:
        l = l.strip()
        if not l:
            continue
        j = json.loads(l)
        r = run_daemon_case(exe, top, j["idx"], j["case"])
        r["idx"] = j["idx"]
        sys.stdout.write(json.dumps(r) + "\n")
        sys.stdout.flush()


def run(ctx):
    global _facts_mod
    _facts_mod = _facts()
    ctx.level = "proof"
    os.chmod(ctx.tmp, 0o755)
    proved = vlib.prove(ctx, ["Properties_C16.v"], facts=["path"])
    ctx.log("proofs:", "ok" if proved else "BROKEN: " + getattr(ctx, "broken_obligation", "?"))
    ctx.cov["rule"] = (
        "proof: Properties_C16.v over PathModel with constants, call-site flags and creation recipes re-observed from "
        "/repo; correspondence (a): /repo's path.c run on real directory chains (every (owner in root/euid/foreign) x "
        "(gid trusted/other) x g+w x o+w x sticky combination on each directory up to depth 2 (3 thorough), each "
        "combination at each position of a depth-5 chain, random chains up to depth 6, reached directly / through a "
        "symlink / with ../ detours / via a file leaf; x euid {0,4242} x trusted group set/unset x flags {0,1}; and "
        "called by forked children with (real, effective, saved) uid and gid triples of every equality pattern, one "
        "directory owned by each of the ids in turn), "
        "path_is_accessible, path_dirname; (b): munged rebuilt from /repo started in generated trees (key modes x "
        "types x owners, each attribute combination on each ancestor of each of the five paths, umasks x fg/daemon "
        "mode for all 512 umasks, existing seed/log/lock files, --force, random combinations; started with real != "
        "effective uid/gid and key/seed/log/lock/directories owned by the real, the effective, root's or a foreign "
        "uid; with a regular file of assorted owners and modes / symlink / dangling symlink / directory / FIFO / "
        "socket already sitting at the pid, socket, lock, seed and log name; every directory defect on each ancestor "
        "of each of the five names crossed with name free / file there (good, bad mode) x foreground/daemon mode; a "
        "non-root daemon whose seed/pid file sits, already there with assorted owners and modes, in a secure directory "
        "it may not write to: unlink fails, the old file is reused; existing seeds of the effective user with group = "
        "trusted group / other / root x group and other permission bits x --trusted-group that group / another / unset); "
        "each answer judged by an independent "
        "statement of the property and diffed with the extracted model; non-trivial = every case")
    oracle = vlib.build_oracle(ctx, "path")
    R = vlib.REPO
    hsrc = [os.path.join(vlib.HARNESS, "path_harness.c")] + [os.path.join(R, p) for p in (
        "src/munged/path.c", "src/common/query.c", "src/common/xgetgr.c", "src/common/xgetpw.c",
        "src/libmissing/strlcpy.c")]
    harness, err = vlib.cc(ctx, "pathh", hsrc)
    if harness is None:
        ctx.violation("path harness does not build against /repo: " + err[-500:],
                      {"obligation": "correspondence C16 (harness build)", "stderr": err}, found_input=False)
        return
    munged = os.path.join(ctx.tmp, "munged")
    rc, err = _facts_mod.build_munged(R, vlib.INCS, vlib.DEFS, munged)
    if rc != 0:
        ctx.violation("munged does not build from /repo: " + err[-500:],
                      {"obligation": "correspondence C16 (daemon build)", "stderr": err}, found_input=False)
        return
    rcl = subprocess.run(["gcc", "-w", "-O1", "-o", os.path.join(ctx.tmp, "c16_launch"),
                          os.path.join(vlib.HARNESS, "c16_launch.c")], capture_output=True, text=True, timeout=120)
    if rcl.returncode != 0:
        ctx.violation("identity launcher does not build: " + rcl.stderr[-300:], {"obligation": "infrastructure"},
                      found_input=False)
        return
    ctx.cov["trusted_base"] += ["harness/path_harness.c, harness/c16_launch.c, tools/props/c16.py (tree builder, error-text classifier)",
                                "Linux: umask(2)/bind(2)/open(2) mode semantics, strace 6.1 output format"]
    replay_case = None
    if ctx.replay:
        replay_case = json.load(open(ctx.replay))
    direct_fail, mismatches, infra = [], [], []
    dist = {}

    # ---------------- (a) path.c on real trees
    pcases = gen_path_cases(ctx)
    if replay_case is not None:
        pcases = [replay_case["case_line"]] if "case_line" in replay_case else []
    if pcases:
        hb = os.path.join(ctx.tmp, "hb")
        os.mkdir(hb, 0o755)
        os.chmod(hb, 0o755)
        rc, impl, stderr = vlib.run_lines([harness, hb], pcases, timeout=1800)
        ctx.log("path.c ran %d cases rc=%d" % (len(pcases), rc))
        if rc != 0 or len(impl) != len(pcases):
            i = min(len(impl), len(pcases) - 1)
            ctx.violation("path.c harness aborts (sanitizer report or crash) at case %s" % pcases[i],
                          {"case_line": pcases[i], "stderr": stderr[-3000:], "rc": rc})
            return
        olines, oidx = [], []
        for i, (c, a) in enumerate(zip(pcases, impl)):
            ctx.count(c)
            dist[c[0]] = dist.get(c[0], 0) + 1
            why, left = path_case_property(c, a)
            if why:
                direct_fail.append((c, a, why))
            if left is not None:
                olines.append(left)
                oidx.append(i)
        for c in pcases[:2] + pcases[len(pcases) // 2:len(pcases) // 2 + 2]:
            ctx.sample(c)
        if oracle:
            rc2, mod, err2 = vlib.run_lines([oracle], olines, timeout=1800, env={"OCAMLRUNPARAM": "l=8G"})
            if rc2 != 0 or len(mod) != len(olines):
                ctx.violation("oracle failed to run: rc=%d %s" % (rc2, err2[-300:]), {"obligation": "oracle run"},
                              found_input=False)
                return
            for i, l, b in zip(oidx, olines, mod):
                a = impl[i].split(" => ")[1]
                if a != b:
                    mismatches.append((pcases[i], a, b))
            ctx.log("model ran %d path cases, %d mismatches" % (len(olines), len(mismatches)))
            # extraction cross-check inside Coq on a sample
            samp = [k for k in range(0, len(olines), max(1, len(olines) // 120)) if olines[k].startswith("P ")][:120]
            exprs = []
            for k in samp:
                f = olines[k].split()
                ch = "; ".join("mkd %d %d %d" % d for d in parse_chain(f[5]))
                exprs.append("path_is_secure %s %s %s (visited %s [%s])" % (f[1], f[2], f[3],
                             "true" if f[4] == "1" else "false", ch))
            res, e3 = vlib.coq_eval_sample(ctx, "From Coq Require Import List NArith.\nFrom MV Require Import PathModel.\n"
                                           "Import ListNotations.\nLocal Open Scope N_scope.", exprs)
            if res is None or len(res) != len(samp):
                ctx.notes.append("extraction cross-check could not run: %s" % (e3 or "")[-300:])
                if proved:
                    ctx.violation("vm_compute cross-check of extraction failed to run",
                                  {"obligation": "extraction cross-check", "err": e3}, found_input=False)
            else:
                bad = 0
                for k, r in zip(samp, res):
                    r = r.strip()
                    if r == "Secure":
                        want = "P 1"
                    else:
                        mm = re.match(r"Insecure (\d+) R(Owner|GroupW|WorldW)", r)
                        want = "P 0 %s %s" % (mm.group(1), mm.group(2)[0]) if mm else "?" + r
                    if want != mod[k]:
                        bad += 1
                ctx.cov["extraction_crosscheck"] = {"cases": len(samp), "disagreements": bad}
                if bad:
                    ctx.violation("extracted oracle disagrees with vm_compute on %d sample cases" % bad,
                                  {"obligation": "extraction cross-check"}, found_input=False)

    # ---------------- (b) the real daemon
    dcases = gen_daemon_cases(ctx)
    if replay_case is not None:
        dcases = [replay_case["case"]] if "case" in replay_case else []
    obs_log = None
    if dcases:
        top = os.path.join(ctx.tmp, "runs")
        os.mkdir(top, 0o755)
        os.chmod(top, 0o755)
        tail = chain_of(top)
        bad_tail = spec_chain(0, None, False, tail) or spec_chain(EUID2, None, False, tail)
        if bad_tail or any(d[2] & 0o111 != 0o111 for d in tail):
            ctx.violation("scratch area %s is not itself a secure, accessible path: %s" % (top, tail),
                          {"obligation": "infrastructure"}, found_input=False)
            return
        t0 = time.time()
        try:
            results = run_daemon_cases(munged, top, dcases)
        finally:
            n = _facts_mod.kill_by_marker(ctx.tmp)
            if n:
                ctx.notes.append("killed %d leftover processes" % n)
        ctx.log("daemon ran %d cases in %.1fs" % (len(dcases), time.time() - t0))
        mlines, midx = [], []
        for i, r in enumerate(results):
            c = r["case"]
            fam = c.get("fam", "?")
            dist["daemon:" + fam] = dist.get("daemon:" + fam, 0) + 1
            if "error" in r:
                infra.append(r["error"])
                continue
            ctx.count(r["model_line"])
            why = daemon_property(c, r["obs"], tail, r.get("before", {}))
            if r["obs"].get("stuck"):
                why = why or "munged did not exit within 10 s of SIGTERM"
            if why:
                direct_fail.append((r, r["impl"], why))
            mlines.append(r["model_line"])
            midx.append(i)
        for r in results[:2] + results[len(results) // 2:len(results) // 2 + 2]:
            if "model_line" in r:
                ctx.sample(r["model_line"][:300])
        if oracle and mlines:
            rc2, mod, err2 = vlib.run_lines([oracle], mlines, timeout=600)
            if rc2 != 0 or len(mod) != len(mlines):
                ctx.violation("oracle failed to run: rc=%d %s" % (rc2, err2[-300:]), {"obligation": "oracle run"},
                              found_input=False)
                return
            for i, l, b in zip(midx, mlines, mod):
                a = results[i]["impl"]
                if b.startswith("U hung "):         # the model also says where the start blocks
                    results[i]["hung_at"] = b.split()[2]
                    b = "U hung"
                if a != b:
                    mismatches.append((results[i], a, b))
            ctx.log("model ran %d daemon cases, %d mismatches so far" % (len(mlines), len(mismatches)))
            for (x, a, b) in mismatches[:3]:
                ctx.log("  mismatch: impl=%s | model=%s | %s" % (a, b, x if isinstance(x, str) else x.get("model_line", "")[:260]))
            ctx.cov["traces_validated_against_impl"] = len(mlines) + len(pcases)
        # observation: an existing 0644 log file is accepted and keeps its mode (C16_existing_log_keeps_mode)
        for r in results:
            c = r["case"]
            if "obs" in r and c["log"] and c["log"]["type"] == "reg" and c["log"]["mode"] == 0o644 \
                    and c["log"]["uid"] == c["euid"] and r["obs"]["started"] and c.get("fam") == "log":
                obs_log = "existing log file 0644 accepted without --force, afterwards %s" % r["obs"]["log"]
                break
        if obs_log:
            ctx.notes.append("observation replayed on the real daemon: " + obs_log)
        fpn = [r["obs"]["note_foreign_pid"] for r in results if "obs" in r and r["obs"].get("note_foreign_pid")]
        if fpn:
            ctx.notes.append("observation replayed on the real daemon (%d runs): %s; the fchmod that resets the mode of a "
                             "reused pid file fails (EPERM) and is only a warning (C16_pid_any_prior, last clause; "
                             "proposed: seeded/fixes/c16-pid-rechmod-fatal.diff)" % (len(fpn), fpn[0]))
        hungl = [r for r in results if "obs" in r and r["obs"].get("hung") and (r["case"].get("lock") or {}).get("type") == "fifo"]
        if hungl:
            ctx.notes.append("observation replayed on the real daemon (%d runs): a FIFO at the lock file's name blocks the "
                             "start in open(O_WRONLY) until a signal arrives (C16_lock_fifo_blocks)" % len(hungl))
        hung = [r for r in results if "obs" in r and r["obs"].get("hung") and (r["case"]["seed"] or {}).get("type") == "fifo"]
        if hung:
            ctx.notes.append("candidate finding replayed on the real daemon (%d runs): a FIFO at the seed path blocks "
                             "the start for ever in open(O_RDONLY), SIGTERM is swallowed by the EINTR retry loop "
                             "(C16_seed_fifo_outcome; proposed repair seeded/fixes/c16-seed-fifo-nonblock.diff)" % len(hung))
    # ---------------- (c) how the trusted group is NAMED: only a valid GID (or group name) names a group
    if dcases and replay_case is None and not direct_fail:
        tw = trusted_spelling_phase(ctx, munged, os.path.join(ctx.tmp, "runs"))
        dist["trusted-spelling"] = tw[0]
        for why, argv, text in tw[1]:
            direct_fail.append(({"case": {"fam": "trusted-spelling"}, "argv": argv, "model_line": "-", "obs": {"text": text}}, "started", why))
    ctx.cov["input_distribution"] = dist

    # ---------------- verdict
    def replay_of(x):
        if isinstance(x, str):
            d1 = getattr(x, "d1", None)
            return {"case_line": str(x), "depth1_base": d1} if d1 else {"case_line": x}
        return {"case": x["case"], "argv": x.get("argv"), "model_line": x.get("model_line"),
                "daemon_output": x.get("obs", {}).get("text", "")[-800:]}

    # ---------------- (a2) the same calls on trees rooted DIRECTLY below "/": the first component of the canonical path
    # (round 8: an upward walk that stopped one directory short of "/" never examined it).  The scratch tree's own
    # top directory gets each kind of attribute - world-writable without sticky bit, foreign owner, group-writable
    # for a foreign group, sticky, plain - and a sample of the cases above runs below it; the judge reads the chain
    # the harness reports with lstat(), so the expected answer follows from what is really on disk.
    d1cfg = replay_case.get("depth1_base") if replay_case is not None else None
    if (replay_case is None or d1cfg) and os.geteuid() == 0 and (pcases or d1cfg):
        class D1(str):
            pass
        cfgs = [d1cfg] if d1cfg else [[0o777, 0, 0], [0o755, FOREIGN, 0], [0o775, 0, FOREIGN], [0o1777, 0, 0], [0o755, 0, 0], [0o757, 0, 0]]
        pi = [c for c in pcases if c[0] in "PI"]
        sub = [replay_case["case_line"]] if d1cfg else pi[::max(1, len(pi) // (400 if ctx.thorough else 90))]
        n_d1 = 0
        for i, (mode, uid, gid) in enumerate(cfgs):
            b = "/mv-c16-d1-%d-%d" % (os.getpid(), i)
            try:
                os.mkdir(b, 0o755)
                os.chown(b, uid, gid)
                os.chmod(b, mode)
                rc, impl, stderr = vlib.run_lines([harness, b], sub, timeout=900)
                if rc != 0 or len(impl) != len(sub):
                    ctx.violation("path.c harness aborts below a top-level directory (mode %o uid %d gid %d) at case %s"
                                  % (mode, uid, gid, sub[min(len(impl), len(sub) - 1)]),
                                  {"case_line": sub[min(len(impl), len(sub) - 1)], "depth1_base": [mode, uid, gid], "stderr": stderr[-2000:]})
                    break
                ol, oi = [], []
                for k, (c, a) in enumerate(zip(sub, impl)):
                    ctx.count("d1:%o:%d:%d:%s" % (mode, uid, gid, c))
                    n_d1 += 1
                    why, left = path_case_property(c, a)
                    x = D1(c)
                    x.d1 = [mode, uid, gid]
                    if why:
                        direct_fail.append((x, a, "below the top-level directory %s (mode %o, uid %d, gid %d): %s" % (b, mode, uid, gid, why)))
                    if left is not None:
                        ol.append(left)
                        oi.append(k)
                if oracle and ol:
                    rc2, mod, err2 = vlib.run_lines([oracle], ol, timeout=900, env={"OCAMLRUNPARAM": "l=8G"})
                    for k, l, m_ in zip(oi, ol, mod):
                        a = impl[k].split(" => ")[1]
                        if a != m_:
                            x = D1(sub[k])
                            x.d1 = [mode, uid, gid]
                            mismatches.append((x, a, m_))
            finally:
                shutil.rmtree(b, ignore_errors=True)
        dist["depth1"] = n_d1
        ctx.log("path.c below %d kinds of top-level directory: %d cases" % (len(cfgs), n_d1))
    if infra:
        ctx.violation("%d daemon runs failed in the check's own machinery: %s" % (len(infra), infra[0][:300]),
                      {"obligation": "infrastructure", "errors": infra[:3]}, found_input=False)
    if direct_fail:
        # lead with a case where something insecure was accepted (rather than something secure refused)
        direct_fail.sort(key=lambda t: 0 if re.search(r"accepts|starts without|more permissive|belongs to|was used|is not|"
                                                      r"symbolic link|not removed", t[2]) else 1)
        x, a, why = direct_fail[0]
        d = replay_of(x)
        d.update({"impl_output": a, "why": why, "n_failing": len(direct_fail),
                  "more": [(w, (y if isinstance(y, str) else y.get("model_line"))) for (y, _, w) in direct_fail[1:5]]})
        ctx.violation("%s [%s] (%d failing cases)" % (why, a, len(direct_fail)), d)
    elif mismatches:
        x, a, b = mismatches[0]
        d = replay_of(x)
        d.update({"obligation": "correspondence PathModel ~ path.c/conf.c/random.c/munged.c/lock.c", "impl": a, "model": b})
        ctx.violation("model and implementation disagree on %d cases (first: impl=%s model=%s on %s) but the property "
                      "evaluated directly on the implementation holds on all cases"
                      % (len(mismatches), a, b, x if isinstance(x, str) else x.get("model_line", "")[:200]),
                      d, found_input=False)
    elif not proved:
        ctx.violation("proof obligation no longer checks: %s" % getattr(ctx, "broken_obligation", "?"),
                      {"obligation": getattr(ctx, "broken_obligation", "?"), "log": ctx.proof_log[-3000:]},
                      found_input=False)


if __name__ == "__main__" and len(sys.argv) == 4 and sys.argv[1] == "--worker":
    worker_main(sys.argv[2], sys.argv[3])
