"""C16 — start-up refuses insecure key/path/file settings; created files are safe."""
import importlib.util, itertools, json, os, re, shutil, signal, stat, subprocess, sys, threading, time
sys.path.insert(0, os.path.dirname(os.path.dirname(os.path.abspath(__file__))))
import vlib

MANIFEST = dict(
    level=("proof", "Twelve Coq theorems over an executable model of path.c's directory walk (chains of any length: "
           "secure <-> every directory acceptable, first offender and complaint reported), the key/seed/log file "
           "vetting of conf.c/random.c/munged.c, the order of the start-up checks and the mode/umask recipe of the "
           "five created files (all 512 umasks, foreground and daemon mode); flag values, permission bits, the flags "
           "each call site passes and the recipes are re-observed from a real start (strace + --wrap) on every run; "
           "tied to the code by running /repo's path.c on real directory trees (chown/chmod as root, two effective "
           "uids) and the real daemon rebuilt from /repo in generated trees, both diffed with the extracted model "
           "and judged by an independent statement of the property.", "7 C16"),
    note="Trusted: Coq kernel+vm_compute, facts probe (strace parser), extraction, harness/driver glue, Linux "
         "semantics of umask/bind; the C code is modelled and tied by differential testing, not verified. "
         "TOCTOU between the checks and the later open() calls is outside the model. Observation proved and "
         "replayed: a pre-existing log file keeps its mode (group/other read bits are not examined). Candidate "
         "finding proved and replayed on every run: a FIFO at the seed path wedges the start (random.c opens the "
         "seed without O_NONBLOCK); the theorem is stated so that it checks before and after the repair.",
    technique="Coq proof (induction over the chain + 512-value sweep lifted by lemma) + translator (probe, strace, "
              "--wrap) + differential correspondence on real trees and real daemon starts")

FOREIGN = 5151          # owner that is neither root nor any effective uid used here
EUID2 = 4242            # non-root effective uid for part of the runs
TGID = 7070             # the --trusted-group
OGID = 6060             # some other group
NO_TG = 4294967295
SITES = ("key", "seed", "log", "sock", "pid")


def _facts():
    spec = importlib.util.spec_from_file_location("facts_path", os.path.join(vlib.VERIF, "tools/facts/path.py"))
    m = importlib.util.module_from_spec(spec)
    spec.loader.exec_module(m)
    return m


# --------------------------------------------------------------------------------------------------
# the property, stated independently of the Coq model
# --------------------------------------------------------------------------------------------------
def spec_dir(euid, tg, ignore_gw, d):
    """None when directory d=(uid,gid,mode) is acceptable, else the first objection O/G/W"""
    u, g, m = d
    if u != 0 and u != euid:
        return "O"
    if (m & 0o020) and not (m & 0o1000) and not ignore_gw and not (tg is not None and g == tg):
        return "G"
    if (m & 0o002) and not (m & 0o1000):
        return "W"
    return None


def spec_chain(euid, tg, ignore_gw, chain):
    for i, d in enumerate(chain):
        r = spec_dir(euid, tg, ignore_gw, d)
        if r:
            return (i, r)
    return None


def parse_chain(s):
    return [] if s == "-" else [(int(a), int(b), int(c, 8)) for a, b, c in (t.split(":") for t in s.split(","))]


# --------------------------------------------------------------------------------------------------
# part (a): path.c on real trees
# --------------------------------------------------------------------------------------------------
def dir_attrs(euid_set):
    out = []
    for u in euid_set:
        for g in (TGID, OGID):
            for bits in range(8):
                m = 0o755 | (0o020 if bits & 1 else 0) | (0o002 if bits & 2 else 0) | (0o1000 if bits & 4 else 0)
                out.append((u, g, m))
    return out


CLEAN = (0, OGID, 0o755)


def fmt_attrs(a):
    return ",".join("%d:%d:%04o" % tuple(x) for x in a)


def gen_path_cases(ctx):
    rng = ctx.rng
    attrs = dir_attrs((0, EUID2, FOREIGN))
    glob = [(e, tg, fl) for e in (0, EUID2) for tg in ("-", str(TGID)) for fl in (0, 1)]
    cases = []
    full_depth = 3 if ctx.thorough else 2
    for k in range(1, full_depth + 1):
        for combo in itertools.product(attrs, repeat=k):
            for (e, tg, fl) in glob:
                cases.append("P %d %s %d d %d %s" % (e, tg, fl, k, fmt_attrs(combo)))
    # every attribute subset at each position of a depth-5 chain, the other directories clean
    for pos in range(5):
        for a in attrs:
            for (e, tg, fl) in glob:
                combo = [CLEAN] * 5
                combo[pos] = a
                form = "dsuf"[(pos + a[2] + e) % 4]
                cases.append("P %d %s %d %s 5 %s" % (e, tg, fl, form, fmt_attrs(combo)))
    for _ in range(60000 if ctx.thorough else 6000):
        k = rng.randrange(3, 7)
        # mostly-clean chains with one or two dirty directories, and fully random chains
        if rng.random() < 0.6:
            combo = [CLEAN] * k
            for _ in range(rng.choice((1, 1, 2))):
                combo[rng.randrange(k)] = rng.choice(attrs)
        else:
            combo = [rng.choice(attrs) for _ in range(k)]
        e, tg, fl = rng.choice(glob)
        cases.append("P %d %s %d %s %d %s" % (e, tg, fl, rng.choice("ddddsuf"), k, fmt_attrs(combo)))
    xmodes = (0o755, 0o750, 0o711, 0o710, 0o700, 0o754, 0o745, 0o355, 0o1777, 0o555, 0o111, 0o110)
    for _ in range(2000 if ctx.thorough else 300):
        k = rng.randrange(1, 6)
        cases.append("A %d %s" % (k, fmt_attrs([(0, 0, rng.choice(xmodes) if rng.random() < 0.4 else 0o755)
                                                for _ in range(k)])))
    dn = ["", "/", "//", "a", "a/", "/a", "/a/", "/a/b", "/a/b/", "/a//b//", "a/b", "a//b", "///a", ".", "..", "/.",
          "/a/.", "a/b/c/", "/usr/lib", "/usr/", "usr", "/run/munge/munge.socket.2", "/etc/munge/munge.key"]
    for n in range(1, 7 if ctx.thorough else 6):
        for t in itertools.product("/a.", repeat=n):
            dn.append("".join(t))
    for s in dn:
        cases.append("D %s" % vlib.hexs(s.encode()))
    return cases


def posix_dirname(s):
    """dirname(3): trailing slashes ignored, no slash -> ".", root stays "/" """
    t = s.rstrip("/")
    if t == "":
        return "/" if s.startswith("/") else "."
    i = t.rfind("/")
    if i < 0:
        return "."
    t = t[:i].rstrip("/")
    return t if t else "/"


def path_case_property(case, answer):
    """the property itself on one harness answer; returns (why or None, oracle input line or None)"""
    if case.startswith("D "):
        s = bytes.fromhex(case[2:]).decode() if case[2:] != "-" else ""
        f = answer.split()
        if len(f) != 2 or f[0] != "D":
            return "malformed harness answer", None
        got = None if f[1] == "!" else ("" if f[1] == "-" else bytes.fromhex(f[1]).decode())
        if got != posix_dirname(s):
            return "path_dirname(%r) = %r, dirname(3) says %r: the wrong directory would be vetted" % (
                s, got, posix_dirname(s)), None
        return None, None
    if " => " not in answer:
        return "malformed harness answer", None
    left, right = answer.split(" => ")
    f = left.split()
    if case.startswith("A "):
        chain = parse_chain(f[1])
        bad = next((i for i, d in enumerate(chain) if d[2] & 0o111 != 0o111), None)
        want = "A 1" if bad is None else "A 0 %d" % bad
        return (None if right == want else "path_is_accessible answers %s, expected %s" % (right, want)), left
    c = case.split()
    euid, tg, flags, leaf_is_dir = int(f[1]), int(f[2]), int(f[3]), f[4] == "1"
    chain = parse_chain(f[5])
    # the harness applied what the case asked for (leaf first in the answer, top first in the case)
    want_attrs = list(reversed(parse_chain(c[6])))
    got_attrs = chain[(0 if leaf_is_dir else 1):][:len(want_attrs)]
    if got_attrs != want_attrs or leaf_is_dir != (c[4] != "f"):
        return "harness did not build the requested chain (%s vs %s)" % (got_attrs, want_attrs), left
    visited = chain if leaf_is_dir else chain[1:]
    v = spec_chain(euid, None if tg == NO_TG else tg, bool(flags & 1), visited)
    want = "P 1" if v is None else "P 0 %d %s" % v
    if right == want:
        return None, left
    if right == "P 1":
        i, r = v
        return ("path_is_secure accepts a path whose directory #%d from the leaf %s (euid %d, trusted group %s, "
                "flags %d, chain %s)" % (i, {"O": "is owned by a foreign uid", "G": "is group-writable without "
                "sticky bit/trusted group", "W": "is world-writable without sticky bit"}[r], euid,
                "unset" if tg == NO_TG else tg, flags, f[5])), left
    return "path_is_secure answers %s, the property demands %s (chain %s)" % (right, want, f[5]), left


# --------------------------------------------------------------------------------------------------
# part (b): the real daemon in generated trees
# --------------------------------------------------------------------------------------------------
def base_case(fg=True, euid=0, tg=None, umask=0o022, force=False, depth=1):
    own = euid
    d = lambda: [(0, 0, 0o755)] * (depth - 1) + [(own, 0, 0o755)]
    return {"fg": fg, "force": force, "euid": euid, "tg": tg, "umask": umask,
            "dirs": {s: d() for s in SITES},
            "key": {"type": "reg", "uid": euid, "gid": 0, "mode": 0o600},
            "seed": None, "log": None, "lock": None}


def gen_daemon_cases(ctx):
    rng = ctx.rng
    cases = []
    T = ctx.thorough

    def add(fam, c):
        c["fam"] = fam
        cases.append(c)

    # --- key file: modes x types x owners
    if T:
        kmodes = list(range(512))
    else:
        kmodes = sorted({0, 0o600, 0o400, 0o200, 0o700, 0o500, 0o640, 0o620, 0o610, 0o660, 0o604, 0o602, 0o601,
                         0o606, 0o644, 0o666, 0o777, 0o711, 0o611, 0o066, 0o022, 0o044, 0o060, 0o006}
                        | {1 << b for b in range(9)} | {0o600 | (1 << b) for b in range(6)})
    for m in range(512):
        for typ in ("reg", "symlink"):
            for owner in ("euid", "other"):
                if m not in kmodes and not (typ == "reg" and owner == "euid"):
                    continue        # quick: all 512 modes for the regular key of euid, a boundary sample otherwise
                if not T and typ == "symlink" and owner == "other" and m not in (0o600, 0o640, 0o604):
                    continue
                # (a non-root daemon cannot open a key it may not read: file access control is outside the model)
                e = EUID2 if (m + len(typ)) % 5 == 0 and (m & 0o400) else 0
                c = base_case(fg=bool(m & 1) ^ (typ == "reg"), euid=e, umask=0o022)
                c["key"] = {"type": typ, "uid": e if owner == "euid" else FOREIGN, "gid": 0, "mode": m}
                add("key", c)
    # files owned by root while the daemon runs as somebody else: "owned by root" is not "owned by euid"
    for m in (0o600, 0o400, 0o640, 0o644, 0o604):
        for fg in (True, False):
            c = base_case(fg=fg, euid=EUID2)
            c["key"] = {"type": "reg", "uid": 0, "gid": 0, "mode": m}
            add("key", c)
            c = base_case(fg=fg, euid=EUID2)
            c["seed"] = {"type": "reg", "uid": 0, "gid": 0, "mode": m}
            add("seed", c)
        c = base_case(fg=False, euid=EUID2)
        c["log"] = {"type": "reg", "uid": 0, "gid": 0, "mode": m}
        add("log", c)
    for typ in ("fifo", "dir", "missing", "dangling"):
        for owner in (0, FOREIGN):
            for m in (0o600, 0o644):
                c = base_case(fg=(m == 0o600))
                c["key"] = {"type": typ, "uid": owner, "gid": 0, "mode": m}
                add("key", c)
    # --- an insecure ancestor on each of the five paths
    depth = 5 if T else 3
    variants = []
    for u in ("root", "euid", "foreign"):
        for g in (TGID, OGID):
            for bits in range(8):
                variants.append((u, g, bits))
    for site in SITES:
        for pos in range(depth):
            for (u, g, bits) in variants:
                for tg in (None, TGID):
                    if not T and (bits & 1) == 0 and tg is not None:
                        continue            # the trusted group only matters for group-writable directories
                    if not T and g == OGID and u == "euid" and bits in (0, 4):
                        continue
                    e = EUID2 if (pos + bits + len(site)) % 3 == 0 else 0
                    leaf = (pos == depth - 1)
                    if e != 0 and leaf and u == "root":
                        continue            # a non-root daemon cannot create files there: outside the model
                    c = base_case(fg=(site != "log") and bool((bits + pos) & 1), euid=e, tg=tg, depth=depth)
                    owner = {"root": 0, "euid": e, "foreign": FOREIGN}[u]
                    m = 0o755 | (0o020 if bits & 1 else 0) | (0o002 if bits & 2 else 0) | (0o1000 if bits & 4 else 0)
                    ch = list(c["dirs"][site])
                    ch[pos] = (owner, g, m)
                    c["dirs"][site] = ch
                    add("dir", c)
    if not T:       # quick: a boundary sample at every position of depth-5 chains as well
        for site in SITES:
            for pos in range(5):
                for (owner, g, m, tg) in ((FOREIGN, OGID, 0o755, None), (0, OGID, 0o775, None), (0, OGID, 0o757, None),
                                          (0, OGID, 0o1777, None), (0, TGID, 0o775, TGID), (0, OGID, 0o775, TGID),
                                          (0, TGID, 0o775, None), (0, OGID, 0o1775, None)):
                    c = base_case(fg=(site != "log") and bool(pos & 1), euid=0, tg=tg, depth=5)
                    ch = list(c["dirs"][site])
                    ch[pos] = (owner, g, m)
                    c["dirs"][site] = ch
                    add("dir", c)
    # --- inherited umasks
    # all 512 in both tiers (a start/stop costs ~20 ms); thorough adds a non-root daemon
    for u in range(512):
        for fg in (True, False):
            c = base_case(fg=fg, umask=u, euid=0)
            add("umask", c)
            if T:
                add("umask", base_case(fg=fg, umask=u, euid=EUID2))
            if u in (0o000, 0o077, 0o777, 0o027) or T and u % 16 == 5:
                c = base_case(fg=fg, umask=u, euid=0)
                c["seed"] = {"type": "reg", "uid": 0, "gid": 0, "mode": 0o600}
                c["log"] = None
                add("umask", c)
    # --- existing seed file
    smodes = (0o600, 0o400, 0o640, 0o604, 0o620, 0o602, 0o644, 0o666, 0o000, 0o700, 0o660, 0o606)
    for typ in ("reg", "symlink", "dangling", "dir"):
        for owner in ("euid", "other"):
            for m in (smodes if typ in ("reg", "symlink") else (0o600, 0o755)):
                if typ == "symlink" and not T and m not in (0o600, 0o644):
                    continue
                e = EUID2 if (m >> 3) % 3 == 1 and typ != "dir" else 0
                c = base_case(fg=bool(m & 0o040) or typ == "reg" and owner == "euid", euid=e)
                c["seed"] = {"type": typ, "uid": e if owner == "euid" else FOREIGN, "gid": 0, "mode": m}
                add("seed", c)
    for fg in (True, False):      # a FIFO in the seed's place: vetted like any non-regular file, or the start blocks
        c = base_case(fg=fg)
        c["seed"] = {"type": "fifo", "uid": 0, "gid": 0, "mode": 0o600}
        add("seed", c)
    for m in (0o600, 0o644):      # with --force an insecure seed directory is tolerated; the file is still vetted
        for dm in (0o775, 0o757):
            c = base_case(fg=True, force=True)
            c["dirs"]["seed"] = [(0, 0, dm)]
            c["seed"] = {"type": "reg", "uid": 0, "gid": 0, "mode": m}
            add("seed", c)
    # --- existing log file (daemon mode)
    for typ in ("reg", "symlink", "fifo", "dir"):
        for owner in ("euid", "other"):
            for m in ((0o640, 0o644, 0o600, 0o660, 0o620, 0o602, 0o606, 0o604, 0o666, 0o000, 0o400)
                      if typ == "reg" else (0o640, 0o622)):
                e = EUID2 if (m & 0o007) == 4 else 0
                c = base_case(fg=False, euid=e)
                c["log"] = {"type": typ, "uid": e if owner == "euid" else FOREIGN, "gid": 0, "mode": m}
                add("log", c)
    # --- existing lock file
    for owner in ("euid", "other"):
        for m in (0o200, 0o600, 0o644, 0o000, 0o220, 0o202, 0o1200, 0o300):
            for fg in (True, False):
                e = EUID2 if m == 0o200 and fg and owner == "euid" else 0
                c = base_case(fg=fg, euid=e)
                c["lock"] = {"type": "reg", "uid": e if owner == "euid" else FOREIGN, "gid": 0, "mode": m}
                add("lock", c)
    # --- socket directory not accessible to all
    for m in (0o750, 0o711, 0o700, 0o754, 0o745, 0o710):
        for pos in (0, 1):
            c = base_case(fg=bool(pos), depth=2)
            ch = list(c["dirs"]["sock"])
            ch[pos] = (0, 0, m)
            c["dirs"]["sock"] = ch
            add("access", c)
    # --- --force: complaints become warnings, except a missing or non-regular key
    for k in range(12 if T else 6):
        c = base_case(fg=bool(k & 1), force=True, umask=(0o077, 0o000, 0o027)[k % 3])
        for s in SITES:
            c["dirs"][s] = [(FOREIGN if (k + len(s)) % 2 else 0, 0, 0o777 if k % 3 else 0o775)]
        c["key"] = {"type": ("reg", "symlink", "reg", "fifo", "reg", "missing")[k % 6], "uid": FOREIGN, "gid": 0,
                    "mode": 0o666}
        if k % 2:
            c["lock"] = {"type": "reg", "uid": 0, "gid": 0, "mode": 0o644}
        add("force", c)
    # --- random combinations (order of the checks, several faults at once)
    for _ in range(8000 if T else 150):
        e = rng.choice((0, 0, 0, EUID2))
        d = rng.randrange(1, 4)
        c = base_case(fg=rng.random() < 0.5, euid=e, tg=rng.choice((None, TGID)), umask=rng.randrange(512), depth=d)
        for s in SITES:
            if rng.random() < 0.35:
                ch = list(c["dirs"][s])
                pos = rng.randrange(d)
                owner = rng.choice((0, e, FOREIGN)) if pos < d - 1 or e == 0 else rng.choice((e, FOREIGN))
                ch[pos] = (owner, rng.choice((TGID, OGID)), 0o755 | rng.choice((0, 0o020, 0o002, 0o022, 0o1020, 0o1002)))
                c["dirs"][s] = ch
        if rng.random() < 0.4:
            c["key"] = {"type": rng.choice(("reg", "reg", "symlink", "fifo")), "uid": rng.choice((e, e, FOREIGN)),
                        "gid": 0, "mode": rng.choice((0o600, 0o400, 0o640, 0o604, 0o660, 0o602))}
        if rng.random() < 0.4:
            c["seed"] = {"type": rng.choice(("reg", "reg", "symlink")), "uid": rng.choice((e, FOREIGN)), "gid": 0,
                         "mode": rng.choice((0o600, 0o644, 0o640, 0o400))}
        if rng.random() < 0.3:
            c["log"] = {"type": "reg", "uid": rng.choice((e, e, FOREIGN)), "gid": 0,
                        "mode": rng.choice((0o640, 0o600, 0o660, 0o642, 0o644))}
        if rng.random() < 0.15:
            c["lock"] = {"type": "reg", "uid": e, "gid": 0, "mode": rng.choice((0o200, 0o600))}
        add("random", c)
    return cases


TYPE_LETTER = {stat.S_IFREG: "r", stat.S_IFDIR: "d", stat.S_IFLNK: "l", stat.S_IFIFO: "f", stat.S_IFSOCK: "s",
               stat.S_IFCHR: "c", stat.S_IFBLK: "b"}


def fstat_str(st):
    return "%s:%d:%d:%04o" % (TYPE_LETTER[stat.S_IFMT(st.st_mode)], st.st_uid, st.st_gid, st.st_mode & 0o7777)


def fobs_str(path):
    try:
        sym = stat.S_ISLNK(os.lstat(path).st_mode)
    except OSError:
        sym = False
    try:
        return "%d/%s" % (sym, fstat_str(os.stat(path)))
    except OSError:
        return "%d/-" % sym


def chain_of(d):
    d = os.path.realpath(d)
    out = []
    while True:
        st = os.lstat(d)
        out.append((st.st_uid, st.st_gid, st.st_mode & 0o7777))
        if d == "/":
            return out
        d = os.path.dirname(d)


def make_file(path, spec, payload):
    typ = spec["type"]
    target = path
    if typ in ("symlink", "dangling"):
        target = path + ".real"
        os.symlink(target if typ == "symlink" else path + ".nonexistent", path)
        if typ == "dangling":
            return
        typ = "reg"
    if typ == "reg":
        with open(target, "wb") as f:
            f.write(payload)
    elif typ == "fifo":
        os.mkfifo(target)
    elif typ == "dir":
        os.mkdir(target)
    elif typ == "missing":
        return
    os.chown(target, spec["uid"], spec["gid"])
    os.chmod(target, spec["mode"])


def depth_of(p):
    return len([x for x in p.split("/") if x])


def classify(err, leaf):
    """first error line of munged -> site:why in the oracle's vocabulary"""
    m = re.search(r"Error:\s+(.*)", err)
    if not m:
        return "other:" + err.strip()[:80].replace(" ", "_")
    t = m.group(1)

    def pathmsg(site, rest):
        mm = re.match(r'(invalid ownership of|group-writable permissions without sticky bit set on|'
                      r'world-writable permissions without sticky bit set on|'
                      r'execute permissions for all required on) "([^"]*)"', rest)
        if not mm:
            return "%s:?%s" % (site, rest[:60].replace(" ", "_"))
        idx = depth_of(leaf[site]) - depth_of(mm.group(2))
        if mm.group(1).startswith("execute"):
            return "%s:access:%d" % (site, idx)
        return "%s:dir:%d:%s" % (site, idx, {"i": "O", "g": "G", "w": "W"}[mm.group(1)[0]])

    def filemsg(site, rest):
        for pat, w in (("must be a regular file", "type"), ("should not be a symbolic link", "symlink"),
                       ("should be owned by UID", "owner"), ("by group", "group"), ("by other", "other")):
            if pat in rest:
                return "%s:%s" % (site, w)
        return pathmsg(site, rest)

    if t.startswith("Keyfile is insecure: "):
        return filemsg("key", t[len("Keyfile is insecure: "):])
    if t.startswith("Failed to find keyfile"):
        return "key:missing"
    if t.startswith("PRNG seed dir is insecure: "):
        return pathmsg("seed", t[len("PRNG seed dir is insecure: "):])
    if t.startswith("Logfile is insecure: "):
        return filemsg("log", t[len("Logfile is insecure: "):])
    if t.startswith("Socket is insecure: "):
        return pathmsg("sock", t[len("Socket is insecure: "):])
    if t.startswith("Socket is inaccessible: "):
        return pathmsg("sock", t[len("Socket is inaccessible: "):])
    if t.startswith("Failed to validate lockfile"):
        return "lock:lockfile"
    if t.startswith("PIDfile is insecure: "):
        return pathmsg("pid", t[len("PIDfile is insecure: "):])
    return "other:" + t[:80].replace(" ", "_")


def mode_of(path):
    try:
        st = os.lstat(path)
    except OSError:
        return None
    return st.st_mode


def o3(m):
    return "-" if m is None else "%03o" % (m & 0o7777)


def run_daemon_case(exe, top, idx, case):
    """builds the tree, runs munged, stops it; returns dict(model_line, impl, obs)"""
    R = os.path.join(top, "r%05d" % idx)
    res = {"case": case}
    try:
        os.mkdir(R, 0o755)
        os.chmod(R, 0o755)
        paths, leaf = {}, {}
        for s in SITES:
            d = R
            made = []
            for i, (u, g, m) in enumerate(case["dirs"][s]):
                d = os.path.join(d, s + "d" if i == 0 else "x%d" % i)
                os.mkdir(d)
                made.append((d, u, g, m))
            for (dd, u, g, m) in made:
                os.chown(dd, u, g)
                os.chmod(dd, m)
            leaf[s] = d
            paths[s] = os.path.join(d, s)
        paths["lock"] = paths["sock"] + ".lock"
        make_file(paths["key"], case["key"], os.urandom(32))
        for s in ("seed", "log", "lock"):
            if case[s] is not None:
                make_file(paths[s], case[s], os.urandom(1024) if s == "seed" else b"")
        euid, tg = case["euid"], case["tg"]
        # what the model is told: lstat/stat of the tree as built
        line = "U %d %d %d %d %03o key=%s keydir=%s seed=%s seeddir=%s log=%s logdir=%s sockdir=%s lock=%s piddir=%s" % (
            case["fg"], case["force"], euid, NO_TG if tg is None else tg, case["umask"],
            fobs_str(paths["key"]), fmt_attrs(chain_of(leaf["key"])),
            fobs_str(paths["seed"]), fmt_attrs(chain_of(leaf["seed"])),
            fobs_str(paths["log"]), fmt_attrs(chain_of(leaf["log"])),
            fmt_attrs(chain_of(leaf["sock"])),
            fobs_str(paths["lock"]).split("/", 1)[1], fmt_attrs(chain_of(leaf["pid"])))
        res["model_line"] = line
        seed_before = os.path.lexists(paths["seed"])
        errf = os.path.join(R, "stderr")
        argv = [exe] + (["-F"] if case["fg"] else []) + (["-f"] if case["force"] else []) + [
            "-S", paths["sock"], "--key-file=" + paths["key"], "--pid-file=" + paths["pid"],
            "--seed-file=" + paths["seed"], "--log-file=" + paths["log"], "--group-update-time=-1",
            "--origin=127.0.0.1", "--num-threads=1"] + (["--trusted-group=%d" % tg] if tg is not None else [])
        res["argv"] = argv
        kw = dict(umask=case["umask"])
        if euid != 0:
            kw.update(user=euid, group=euid, extra_groups=[])
        with open(errf, "wb") as ef:
            os.chmod(errf, 0o666)
            p = subprocess.Popen(argv, stdin=subprocess.DEVNULL, stdout=ef, stderr=ef, cwd="/", **kw)
        started = False
        t0 = time.time()
        limit = 3 if (case["seed"] or {}).get("type") == "fifo" else 10
        if case["fg"]:
            while time.time() - t0 < limit:
                if p.poll() is not None:
                    break
                try:
                    if os.path.getsize(paths["pid"]) > 0:
                        started = True
                        break
                except OSError:
                    pass
                time.sleep(0.004)
        else:
            try:
                started = (p.wait(timeout=limit) == 0)
            except subprocess.TimeoutExpired:
                pass
        obs = {"started": started}
        if started:
            obs["sock"] = mode_of(paths["sock"])
            obs["lock"] = mode_of(paths["lock"])
            obs["pid"] = mode_of(paths["pid"])
            obs["log"] = None if case["fg"] else mode_of(paths["log"] + (".real" if (case["log"] or {}).get("type") == "symlink" else ""))
            obs["seed_removed"] = seed_before and not os.path.lexists(paths["seed"])
            pid = None
            try:
                pid = int(open(paths["pid"]).read().strip())
            except Exception:
                pass
            # SIGTERM is repeated: a signal landing between job_accept's flag test and accept() is lost
            # (finding F-C12-accept, not this property's business)
            if case["fg"]:
                for _ in range(20):
                    p.send_signal(signal.SIGTERM)
                    try:
                        p.wait(timeout=0.5)
                        break
                    except subprocess.TimeoutExpired:
                        pass
                else:
                    p.kill()
                    p.wait()
                    obs["stuck"] = True
            elif pid:
                gone = False
                for _ in range(20):
                    try:
                        os.kill(pid, signal.SIGTERM)
                    except OSError:
                        gone = True
                        break
                    t1 = time.time()
                    while time.time() - t1 < 0.5 and not gone:
                        try:
                            if open("/proc/%d/stat" % pid).read().split(")")[-1].split()[0] == "Z":
                                gone = True
                        except OSError:
                            gone = True
                        if not gone:
                            time.sleep(0.004)
                    if gone:
                        break
                if not gone:
                    obs["stuck"] = True
            sm = mode_of(paths["seed"])
            obs["seed"] = sm if (sm is not None and stat.S_ISREG(sm)) else None
        else:
            if p.poll() is None:
                p.kill()
                p.wait()
                obs["hung"] = True
            obs["lock"] = mode_of(paths["lock"])
            obs["sock"] = mode_of(paths["sock"])
        text = open(errf, errors="replace").read()
        if started and not case["fg"]:
            try:
                text += open(paths["log"], errors="replace").read()
            except OSError:
                pass
        obs["text"] = text[-1500:]
        obs["seed_used"] = bool(re.search(r'Seeded PRNG with \d+ bytes? from "%s"' % re.escape(paths["seed"]), text))
        if started:
            impl = "U start sock=%s lock=%s pid=%s log=%s seed=%s used=%d removed=%d" % (
                o3(obs["sock"]), o3(obs["lock"]), o3(obs["pid"]), o3(obs["log"]), o3(obs["seed"]),
                obs["seed_used"], obs["seed_removed"])
        elif obs.get("hung"):
            impl = "U hung"
        else:
            impl = "U refuse " + classify(text, leaf)
        res["impl"] = impl
        res["obs"] = obs
    except Exception as e:      # infrastructure trouble in one run: reported, never silently dropped
        import traceback
        res["error"] = "%r\n%s" % (e, traceback.format_exc())
    finally:
        _facts_mod.kill_by_marker(R)
        shutil.rmtree(R, ignore_errors=True)
    return res


def acceptable_file(spec, euid, mask):
    return (spec is not None and spec["type"] == "reg" and spec["uid"] == euid and (spec["mode"] & mask) == 0)


def daemon_property(case, obs, tail):
    """the property itself, judged on what the daemon did; tail = chain above the run root (root first... leaf
    first order is irrelevant: every element is checked)"""
    euid, tg = case["euid"], case["tg"]
    why_refuse = []
    if not case["force"]:
        if not acceptable_file(case["key"], euid, 0o066):
            why_refuse.append("key file %s" % case["key"])
        for s in SITES:
            if s == "log" and case["fg"]:
                continue
            chain = list(reversed(case["dirs"][s])) + tail
            v = spec_chain(euid, tg, s == "log", chain)
            if v:
                why_refuse.append("%s directory #%d from the leaf: %s %s" % (s, v[0], v[1], chain[v[0]]))
    if obs.get("hung"):
        if (case["seed"] or {}).get("type") == "fifo":
            return None     # candidate finding reported as an observation (C16_seed_fifo_outcome), see run()
        return "munged neither started nor refused within 10 s"
    if obs["started"]:
        if why_refuse:
            return "munged starts without --force although: " + "; ".join(why_refuse[:3])
        if obs["sock"] is None or (obs["sock"] & 0o7777) != 0o777:
            return "socket mode is %s, not 0777 (inherited umask %03o)" % (o3(obs["sock"]), case["umask"])
        if obs["lock"] is None or (obs["lock"] & 0o7777) != 0o200:
            return "lock file mode is %s, not 0200 (inherited umask %03o)" % (o3(obs["lock"]), case["umask"])
        if obs["pid"] is not None and (obs["pid"] & 0o7777 & ~0o644):
            return "pid file mode %s is more permissive than 0644 (umask %03o)" % (o3(obs["pid"]), case["umask"])
        if not case["fg"] and case["log"] is None and obs["log"] is not None and (obs["log"] & 0o7777 & ~0o640):
            return "created log file mode %s is more permissive than 0640 (umask %03o)" % (o3(obs["log"]), case["umask"])
        if obs["seed"] is not None and (obs["seed"] & 0o7777 & ~0o600):
            return "seed file mode %s is more permissive than 0600 (umask %03o)" % (o3(obs["seed"]), case["umask"])
        sd = case["seed"]
        if sd is not None and sd["type"] != "missing":
            ok = acceptable_file(sd, euid, 0o066)
            if not ok and obs["seed_used"]:
                return "a seed file failing the ownership/permission checks was used (%s)" % sd
            if not ok and sd["type"] != "dir" and not obs["seed_removed"]:
                return "a seed file failing the ownership/permission checks was not removed (%s)" % sd
    elif case["lock"] is None:
        # a refused start must not leave a wrong lock file behind either
        if obs.get("lock") is not None and stat.S_ISREG(obs["lock"]) and (obs["lock"] & 0o7777) != 0o200:
            return "lock file created with mode %s, not 0200" % o3(obs["lock"])
    return None


_facts_mod = None
NWORKERS = 12


def run_daemon_cases(exe, top, cases):
    """runs the cases in NWORKERS single-threaded worker processes (fork from a small process is cheap;
    forking from this one, with its case lists and threads, is not)"""
    n = max(1, min(NWORKERS, len(cases)))
    procs = []
    for w in range(n):
        procs.append(subprocess.Popen([sys.executable, os.path.abspath(__file__), "--worker", exe, top],
                                      stdin=subprocess.PIPE, stdout=subprocess.PIPE, text=True))
    outs = [None] * n

    def feed(w):
        lines = [json.dumps({"idx": i, "case": cases[i]}) for i in range(w, len(cases), n)]
        outs[w] = procs[w].communicate("\n".join(lines) + "\n")[0]

    th = [threading.Thread(target=feed, args=(w,)) for w in range(n)]
    for t in th:
        t.start()
    for t in th:
        t.join()
    results = [None] * len(cases)
    for w in range(n):
        for l in (outs[w] or "").splitlines():
            try:
                r = json.loads(l)
            except ValueError:
                continue
            results[r["idx"]] = r
    for i, r in enumerate(results):
        if r is None:
            results[i] = {"case": cases[i], "error": "worker produced no result for this case"}
    return results


def worker_main(exe, top):
    global _facts_mod
    _facts_mod = _facts()
    for l in sys.stdin:
        l = l.strip()
        if not l:
            continue
        j = json.loads(l)
        r = run_daemon_case(exe, top, j["idx"], j["case"])
        r["idx"] = j["idx"]
        sys.stdout.write(json.dumps(r) + "\n")
        sys.stdout.flush()


def run(ctx):
    global _facts_mod
    _facts_mod = _facts()
    ctx.level = "proof"
    os.chmod(ctx.tmp, 0o755)
    proved = vlib.prove(ctx, ["Properties_C16.v"], facts=["path"])
    ctx.log("proofs:", "ok" if proved else "BROKEN: " + getattr(ctx, "broken_obligation", "?"))
    ctx.cov["rule"] = (
        "proof: Properties_C16.v over PathModel with constants, call-site flags and creation recipes re-observed from "
        "/repo; correspondence (a): /repo's path.c run on real directory chains (every (owner in root/euid/foreign) x "
        "(gid trusted/other) x g+w x o+w x sticky combination on each directory up to depth 2 (3 thorough), each "
        "combination at each position of a depth-5 chain, random chains up to depth 6, reached directly / through a "
        "symlink / with ../ detours / via a file leaf; x euid {0,4242} x trusted group set/unset x flags {0,1}), "
        "path_is_accessible, path_dirname; (b): munged rebuilt from /repo started in generated trees (key modes x "
        "types x owners, each attribute combination on each ancestor of each of the five paths, umasks x fg/daemon "
        "mode for all 512 umasks, existing seed/log/lock files, --force, random combinations); each answer judged by an independent "
        "statement of the property and diffed with the extracted model; non-trivial = every case")
    oracle = vlib.build_oracle(ctx, "path")
    R = vlib.REPO
    hsrc = [os.path.join(vlib.HARNESS, "path_harness.c")] + [os.path.join(R, p) for p in (
        "src/munged/path.c", "src/common/query.c", "src/common/xgetgr.c", "src/common/xgetpw.c",
        "src/libmissing/strlcpy.c")]
    harness, err = vlib.cc(ctx, "pathh", hsrc)
    if harness is None:
        ctx.violation("path harness does not build against /repo: " + err[-500:],
                      {"obligation": "correspondence C16 (harness build)", "stderr": err}, found_input=False)
        return
    munged = os.path.join(ctx.tmp, "munged")
    rc, err = _facts_mod.build_munged(R, vlib.INCS, vlib.DEFS, munged)
    if rc != 0:
        ctx.violation("munged does not build from /repo: " + err[-500:],
                      {"obligation": "correspondence C16 (daemon build)", "stderr": err}, found_input=False)
        return
    ctx.cov["trusted_base"] += ["harness/path_harness.c, tools/props/c16.py (tree builder, error-text classifier)",
                                "Linux: umask(2)/bind(2)/open(2) mode semantics, strace 6.1 output format"]
    replay_case = None
    if ctx.replay:
        replay_case = json.load(open(ctx.replay))
    direct_fail, mismatches, infra = [], [], []
    dist = {}

    # ---------------- (a) path.c on real trees
    pcases = gen_path_cases(ctx)
    if replay_case is not None:
        pcases = [replay_case["case_line"]] if "case_line" in replay_case else []
    if pcases:
        hb = os.path.join(ctx.tmp, "hb")
        os.mkdir(hb, 0o755)
        os.chmod(hb, 0o755)
        rc, impl, stderr = vlib.run_lines([harness, hb], pcases, timeout=1800)
        ctx.log("path.c ran %d cases rc=%d" % (len(pcases), rc))
        if rc != 0 or len(impl) != len(pcases):
            i = min(len(impl), len(pcases) - 1)
            ctx.violation("path.c harness aborts (sanitizer report or crash) at case %s" % pcases[i],
                          {"case_line": pcases[i], "stderr": stderr[-3000:], "rc": rc})
            return
        olines, oidx = [], []
        for i, (c, a) in enumerate(zip(pcases, impl)):
            ctx.count(c)
            dist[c[0]] = dist.get(c[0], 0) + 1
            why, left = path_case_property(c, a)
            if why:
                direct_fail.append((c, a, why))
            if left is not None:
                olines.append(left)
                oidx.append(i)
        for c in pcases[:2] + pcases[len(pcases) // 2:len(pcases) // 2 + 2]:
            ctx.sample(c)
        if oracle:
            rc2, mod, err2 = vlib.run_lines([oracle], olines, timeout=1800, env={"OCAMLRUNPARAM": "l=8G"})
            if rc2 != 0 or len(mod) != len(olines):
                ctx.violation("oracle failed to run: rc=%d %s" % (rc2, err2[-300:]), {"obligation": "oracle run"},
                              found_input=False)
                return
            for i, l, b in zip(oidx, olines, mod):
                a = impl[i].split(" => ")[1]
                if a != b:
                    mismatches.append((pcases[i], a, b))
            ctx.log("model ran %d path cases, %d mismatches" % (len(olines), len(mismatches)))
            # extraction cross-check inside Coq on a sample
            samp = [k for k in range(0, len(olines), max(1, len(olines) // 120)) if olines[k].startswith("P ")][:120]
            exprs = []
            for k in samp:
                f = olines[k].split()
                ch = "; ".join("mkd %d %d %d" % d for d in parse_chain(f[5]))
                exprs.append("path_is_secure %s %s %s (visited %s [%s])" % (f[1], f[2], f[3],
                             "true" if f[4] == "1" else "false", ch))
            res, e3 = vlib.coq_eval_sample(ctx, "From Coq Require Import List NArith.\nFrom MV Require Import PathModel.\n"
                                           "Import ListNotations.\nLocal Open Scope N_scope.", exprs)
            if res is None or len(res) != len(samp):
                ctx.notes.append("extraction cross-check could not run: %s" % (e3 or "")[-300:])
                if proved:
                    ctx.violation("vm_compute cross-check of extraction failed to run",
                                  {"obligation": "extraction cross-check", "err": e3}, found_input=False)
            else:
                bad = 0
                for k, r in zip(samp, res):
                    r = r.strip()
                    if r == "Secure":
                        want = "P 1"
                    else:
                        mm = re.match(r"Insecure (\d+) R(Owner|GroupW|WorldW)", r)
                        want = "P 0 %s %s" % (mm.group(1), mm.group(2)[0]) if mm else "?" + r
                    if want != mod[k]:
                        bad += 1
                ctx.cov["extraction_crosscheck"] = {"cases": len(samp), "disagreements": bad}
                if bad:
                    ctx.violation("extracted oracle disagrees with vm_compute on %d sample cases" % bad,
                                  {"obligation": "extraction cross-check"}, found_input=False)

    # ---------------- (b) the real daemon
    dcases = gen_daemon_cases(ctx)
    if replay_case is not None:
        dcases = [replay_case["case"]] if "case" in replay_case else []
    obs_log = None
    if dcases:
        top = os.path.join(ctx.tmp, "runs")
        os.mkdir(top, 0o755)
        os.chmod(top, 0o755)
        tail = chain_of(top)
        bad_tail = spec_chain(0, None, False, tail) or spec_chain(EUID2, None, False, tail)
        if bad_tail or any(d[2] & 0o111 != 0o111 for d in tail):
            ctx.violation("scratch area %s is not itself a secure, accessible path: %s" % (top, tail),
                          {"obligation": "infrastructure"}, found_input=False)
            return
        t0 = time.time()
        try:
            results = run_daemon_cases(munged, top, dcases)
        finally:
            n = _facts_mod.kill_by_marker(ctx.tmp)
            if n:
                ctx.notes.append("killed %d leftover processes" % n)
        ctx.log("daemon ran %d cases in %.1fs" % (len(dcases), time.time() - t0))
        mlines, midx = [], []
        for i, r in enumerate(results):
            c = r["case"]
            fam = c.get("fam", "?")
            dist["daemon:" + fam] = dist.get("daemon:" + fam, 0) + 1
            if "error" in r:
                infra.append(r["error"])
                continue
            ctx.count(r["model_line"])
            why = daemon_property(c, r["obs"], tail)
            if r["obs"].get("stuck"):
                why = why or "munged did not exit within 10 s of SIGTERM"
            if why:
                direct_fail.append((r, r["impl"], why))
            mlines.append(r["model_line"])
            midx.append(i)
        for r in results[:2] + results[len(results) // 2:len(results) // 2 + 2]:
            if "model_line" in r:
                ctx.sample(r["model_line"][:300])
        if oracle and mlines:
            rc2, mod, err2 = vlib.run_lines([oracle], mlines, timeout=600)
            if rc2 != 0 or len(mod) != len(mlines):
                ctx.violation("oracle failed to run: rc=%d %s" % (rc2, err2[-300:]), {"obligation": "oracle run"},
                              found_input=False)
                return
            for i, l, b in zip(midx, mlines, mod):
                a = results[i]["impl"]
                sd = results[i]["case"]["seed"]
                if sd is not None and sd["type"] == "dir":      # a directory in the seed's place is never replaced
                    a = re.sub(r"seed=\S+", "seed=*", a)
                    b = re.sub(r"seed=\S+", "seed=*", b)
                if a != b:
                    mismatches.append((results[i], a, b))
            ctx.log("model ran %d daemon cases, %d mismatches so far" % (len(mlines), len(mismatches)))
            ctx.cov["traces_validated_against_impl"] = len(mlines) + len(pcases)
        # observation: an existing 0644 log file is accepted and keeps its mode (C16_existing_log_keeps_mode)
        for r in results:
            c = r["case"]
            if "obs" in r and c["log"] and c["log"]["type"] == "reg" and c["log"]["mode"] == 0o644 \
                    and c["log"]["uid"] == c["euid"] and r["obs"]["started"] and c.get("fam") == "log":
                obs_log = "existing log file 0644 accepted without --force, mode afterwards %s" % o3(r["obs"]["log"])
                break
        if obs_log:
            ctx.notes.append("observation replayed on the real daemon: " + obs_log)
        hung = [r for r in results if "obs" in r and r["obs"].get("hung") and (r["case"]["seed"] or {}).get("type") == "fifo"]
        if hung:
            ctx.notes.append("candidate finding replayed on the real daemon (%d runs): a FIFO at the seed path blocks "
                             "the start for ever in open(O_RDONLY), SIGTERM is swallowed by the EINTR retry loop "
                             "(C16_seed_fifo_outcome; proposed repair seeded/fixes/c16-seed-fifo-nonblock.diff)" % len(hung))
    ctx.cov["input_distribution"] = dist

    # ---------------- verdict
    def replay_of(x):
        if isinstance(x, str):
            return {"case_line": x}
        return {"case": x["case"], "argv": x.get("argv"), "model_line": x.get("model_line"),
                "daemon_output": x.get("obs", {}).get("text", "")[-800:]}

    if infra:
        ctx.violation("%d daemon runs failed in the check's own machinery: %s" % (len(infra), infra[0][:300]),
                      {"obligation": "infrastructure", "errors": infra[:3]}, found_input=False)
    if direct_fail:
        x, a, why = direct_fail[0]
        d = replay_of(x)
        d.update({"impl_output": a, "why": why, "n_failing": len(direct_fail),
                  "more": [(w, (y if isinstance(y, str) else y.get("model_line"))) for (y, _, w) in direct_fail[1:5]]})
        ctx.violation("%s [%s] (%d failing cases)" % (why, a, len(direct_fail)), d)
    elif mismatches:
        x, a, b = mismatches[0]
        d = replay_of(x)
        d.update({"obligation": "correspondence PathModel ~ path.c/conf.c/random.c/munged.c/lock.c", "impl": a, "model": b})
        ctx.violation("model and implementation disagree on %d cases (first: impl=%s model=%s on %s) but the property "
                      "evaluated directly on the implementation holds on all cases"
                      % (len(mismatches), a, b, x if isinstance(x, str) else x.get("model_line", "")[:200]),
                      d, found_input=False)
    elif not proved:
        ctx.violation("proof obligation no longer checks: %s" % getattr(ctx, "broken_obligation", "?"),
                      {"obligation": getattr(ctx, "broken_obligation", "?"), "log": ctx.proof_log[-3000:]},
                      found_input=False)


if __name__ == "__main__" and len(sys.argv) == 4 and sys.argv[1] == "--worker":
    worker_main(sys.argv[2], sys.argv[3])
