"""C04 — UID/GID decode restrictions are enforced, silently to the unauthorized."""
import itertools, os, time
import vlib, rig, credcorr

MANIFEST = dict(
    level=("proof", "Coq theorems over CredModel: the authorization decision (iff), its position before the time and "
           "replay checks for every credential state and replay state, reset reply naming only the client's ids, replay "
           "state unchanged (the refusal does not consume), decision made on the kernel-reported peer; tied to the code by "
           "driving the live daemon (rebuilt from /repo, substituted group/user databases, virtual clock) and the extracted "
           "model over restriction x client x credential-state products.", "7 C04"),
    note="Trusted: Coq kernel, extraction, rig, nss_shim.c (database substitution at link time). Group-map contents are "
         "C17's subject; here membership is an arbitrary function in the theorems and a generated database live.",
    technique="Coq proof (case analysis of dec_process) + live differential correspondence")

ANY = 0xFFFFFFFF
RESET = dict(cipher=0, mac=0, zip=0, realm_len=0, ttl=0, addr_len=0, time0=0, time1=0, cred_uid=ANY, cred_gid=ANY,
             auth_uid=ANY, auth_gid=ANY, data_len=0, data=b"")


def is_reset(r):
    return all(r[k] == v for k, v in RESET.items())


def run(ctx):
    ctx.level = "proof"
    proved = vlib.prove(ctx, ["Properties_C04.v"], facts=["cred", "base64", "cfun"])
    ctx.log("proofs:", "ok" if proved else "BROKEN: " + getattr(ctx, "broken_obligation", "?"))
    ctx.cov["rule"] = ("cases = (auth_uid in {ANY, client, other, 0}) x (auth_gid in {ANY, client primary, supplementary via "
                       "the generated group+passwd databases, non-member, 0}) x client (root / non-root, several gids) x "
                       "credential state {fresh, expired, rewound, already decoded}; each case mints a fresh credential on the "
                       "live daemon, decodes on daemon and model, compares replies; the property (decision, reset reply, "
                       "'does not consume') is evaluated independently in Python. non-trivial = distinct case tuple")
    try:
        exe, orc = credcorr.build_all(ctx, nss=True)
    except RuntimeError as e:
        ctx.violation(str(e), {"obligation": "build"}, found_input=False)
        return
    rng = ctx.rng
    # databases: duplicate gid entries, a user unknown to passwd, two names mapping to one uid
    # ... and members whose user-database entry is longer than the daemon's initial lookup buffer (the lookup must be
    # repeated with a larger buffer, not answered from what the previous lookup left behind)
    db = {"groups": [(700, ["ann", "bob"]), (701, ["cat"]), (700, ["dan"]), (702, []), (0, ["eve"]), (703, ["ghost", "ann2"]),
                     (704, ["fay", "longbob", "gus", "longest"]), (706, ["3999", "3002", "cat"]),   # all-digit names nobody bears
                     (708, ["hx"]), (709, ["hy", "hz"]),
                     # a name unknown to passwd listed a SECOND time (its lookup is answered from the scan's cache), as the first
                     # member of its group and right after a group with a resolvable member: nobody is a member of 713
                     (712, ["bob"]), (713, ["ghost", "ghost"])],   # members whose uids share a slot of the uid->groups table with uids that have no groups
          "users": [("ann", 3001), ("bob", 3002), ("cat", 3003), ("dan", 3004), ("eve", 3005), ("ann2", 3001), ("root", 0),
                    ("fay", 3011), ("longbob", 3010, 3000), ("gus", 3012), ("longest", 3013, 70000),
                    ("hx", 3999 + 2053), ("hy", 3999 + 2 * 2053), ("hz", 3005 + 2053)]}
    pw = {}
    for ent in db["users"]:
        pw.setdefault(ent[0], ent[1])
    members = sorted(set((pw[n], g) for g, names in db["groups"] for n in names if n in pw))

    def member(u, g):
        return (u, g) in members

    cr = credcorr.CredRig(ctx, exe, orc, nss_db=db, tag="c04", nthreads=2)
    if not cr.ok:
        ctx.violation("daemon does not start", {"obligation": "start", "stderr": ""}, found_input=False)
        return
    time.sleep(0.4)   # initial group map load runs on the timer thread
    clients = [(3001, 50), (3002, 700), (3004, 51), (3003, 52), (0, 0), (3999, 53), (0, 700), (3010, 55), (3011, 56), (3013, 57), (3005, 54)]
    if not ctx.thorough:
        clients = clients[:10] + [(3005, 54)]
    T0 = 1600000000
    fails, mism = [], []
    states = ["fresh", "expired", "rewound", "decoded"]
    dist = {s: 0 for s in states}
    n = 0
    for (cu, cg) in clients:
        for au in (ANY, cu, 3002 if cu != 3002 else 3001, 0):
            # ... incl. the gid that equals the client's UID number (the shim's passwd entries carry pw_gid = pw_uid: the gid field of
            # the client's OWN passwd line is not a membership) and groups whose members sit in the client's slot of the uid table
            for ag in (ANY, cg, 700, 701, 704, 706, 713, 0) + ((cu,) if cu not in (cg, 0) else ()) + ((708, 709) if cu in (3999, 3005) else ()):
                for state in states:
                    n += 1
                    if not ctx.thorough and state != "fresh" and (n % 3):
                        continue
                    cr.set_clock(T0)
                    r, diff = cr.encode_both(uid=4242, gid=4243, auth_uid=au, auth_gid=ag, ttl=100, data=b"secret-payload")
                    if diff:
                        mism.append(cr.mismatches[-1])
                    if r is None or r["error_num"] != 0:
                        fails.append({"why": "encode failed", "reply": str(r)})
                        continue
                    cred = r["data"]
                    ok_uid = (au == ANY or au == cu)
                    ok_gid = (ag == ANY or ag == cg or member(cu, ag))
                    want_auth = ok_uid and ok_gid
                    # an identity that is authorized for this credential (to pre-decode / to show it is not consumed)
                    fu = au if au != ANY else 4999
                    fg = ag if ag != ANY else 4998
                    if state == "decoded":
                        d0, m0, diff = cr.decode_both(cred, uid=fu, gid=fg, members=members)
                        if diff:
                            mism.append(cr.mismatches[-1])
                    if state == "expired":
                        cr.set_clock(T0 + 101)
                    elif state == "rewound":
                        cr.set_clock(T0 - 101)
                    d, m, diff = cr.decode_both(cred, uid=cu, gid=cg, members=members)
                    ctx.count((cu, cg, au, ag, state))
                    dist[state] += 1
                    if diff:
                        mism.append(cr.mismatches[-1])
                    if d is None:
                        fails.append({"why": "no reply", "case": (cu, cg, au, ag, state)})
                        continue
                    case = {"client": (cu, cg), "auth_uid": au, "auth_gid": ag, "state": state, "daemon_error": d["error_num"]}
                    if not want_auth:
                        if d["error_num"] != 18:
                            fails.append({"why": "client uid=%d gid=%d is NOT authorized for (auth_uid=%d, auth_gid=%d) but got error %d (%s) on a %s credential"
                                                 % (cu, cg, au, ag, d["error_num"], d["error_str"], state), **case})
                        elif not is_reset(d):
                            fails.append({"why": "unauthorized reply discloses credential fields", **case, "reply": str(d)[:400]})
                        elif str(cu) not in d["error_str"] or "4242" in d["error_str"]:
                            fails.append({"why": "unauthorized message does not name the client's own ids only: %r" % d["error_str"], **case})
                        elif state == "fresh":
                            # the refused attempt must not consume the credential
                            d2, m2, diff = cr.decode_both(cred, uid=fu, gid=fg, members=members)
                            if diff:
                                mism.append(cr.mismatches[-1])
                            if d2 is None or d2["error_num"] != 0 or d2["data"] != b"secret-payload":
                                fails.append({"why": "a refused decode consumed the credential: authorized decode afterwards gives %s"
                                                     % (d2 and (d2["error_num"], d2["error_str"]),), **case})
                    else:
                        want = {"fresh": 0, "expired": 15, "rewound": 16, "decoded": 17}[state]
                        if d["error_num"] != want:
                            fails.append({"why": "client uid=%d gid=%d IS authorized for (auth_uid=%d, auth_gid=%d) but a %s credential "
                                                 "gave error %d (%s), expected %d" % (cu, cg, au, ag, state, d["error_num"], d["error_str"], want), **case})
                    ctx.sample(case)
    # --- no group map at all (the scan of the group database keeps failing from the start): nobody is a supplementary
    #     member of anything; a gid restriction must still be enforced on the primary gid
    flag = os.path.join(ctx.tmp, "nss-fail")
    open(flag, "w").close()
    cf = credcorr.CredRig(ctx, exe, orc, nss_db=db, tag="c04nomap", nthreads=2)
    cf.d.env["VERIF_NSS_FAIL"] = flag
    if cf.ok:
        cf.d.stop(); cf.d.start()
        time.sleep(0.3)
        for (cu, cg, ag, want) in ((3001, 50, 700, 18), (3002, 700, 700, 0), (0, 0, 700, 18), (3999, 53, 701, 18)):
            r, _ = cf.encode_both(uid=4242, gid=4243, auth_gid=ag, data=b"gid restricted, no map")
            if r is None or r["error_num"] != 0:
                continue
            d, m, diff = cf.decode_both(r["data"], uid=cu, gid=cg, members=())
            ctx.count(("nomap", cu, cg, ag))
            dist["no-group-map"] = dist.get("no-group-map", 0) + 1
            if diff:
                mism.append(cf.mismatches[-1])
            if d is None or d["error_num"] != want:
                fails.append({"why": "no group map could be loaded (database scan fails): client uid=%d gid=%d, credential restricted to gid %d: "
                                     "error %s, expected %d" % (cu, cg, ag, d and d["error_num"], want), "client": (cu, cg), "auth_gid": ag})
        os.unlink(flag)
        cf.stop()
    # "the group database, via the user database" AS LAST LOADED: an account is deleted and re-created under another UID, its
    # old UID goes to somebody else; after the reload the NEW uid is the member and the old one is not
    db2 = {"groups": list(db["groups"]) + [(705, ["hal"])], "users": list(db["users"]) + [("hal", 3020)]}
    cr.d.write_nss(db2)
    cr.d.sighup(settle=0.5)
    db3 = {"groups": db2["groups"], "users": [u for u in db2["users"] if u[0] != "hal"] + [("hal", 3021), ("ivy", 3020)]}

    def may(uid):
        r_, _ = rig.encode(cr.d.sock, uid=4242, gid=4243, auth_gid=705, data=b"for group 705")
        if r_ is None or r_["error_num"] != 0:
            return None
        q_, _ = rig.decode(cr.d.sock, r_["data"], uid=uid, gid=60)
        return None if q_ is None else q_["error_num"]
    first = (may(3020), may(3021))
    cr.d.write_nss(db3)
    cr.d.sighup(settle=0.5)
    second = (may(3020), may(3021))
    ctx.count(("uid-reassigned", first, second))
    dist["uid-reassigned"] = 1
    if first != (0, 18) or second != (18, 0):
        fails.append({"why": "account 'hal' (member of group 705) re-created under another UID across a reload: before the change uid 3020/3021 get "
                             "%s (expected (0, 18)), after the reload %s (expected (18, 0)): the decision must follow the databases as last loaded"
                             % (first, second), "case": "uid-reassigned"})
    import conc
    pp, prep, pn = conc.peercred_fault_phase(ctx, label="c04pc")
    dist["peercred-fault"] = pn
    for pb in pp:
        fails.append(dict(pb, case="peercred-fault"))
    if prep.strip():
        ctx.violation("sanitizer report from the daemon during the identity-fault phase", {"report": prep[:3000]}, found_input=False)
    rc, rep = cr.stop()
    if rep.strip():
        ctx.violation("sanitizer report from the daemon during C04 cases", {"report": rep[:3000]}, found_input=False)
    ctx.cov["input_distribution"] = dist
    ctx.cov["group_db"] = {"members": members}
    ctx.cov["traces_validated_against_impl"] = ctx.cov["evaluations"]
    seen = set()
    for f in fails:
        k = f["why"][:50]
        if k in seen:
            continue
        seen.add(k)
        ctx.violation(f["why"], f, found_input=True)
    if not fails and mism:
        ctx.violation("model and daemon disagree on %d cases (first: %s); the property evaluated directly holds on all cases"
                      % (len(mism), mism[0]["diff"]), {"obligation": "correspondence CredModel ~ munged (C04)", "first": mism[0]},
                      found_input=False)
    if not fails and not mism and not proved:
        ctx.violation("proof obligation no longer checks: %s" % getattr(ctx, "broken_obligation", "?"),
                      {"obligation": getattr(ctx, "broken_obligation", "?"), "log": ctx.proof_log[-3000:]}, found_input=False)
