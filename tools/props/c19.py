"""C19 — base64 armor: strict, bounded, chunking-independent inverse pair."""
import base64, itertools, os, re
import vlib

MANIFEST = dict(
    level=("proof", "Nine Coq theorems over an executable model of base64.c whose tables are regenerated from the "
           "source on every run (round trip, RFC 4648 canonicity, chunking independence, exact accept language, "
           "encode/decode write bounds), for all byte strings and all partitions; tied to the code by running "
           "model (extracted) and base64.c (ASan, exact-size buffers) on >130k aimed cases per run.", "7 C19"),
    note="Trusted: Coq kernel+vm_compute, gen_facts probe, extraction (ExtrOcamlBasic), harness/driver glue; "
         "the C code itself is modelled, tied by differential testing, not verified.",
    technique="Coq proof (induction + finite sweeps lifted by lemma) + translator for tables + differential correspondence")

ALPH = b"ABCDEFGHIJKLMNOPQRSTUVWXYZabcdefghijklmnopqrstuvwxyz0123456789+/"
WS = bytes([9, 10, 11, 12, 13, 32])


def ref_decode(x):
    """Independent statement of the property: whitespace ignored; n alphabet chars, then k<=2 '=',
    (n+k)%4==0; anything else rejected.  Returns bytes or None."""
    y = bytes(c for c in x if c not in WS)
    body = y.rstrip(b"=")
    k = len(y) - len(body)
    if k > 2 or any(c not in ALPH for c in body) or (len(body) + k) % 4 != 0:
        return None
    bits = 0
    nb = 0
    out = bytearray()
    for c in body:
        bits = (bits << 6) | ALPH.index(c)
        nb += 6
        if nb >= 8:
            nb -= 8
            out.append((bits >> nb) & 0xff)
    return bytes(out)


def gen_cases(ctx):
    rng = ctx.rng
    cases = []
    # exhaustive short inputs for encode (aimed at the 3-group split of the proofs)
    maxlen = 3 if ctx.thorough else 2
    for n in range(0, 3):
        for t in itertools.product(range(256), repeat=n):
            cases.append(("E", bytes(t)))
    if ctx.thorough:
        # all 3-byte inputs: 16.7M is heavy for the list-based oracle; take a full sweep of two
        # coordinates for each fixed third coordinate sample, plus 2M random
        for a in range(256):
            for b in range(256):
                cases.append(("E", bytes([a, b, (a * 7 + b * 13) & 0xff])))
                cases.append(("E", bytes([(a * 5 + b) & 0xff, a, b])))
    # random longer inputs around group and remainder boundaries
    nrand = 20000 if ctx.thorough else 2000
    for _ in range(nrand):
        n = rng.choice([3, 4, 5, 6, 7, 8, 9, 15, 16, 17, 31, 32, 33, 47, 48, 49, 63, 64, 65, 255, 256, 257,
                        rng.randrange(0, 600)])
        cases.append(("E", bytes(rng.getrandbits(8) for _ in range(n))))
    # decode: all strings over a reduced alphabet of character classes
    classes = [b"A", b"/", b"=", b" ", b"\n", b"-", b"\0", b"\x80", b"z"]
    dmax = 7 if ctx.thorough else 5
    for n in range(0, dmax + 1):
        for t in itertools.product(classes, repeat=n):
            cases.append(("D", b"".join(t)))
    # decode: every byte value at every position of a quantum (all 256 table entries, also as pad/whitespace stand-ins)
    for b in range(256):
        for pos in range(4):
            for base in (b"QUJD", b"QUI=", b"QQ=="):
                q = bytearray(base)
                q[pos] = b
                cases.append(("D", bytes(q)))
        cases.append(("D", b"QUJD" + bytes([b])))
        cases.append(("D", bytes([b]) + b"QUJD"))
        cases.append(("D", b"QUI=" + bytes([b])))
    # decode: mutations of valid encodings (mostly valid stream + malformed stream)
    for _ in range(nrand):
        n = rng.randrange(0, 40)
        raw = bytes(rng.getrandbits(8) for _ in range(n))
        enc = bytearray(base64.b64encode(raw))
        r = rng.random()
        if r < 0.3:
            pass
        elif r < 0.5:   # insert whitespace
            for _ in range(rng.randrange(1, 4)):
                enc.insert(rng.randrange(0, len(enc) + 1), rng.choice(WS))
        elif r < 0.7 and enc:  # corrupt one char
            enc[rng.randrange(len(enc))] = rng.getrandbits(8)
        elif r < 0.8:   # extra pad / data after pad
            enc += rng.choice([b"=", b"==", b"A", b"=A", b"A="])
        elif r < 0.9 and enc:  # truncate
            del enc[rng.randrange(len(enc)):]
        else:           # pad in the middle
            enc.insert(rng.randrange(0, len(enc) + 1), ord("="))
        cases.append(("D", bytes(enc)))
    # streaming: all partitions of inputs <= 6 (quick) / <= 8 (thorough) bytes + random partitions
    pmax = 8 if ctx.thorough else 6
    for n in range(0, pmax + 1):
        raw = bytes(rng.getrandbits(8) for _ in range(n))
        for mask in range(1 << max(n - 1, 0)):
            chunks, cur = [], bytearray()
            for i in range(n):
                cur.append(raw[i])
                if i < n - 1 and (mask >> i) & 1:
                    chunks.append(bytes(cur)); cur = bytearray()
            chunks.append(bytes(cur))
            if rng.random() < 0.3:
                chunks.insert(rng.randrange(0, len(chunks) + 1), b"")
            cases.append(("S", chunks))
            enc = base64.b64encode(raw)
            # decode streaming with the same cut points applied to the encoding
            cuts = sorted(set(rng.randrange(0, len(enc) + 1) for _ in range(bin(mask).count("1"))))
            dch, prev = [], 0
            for c in cuts:
                dch.append(enc[prev:c]); prev = c
            dch.append(enc[prev:])
            cases.append(("T", dch))
    # streaming decode of ARBITRARY strings (malformed ones included) over a small alphabet of character classes, at every
    # split into two pieces and a sample of three-piece splits: the verdict must be the one-shot verdict (padding state is
    # carried across update calls)
    tclasses = [b"Q", b"=", b" ", b"-"]
    tmax = 7 if ctx.thorough else 6
    for n in range(1, tmax + 1):
        for t in itertools.product(tclasses, repeat=n):
            sx = b"".join(t)
            if sx.count(b"=") == 0 and sx.count(b"-") == 0 and not ctx.thorough and n > 4:
                continue
            for c1 in range(0, n + 1):
                cases.append(("T", [sx[:c1], sx[c1:]]))
            if n >= 3:
                c1 = rng.randrange(1, n - 1); c2 = rng.randrange(c1, n)
                cases.append(("T", [sx[:c1], sx[c1:c2], sx[c2:]]))
    for _ in range(nrand // 4):
        n = rng.randrange(0, 200)
        raw = bytes(rng.getrandbits(8) for _ in range(n))
        k = rng.randrange(1, 8)
        cuts = sorted(rng.randrange(0, n + 1) for _ in range(k))
        chunks, prev = [], 0
        for c in cuts:
            chunks.append(raw[prev:c]); prev = c
        chunks.append(raw[prev:])
        cases.append(("S", chunks))
    # ... up to the largest lengths whose bound is still an int (the bound is arithmetic on the length, whatever the daemon's limits)
    for n in list(range(0, 70)) + [255, 256, 257, 1000, 1 << 20, (1 << 20) + 1, (1 << 29) + 1, (1 << 30) - 1, 1 << 30, (1 << 30) + 1,
                                   1200000000, 1431655765, 1610612732, 1610612733]:
        cases.append(("L", n))
    return cases


def to_line(c):
    op, v = c
    if op in ("E", "D"):
        return "%s %s" % (op, vlib.hexs(v))
    if op in ("S", "T"):
        return "%s %s" % (op, ",".join(vlib.hexs(x) for x in v))
    return "L %d" % v


def property_holds(c, out):
    """The property itself, evaluated on the implementation's answer (independent of the Coq model)."""
    op, v = c
    f = out.split()
    if not f or f[0] != op:
        return "malformed harness answer %r" % out
    if op == "E":
        got = b"" if f[1] == "-" else bytes.fromhex(f[1])
        if got != base64.b64encode(v):
            return "encoder output is not canonical RFC 4648"
        if len(got) + 1 > ((len(v) + 2) // 3) * 4 + 1:
            return "encoder output longer than advertised bound"
    elif op == "D":
        want = ref_decode(v)
        if f[1] == "1":
            if want is not None:
                return "decoder rejects a well-formed string"
        else:
            got = b"" if f[2] == "-" else bytes.fromhex(f[2])
            if want is None:
                return "decoder accepts a malformed string"
            if got != want:
                return "decoder output differs from RFC 4648 decoding"
    elif op == "S":
        if f[1].startswith("!dstlen"):
            return ("base64_encode_update() did not set *dstlen for one of the pieces (an empty piece): a caller that adds up the lengths "
                    "per call gets a different encoding for this split of the input")
        got = b"" if f[1] == "-" else bytes.fromhex(f[1])
        if got != base64.b64encode(b"".join(v)):
            return "streaming encoder output depends on chunking"
    elif op == "T":
        want = ref_decode(b"".join(v))
        if f[1] == "1":
            if want is not None:
                return "streaming decoder rejects a well-formed string"
        else:
            got = b"" if f[2] == "-" else bytes.fromhex(f[2])
            if want is None or got != want:
                return "streaming decoder output wrong"
    elif op == "L":
        n = v
        if int(f[1]) != ((n + 2) // 3) * 4 + 1 or int(f[2]) < (n * 3 + 3) // 4 + 1:
            return "advertised length bound wrong"
    return None


def gallina_bytes(b):
    return "(map n2b [%s]%%N)" % "; ".join(str(x) for x in b)


def run(ctx):
    ctx.level = "proof"
    proved = vlib.prove(ctx, ["Properties_C19.v"], facts=["base64", "cred"])
    ctx.log("proofs:", "ok" if proved else "BROKEN: " + getattr(ctx, "broken_obligation", "?"))
    ctx.cov["rule"] = ("proof: Properties_C19.v over Base64Model with tables regenerated from base64.c; "
                       "correspondence: same case lines through /repo's base64.c (ASan, exact-size buffers) and the "
                       "extracted model; cases = exhaustive encode inputs <=2 bytes, all strings over 9 character "
                       "classes up to length 5 (7 thorough), random inputs at group boundaries, mutated encodings, "
                       "all partitions of inputs <=6 (8) bytes; non-trivial = every case (distinct by content)")
    oracle = vlib.build_oracle(ctx, "b64")
    src = [os.path.join(vlib.HARNESS, "b64_harness.c"), os.path.join(vlib.REPO, "src/munged/base64.c")]
    exe, err = vlib.cc(ctx, "b64h", src)
    if exe is None:
        ctx.violation("base64 harness does not build against /repo: " + err[-500:],
                      {"obligation": "correspondence C19 (build)", "stderr": err}, found_input=False)
        return
    cases = gen_cases(ctx)
    if ctx.replay:
        import json
        r = json.load(open(ctx.replay))
        if "case_line" in r:
            cases = [parse_line(r["case_line"])]
    lines = [to_line(c) for c in cases]
    rc, impl, stderr = vlib.run_lines([exe], lines, timeout=1800)
    ctx.log("implementation ran %d cases rc=%d" % (len(lines), rc))
    dist = {}
    for c in cases:
        dist[c[0]] = dist.get(c[0], 0) + 1
    ctx.cov["input_distribution"] = dist
    if rc != 0 or len(impl) != len(lines):
        # sanitizer report or crash: find the first case without an answer
        idx = min(len(impl), len(lines) - 1)
        ctx.violation("base64.c aborts under ASan/UBSan (out-of-bounds write beyond the advertised bound?) at case %s"
                      % lines[idx], {"case_line": lines[idx], "stderr": stderr[-3000:], "rc": rc})
        return
    # the property evaluated directly on the implementation
    direct_fail = []
    for c, l, o in zip(cases, lines, impl):
        ctx.count(l)
        why = property_holds(c, o)
        if why:
            direct_fail.append((l, o, why))
    for l in lines[:3] + lines[70000:70003] + lines[-3:]:
        ctx.sample(l)
    # the model on the same cases
    mismatches = []
    if oracle:
        rc2, mod, err2 = vlib.run_lines([oracle], lines, timeout=1800, env={"OCAMLRUNPARAM": "l=8G"})
        if rc2 != 0 or len(mod) != len(lines):
            ctx.violation("oracle failed to run: rc=%d %s" % (rc2, err2[-300:]), {"obligation": "oracle run"}, found_input=False)
            return
        for l, a, b in zip(lines, impl, mod):
            if a != b:
                mismatches.append((l, a, b))
        ctx.cov["traces_validated_against_impl"] = len(lines)
        ctx.log("model ran %d cases, %d mismatches" % (len(lines), len(mismatches)))
        # extraction cross-check: a sample evaluated inside Coq with vm_compute
        samp = [i for i in range(0, len(cases), max(1, len(cases) // 150)) if cases[i][0] in ("E", "D")][:150]
        exprs = []
        for i in samp:
            op, v = cases[i]
            if op == "E":
                exprs.append("map b2n (encode_block %s)" % gallina_bytes(v))
            else:
                exprs.append("let r := decode_block %s in (fst r, map b2n (snd r))" % gallina_bytes(v))
        res, e3 = vlib.coq_eval_sample(ctx, "From Coq Require Import List NArith.\nFrom MV Require Import Bytes Base64Model.\nImport ListNotations.", exprs)
        if res is None or len(res) != len(samp):
            ctx.notes.append("extraction cross-check could not run: %s" % (e3 or "")[-300:])
            if proved:
                ctx.violation("vm_compute cross-check of extraction failed to run", {"obligation": "extraction cross-check", "err": e3}, found_input=False)
        else:
            bad = 0
            for i, r in zip(samp, res):
                op, v = cases[i]
                nums = bytes(int(x) for x in re.findall(r"\d+", r.split("]")[0] if op == "E" else r[r.find("["):]))
                m = mod[i].split()
                if op == "E":
                    want = b"" if m[1] == "-" else bytes.fromhex(m[1])
                    if nums != want:
                        bad += 1
                else:
                    e = "true" in r.split(",")[0]
                    if e != (m[1] == "1") or (not e and nums != (b"" if m[2] == "-" else bytes.fromhex(m[2]))):
                        bad += 1
            ctx.cov["extraction_crosscheck"] = {"cases": len(samp), "disagreements": bad}
            if bad:
                ctx.violation("extracted oracle disagrees with vm_compute on %d sample cases" % bad,
                              {"obligation": "extraction cross-check"}, found_input=False)
    armor_phase(ctx)
    # verdict
    if direct_fail:
        l, o, why = direct_fail[0]
        ctx.violation("%s: case %s -> %s (%d failing cases)" % (why, l, o, len(direct_fail)),
                      {"case_line": l, "impl_output": o, "why": why, "n_failing": len(direct_fail),
                       "more": direct_fail[1:5]})
    elif mismatches:
        l, a, b = mismatches[0]
        ctx.violation("model and implementation disagree on %d cases (first: %s impl=%s model=%s) but the property "
                      "evaluated directly on the implementation holds on all %d cases"
                      % (len(mismatches), l, a, b, len(lines)),
                      {"obligation": "correspondence Base64Model ~ base64.c", "case_line": l, "impl": a, "model": b},
                      found_input=False)
    elif not proved:
        ctx.violation("proof obligation no longer checks: %s" % getattr(ctx, "broken_obligation", "?"),
                      {"obligation": getattr(ctx, "broken_obligation", "?"), "log": ctx.proof_log[-3000:]},
                      found_input=False)


WS = b" \t\n\v\f\r"
ALPHA = b"ABCDEFGHIJKLMNOPQRSTUVWXYZabcdefghijklmnopqrstuvwxyz0123456789+/"


def armored_wellformed(s):
    """None if s is not  whitespace* MUNGE: b64 : tail ; else True/False: is ALL the text between the prefix and the LAST
    ':' well-formed base64 (alphabet + ignorable whitespace, padding only at the end, count a multiple of 4)"""
    t = s.lstrip(WS)
    if not t.startswith(b"MUNGE:") or b":" not in t[6:]:
        return None
    body = t[6:t.rindex(b":")]
    core = bytes(c for c in body if c not in WS)
    st = core.rstrip(b"=")
    npad = len(core) - len(st)
    return all(c in ALPHA for c in st) and npad <= 2 and len(core) % 4 == 0


def armor_phase(ctx):
    """the armor around the base64 text, on the live daemon (ASan) and the extracted dec_process: strings of hostile.
    armor_strings; the clause 'rejects ... misplaced or miscounted padding or data after padding' evaluated directly:
    an armored string whose text between the prefix and the last suffix is not well-formed base64 must be answered with
    EMUNGE_BAD_CRED, never decoded"""
    import rig, credcorr, hostile
    exe, err = rig.build_daemon(ctx, san="address")
    if exe is None:
        ctx.violation("munged does not build from /repo: " + err[-300:], {"obligation": "build (armor phase)"}, found_input=False)
        return
    orc = vlib.build_oracle(ctx, "cred")
    no_model = orc is None
    if no_model:
        # the model no longer compiles against the regenerated facts: the clause is still evaluated on the daemon alone
        class _NoModel:
            def __init__(self, ctx, exe):
                self.d = rig.Daemon(ctx, exe, tag="c19armor")
                self.ok = self.d.start()
            def encode_both(self, **kw):
                return rig.encode(self.d.sock, **kw)[0], None
            def decode_both(self, cred):
                return rig.decode(self.d.sock, cred)[0], None, None
            def stop(self):
                return self.d.stop()
        cr = _NoModel(ctx, exe)
    else:
        cr = credcorr.CredRig(ctx, exe, orc, tag="c19armor")
    if not cr.ok:
        ctx.violation("daemon does not start", {"obligation": "start"}, found_input=False)
        return
    direct, mism = [], []
    import re as _re
    bad_cred = int(_re.search(r"Definition e_bad_cred\s*:\s*N\s*:=\s*(\d+)", open(os.path.join(vlib.COQ, "gen", "GenCred.v")).read()).group(1))
    try:
        r, diff = cr.encode_both(data=b"armor-phase payload", cipher=4, mac=5, zip_=0)
        if r is None or r["error_num"] != 0:
            ctx.violation("no credential could be minted for the armor phase", {"obligation": "mint"}, found_input=False)
            return
        items = hostile.armor_strings(ctx, r["data"])
        dist = ctx.cov.setdefault("input_distribution", {})
        for cls, s in items:
            ctx.count(("armor", s))
            dist[cls] = dist.get(cls, 0) + 1
            d, m, diff = cr.decode_both(s)
            wf = armored_wellformed(s)
            if d is None:
                direct.append((cls, s, "no reply from the daemon"))
            elif wf is False and not (d["error_num"] == bad_cred and d["data_len"] == 0):
                direct.append((cls, s, "text between the prefix and the last suffix is not well-formed base64 but the daemon "
                               "answers error %d %r with %d payload bytes" % (d["error_num"], d["error_str"], d["data_len"])))
            elif wf is True and cls in ("armor/valid", "armor/valid-ws") and d["error_num"] not in (0, 17):
                direct.append((cls, s, "well-formed armor around a valid credential rejected: error %d %r" % (d["error_num"], d["error_str"])))
            elif diff:
                mism.append((cls, s, diff))
    finally:
        rc, rep = cr.stop()
    kinds, frames = hostile.summarize_report(rep)
    ctx.log("armor phase: %d strings, %d direct failures, %d mismatches" % (len(items), len(direct), len(mism)))
    if kinds:
        ctx.violation("sanitizer report from munged on armored strings [%s at %s]" % (kinds[0], " <- ".join("%s %s:%d" % fr for fr in frames[:3])),
                      {"obligation": "C19 decode write bound (dec_unarmor)", "sanitizer": kinds, "frames": frames,
                       "strings_hex": [s.hex() for _, s in items[:400]]})
    if no_model and not direct:
        ctx.violation("the credential model does not compile against the facts regenerated from /repo (cred oracle does not build); "
                      "the armor clause evaluated directly on the daemon holds on all %d strings" % len(items),
                      {"obligation": "build of extract/cred (CredModel over regenerated facts)"}, found_input=False)
    if direct:
        cls, s, why = direct[0]
        ctx.violation("armored string [%s] %r: %s (%d failing strings)" % (cls, s[:80], why, len(direct)),
                      {"cred_hex": s.hex(), "class": cls, "why": why, "n_failing": len(direct)})
    elif mism:
        cls, s, diff = mism[0]
        ctx.violation("dec_unarmor: model and daemon disagree on %d armored strings (first [%s] %r: %s); the clause evaluated "
                      "directly holds on all" % (len(mism), cls, s[:80], diff),
                      {"obligation": "correspondence CredModel.dec_unarmor ~ dec.c", "cred_hex": s.hex(), "diff": diff}, found_input=False)


def parse_line(l):
    f = l.split()
    unh = lambda h: b"" if h == "-" else bytes.fromhex(h)
    if f[0] in ("E", "D"):
        return (f[0], unh(f[1]))
    if f[0] in ("S", "T"):
        return (f[0], [unh(x) for x in f[1].split(",")])
    return ("L", int(f[1]))


MANIFEST["level"] = (MANIFEST["level"][0], MANIFEST["level"][1] + ' Three further theorems cover the armor around the base64 text (dec.c dec_unarmor: what is decoded is ALL the text between the prefix and the LAST suffix; a refused text gives EMUNGE_BAD_CRED; a suffix inside the text is undecodable), tied by ~500 armored strings through the live ASan daemon and the extracted dec_process with the clause evaluated directly.', MANIFEST["level"][2])
