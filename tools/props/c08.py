"""C08 — no input can crash, corrupt, leak or wedge the daemon."""
import os, socket, struct, time
import vlib, rig, hostile, pyref

MANIFEST = dict(
    level=("proof", "Coq theorems about the index arithmetic and resource accounting of the decoders' model "
           "(accesses in bounds, no leak on any path, oversize refused before allocation, totality), tied to the "
           "code by the credential correspondence; memory safety, leak-freedom and liveness of the real binary are "
           "*observed* on the ASan/LSan daemon rebuilt from /repo under aimed hostile streams (all type codes, length "
           "fields, truncation points, credential edits, validly-MAC'd malformed interiors, stalls).", "7 C08"),
    note="Partial: proofs are about the model; the binary is observed under sanitizers on generated inputs, not proved. "
         "OpenSSL/zlib/bzlib internals untouched.",
    technique="Coq proof over SafetyModel/CredModel + sanitizer-instrumented live-daemon fault enumeration")


def send_item(path, raw, timeout=20.0):
    """one hostile connection: write everything, half-close, read whatever comes back"""
    try:
        s = socket.socket(socket.AF_UNIX, socket.SOCK_STREAM)
        s.settimeout(timeout)
        s.connect(path)
    except OSError as e:
        return "connect-failed", b""
    try:
        try:
            s.sendall(raw)
            s.shutdown(socket.SHUT_WR)
        except OSError:
            pass
        buf = b""
        try:
            while len(buf) < (1 << 22):
                c = s.recv(65536)
                if not c:
                    break
                buf += c
        except socket.timeout:
            return "timeout", buf
        except OSError:
            pass
        return "ok", buf
    finally:
        s.close()


def check_reply(buf):
    """a reply, if any, must be one complete well-formed ENC_RSP/DEC_RSP"""
    if not buf:
        return None
    if len(buf) < 11:
        return "partial reply header"
    magic, ver, t, retry, ln = struct.unpack(">IBBBI", buf[:11])
    if magic != rig.MAGIC or ver != rig.VERSION or t not in (rig.T_ENC_RSP, rig.T_DEC_RSP):
        return "malformed reply header"
    body = buf[11:]
    if len(body) != ln:
        return "reply body length %d != declared %d" % (len(body), ln)
    try:
        r = rig.parse_enc_rsp(body) if t == rig.T_ENC_RSP else rig.parse_dec_rsp(body)
    except rig.ParseError:
        return "reply body does not parse"
    if r["trailing"]:
        return "reply has trailing bytes"
    return None


def run_items(ctx, exe, key, items, findings, label):
    """Drive one daemon through the items; restart after a crash; LSan/ASan report at the end."""
    d = rig.Daemon(ctx, exe, tag=label, key=key, nthreads=2)
    if not d.start():
        findings.append({"kind": "daemon does not start", "class": label, "stderr": ""})
        return
    sent = 0
    for i, (cls, raw) in enumerate(items):
        st, buf = send_item(d.sock, raw)
        sent += 1
        ctx.count((cls, raw[:64], len(raw)))
        bad = None
        if st == "timeout":
            bad = "no reply and no close within 20 s (I/O timeout is 2 s)"
        elif st == "connect-failed" or not d.alive():
            bad = "daemon died"
        else:
            bad = check_reply(buf)
            if bad is None and cls.endswith("!fail") and len(buf) > 11:
                try:
                    rr = rig.parse_dec_rsp(buf[11:])
                    if rr["error_num"] in (0, 15, 16, 17):
                        bad = "a credential with a malformed interior was ACCEPTED (error %d, %d payload bytes)" % (rr["error_num"], rr["data_len"])
                except rig.ParseError:
                    pass
        if bad is None and (i % 250 == 249 or i == len(items) - 1):
            c = rig.canary(d.sock)
            if c:
                bad = "after this batch: " + c
        if bad:
            rc, rep = d.stop()
            kinds, frames = hostile.summarize_report(rep)
            if bad == "daemon died":
                # the abort is noticed with a lag: find which of the last inputs kills a fresh daemon
                for (c2, r2) in items[max(0, i - 8):i + 1]:
                    d2 = rig.Daemon(ctx, exe, tag="attr", key=key, nthreads=2)
                    if not d2.start():
                        continue
                    send_item(d2.sock, r2)
                    t1 = time.time()
                    while d2.alive() and time.time() - t1 < 0.6:
                        time.sleep(0.02)
                    dead = not d2.alive()
                    rc2, rep2 = d2.stop()
                    if dead:
                        cls, raw, rep = c2, r2, rep2
                        kinds, frames = hostile.summarize_report(rep2)
                        break
            findings.append({"kind": bad, "class": cls, "raw_hex": raw[:4096].hex(), "raw_len": len(raw),
                             "sanitizer": kinds[:2], "frames": frames, "report": rep[:3000]})
            d = rig.Daemon(ctx, exe, tag=label, key=key, nthreads=2)
            if not d.start():
                findings.append({"kind": "daemon does not restart", "class": cls})
                return
    rc, rep = d.stop()
    if rep.strip() or rc not in (0,):
        kinds, frames = hostile.summarize_report(rep)
        findings.append({"kind": "sanitizer report at shutdown" if rep.strip() else "exit code %s" % rc,
                         "class": label + "/*", "sanitizer": kinds[:3], "frames": frames, "report": rep[:4000],
                         "needs_bisect": True, "items": items})


def bisect_leak(ctx, exe, key, f):
    """Find the first input class (then input) that makes LSan/ASan report at shutdown."""
    items = f.pop("items")
    f.pop("needs_bisect", None)
    groups = {}
    for cls, raw in items:
        g = "/".join(cls.split("/")[:2])
        groups.setdefault(g, []).append((cls, raw))
    for g, its in groups.items():
        sub = []
        run_items(ctx, exe, key, its[:60], sub, "bisect")
        hit = [x for x in sub if x.get("sanitizer") or "report" in x.get("kind", "")]
        if hit:
            # narrow to one input, repeated
            for cls, raw in its[:60]:
                one = []
                run_items(ctx, exe, key, [(cls, raw)] * 5, one, "bisect1")
                if [x for x in one if x.get("sanitizer")]:
                    f.update({"class": cls, "raw_hex": raw[:4096].hex(), "raw_len": len(raw), "repeat": 5})
                    return
            f.update({"class": g + "/*"})
            return


def stall_phase(ctx, exe, key, findings):
    """Clients that stall mid-message are dropped after the I/O timeout; others keep being served."""
    d = rig.Daemon(ctx, exe, tag="stall", key=key, nthreads=2)
    if not d.start():
        findings.append({"kind": "daemon does not start", "class": "stall"})
        return
    body = rig.enc_req_body(data=b"stall")
    full = rig.hdr(2, 0, len(body)) + body
    offs = list(range(0, len(full))) if ctx.thorough else [0, 1, 5, 10, 11, 12, len(full) - 1]
    socks = []
    t0 = time.time()
    for k in offs:
        s = socket.socket(socket.AF_UNIX, socket.SOCK_STREAM)
        s.connect(d.sock)
        s.sendall(full[:k])
        s.setblocking(False)
        socks.append((k, s))
    # with both workers possibly blocked on stalled clients, service must resume within ~timeout * ceil(n/2)
    served_at = None
    deadline = 2.0 * ((len(offs) + 1) // 2) + 6.0
    while time.time() - t0 < deadline:
        try:
            c = rig.canary(d.sock)
        except rig.DaemonUnresponsive:
            c = "no reply yet (workers held by stalled clients)"     # expected here until the stalled clients time out
        if c is None:
            served_at = time.time() - t0
            break
        time.sleep(0.2)
    if served_at is None:
        findings.append({"kind": "daemon wedged by %d stalled clients: no service within %.0f s" % (len(offs), deadline),
                         "class": "stall", "offsets": offs})
    # every stalled connection must have been closed by the daemon by now (+ margin)
    time.sleep(max(0.0, deadline - (time.time() - t0)) if served_at is None else 0.5)
    tend = t0 + deadline
    open_left = []
    for k, s in socks:
        closed = False
        while time.time() < tend and not closed:
            try:
                c = s.recv(4096)
                if c == b"":
                    closed = True
                else:
                    closed = True   # a reply counts too (then it will close)
            except BlockingIOError:
                time.sleep(0.1)
            except OSError:
                closed = True
        if not closed:
            open_left.append(k)
        s.close()
        ctx.count(("stall", k))
    if open_left:
        findings.append({"kind": "stalled clients not dropped after the timeout", "class": "stall", "offsets": open_left})
    rc, rep = d.stop()
    if rep.strip():
        kinds, frames = hostile.summarize_report(rep)
        findings.append({"kind": "sanitizer report after stalls", "class": "stall", "sanitizer": kinds, "frames": frames, "report": rep[:3000]})
    ctx.cov["stall"] = {"offsets": len(offs), "service_resumed_after_s": served_at}


def oversize_phase(ctx, exe, key, findings):
    """A request whose declared length exceeds the 1 MiB limit is refused without being buffered: after such a header
    the daemon must close at once and must not keep taking body bytes."""
    d = rig.Daemon(ctx, exe, tag="oversize", key=key, nthreads=2)
    if not d.start():
        findings.append({"kind": "daemon does not start", "class": "oversize"})
        return
    chunk = bytes(65536)
    res = {}
    for L in (2 ** 20 + 1, 2 ** 24, 2 ** 31 - 1, 2 ** 31, 2 ** 31 + 4096, 2 ** 32 - 1):
        for t in (2, 4):
            s = socket.socket(socket.AF_UNIX, socket.SOCK_STREAM)
            s.settimeout(0.5)
            s.connect(d.sock)
            sent = 0
            t0 = time.time()
            closed_after = None
            try:
                s.sendall(rig.hdr(t, 0, L))
                while sent < 8 * 2 ** 20 and time.time() - t0 < 4.0:
                    try:
                        s.sendall(chunk)
                        sent += len(chunk)
                    except socket.timeout:
                        continue
            except OSError:
                closed_after = time.time() - t0
            s.close()
            ctx.count(("oversize", L, t))
            res["%d/type%d" % (L, t)] = {"body_bytes_taken": sent, "closed_after_s": closed_after}
            if sent > 2 * 2 ** 20:
                findings.append({"kind": "a request declaring %d bytes (limit 1048576) was not refused: the daemon took %d body bytes "
                                         "(it buffers / waits for an oversize request)" % (L, sent),
                                 "class": "oversize/len%d/type%d" % (L, t), "raw_hex": rig.hdr(t, 0, L).hex(), "raw_len": 11})
    c = rig.canary(d.sock)
    if c:
        findings.append({"kind": "after oversize requests: " + c, "class": "oversize"})
    rc, rep = d.stop()
    if rep.strip():
        kinds, frames = hostile.summarize_report(rep)
        findings.append({"kind": "sanitizer report after oversize requests", "class": "oversize", "sanitizer": kinds, "frames": frames, "report": rep[:3000]})
    ctx.cov["oversize"] = res


def valid_phase(ctx, findings):
    """Well-formed traffic is input too: every cipher x MAC x zip combination and every kind of restriction (UID any/own/
    other, GID any/primary/supplementary through the group+user databases/non-member), decoded by authorized and
    unauthorized clients, repeated (replays), on a daemon with generated NSS databases; every request is owed a reply, a
    canary must be served afterwards, and the daemon must stop cleanly with no sanitizer report."""
    import credcorr
    exe, err = rig.build_daemon(ctx, san="address", extra_src=[os.path.join(vlib.HARNESS, "nss_shim.c")], wraps=credcorr.NSS_WRAPS)
    if exe is None:
        findings.append({"kind": "munged+nss shim does not build", "class": "valid", "stderr": err[-400:]})
        return 0
    db = {"groups": [(700, ["ann", "bob"]), (701, ["cat"]), (700, ["dan"]), (702, []), (0, ["eve"])],
          "users": [("ann", 3001), ("bob", 3002), ("cat", 3003), ("dan", 3004), ("eve", 3005), ("root", 0)]}
    key = bytes(ctx.rng.getrandbits(8) for _ in range(48))
    d = rig.Daemon(ctx, exe, tag="valid", key=key, nthreads=2, nss_db=db)
    if not d.start():
        findings.append({"kind": "daemon does not start", "class": "valid"})
        return 0
    time.sleep(0.4)
    ANY = 0xFFFFFFFF
    combos = [(4, 5, 0), (0, 2, 2), (2, 3, 3), (5, 6, 0)] if not ctx.thorough else \
        [(c, m, z) for c in (0, 2, 3, 4, 5) for m in (2, 3, 4, 5, 6) for z in (0, 2, 3) if not (c == 5 and m in (2, 3, 4))]
    clients = [(3001, 50), (3002, 700), (3003, 52), (0, 0), (3999, 53)]
    n = 0
    hist = []
    try:
        for (c, m, z) in combos:
            for (cu, cg) in clients:
                for au in (ANY, cu, 3002 if cu != 3002 else 3001):
                    for ag in (ANY, cg, 700, 701):
                        r, st = rig.encode(d.sock, uid=4242, gid=4243, cipher=c, mac=m, zip_=z, auth_uid=au, auth_gid=ag,
                                           data=b"valid-traffic " * (1 + n % 7), ttl=60)
                        n += 1
                        ctx.count(("valid", c, m, z, cu, cg, au, ag))
                        hist.append(("enc", c, m, z, au, ag, st))
                        if r is None:
                            findings.append({"kind": "well-formed encode request got no reply (%s)" % st, "class": "valid",
                                             "history": hist[-12:]})
                            raise StopIteration
                        if r["error_num"] != 0:
                            continue
                        for rep in range(2):
                            q, st = rig.decode(d.sock, r["data"], uid=cu, gid=cg)
                            hist.append(("dec", cu, cg, au, ag, st, q and q["error_num"]))
                            if q is None:
                                findings.append({"kind": "well-formed decode request got no reply (%s)" % st, "class": "valid",
                                                 "history": hist[-12:]})
                                raise StopIteration
        cn = rig.canary(d.sock)
        if cn:
            findings.append({"kind": "after well-formed restricted traffic: " + cn, "class": "valid", "history": hist[-12:]})
    except StopIteration:
        pass
    except rig.DaemonUnresponsive as e:
        findings.append({"kind": "munged stops serving during well-formed traffic: %s" % e, "class": "valid",
                         "history": hist[-12:], "wire_history": e.history[-8:]})
    alive = d.alive()
    rc, rep = d.stop()
    kinds, frames = hostile.summarize_report(rep)
    if not alive:
        findings.append({"kind": "daemon died during well-formed traffic", "class": "valid", "sanitizer": kinds, "frames": frames,
                         "history": hist[-12:]})
    elif kinds:
        findings.append({"kind": "sanitizer report after well-formed traffic", "class": "valid", "sanitizer": kinds,
                         "frames": frames, "history": hist[-12:]})
    elif rc not in (0, None):
        findings.append({"kind": "daemon did not stop cleanly after well-formed traffic (exit %s)" % rc, "class": "valid",
                         "history": hist[-12:]})
    return n


def double_stall_phase(ctx, exe, key, findings):
    """ONE I/O time limit per message: a client that completes the header late (inside the limit) and then stalls in the body is
    dropped when the limit of the MESSAGE is up, not one limit later.  The limit is the daemon's MUNGE_SOCKET_TIMEOUT (2 s)."""
    d = rig.Daemon(ctx, exe, tag="dstall", key=key, nthreads=2)
    if not d.start():
        return 0
    limit = 2.0
    body = rig.enc_req_body(data=b"double stall")
    hdr_ = rig.hdr(2, 0, len(body))
    n = 0
    try:
        for late in (0.85 * limit, 0.5 * limit):
            for attempt in range(3):
                s = socket.socket(socket.AF_UNIX, socket.SOCK_STREAM)
                s.connect(d.sock)
                t0 = time.time()
                s.sendall(hdr_[:4])
                time.sleep(late)
                t_h = time.time()
                s.sendall(hdr_[4:] + body[:3])
                s.settimeout(3 * limit)
                try:
                    got = s.recv(64)
                except OSError:
                    got = None
                t_close = time.time() - t0
                s.close()
                n += 1
                ctx.count(("double-stall", late, attempt))
                if t_h - t0 > 0.97 * limit:
                    continue                       # this client was late itself (loaded machine): says nothing
                if got == b"" and t_close <= limit + 0.9:
                    break                          # dropped when the message's limit was up
                if got == b"" and t_close > limit + 0.9 and attempt < 2:
                    continue                       # maybe a scheduling delay: try again before concluding
                findings.append({"kind": "a client that completed the header after %.1f s and then stalled was %s after %.2f s (the I/O limit "
                                         "for a message is %.1f s: the limit restarts with the body)"
                                         % (late, "still connected" if got is None else "dropped", t_close, limit),
                                 "class": "stall", "raw_hex": (hdr_ + body[:3]).hex()})
                break
    finally:
        d.stop()
    return n


def logsink_phase(ctx, exe, key, findings):
    """The daemon as deployed (forked into the background) with each log sink: --syslog and --log-file.  Client-chosen text
    reaches the log only through the error string of a response-type message sent to the daemon; it must be logged as data."""
    n = 0
    for sink in (["--syslog"], []):
        d = rig.Daemon(ctx, exe, tag="sink", key=key, nthreads=2, foreground=False, extra=sink)
        if not d.start():
            findings.append({"kind": "daemon does not start in the background (%s)" % (" ".join(sink) or "--log-file"), "class": "logsink"})
            continue
        items = hostile.errstr_stream(ctx)
        died = None
        for cls, raw in items:
            send_item(d.sock, raw)
            n += 1
            ctx.count((cls, raw[:80], " ".join(sink)))
            if not d.alive():
                died = (cls, raw)
                break
        c = None if died else rig.canary(d.sock)
        rc, rep = d.stop()
        kinds, frames = hostile.summarize_report(rep)
        if died or c or kinds:
            cls, raw = died if died else items[-1]
            findings.append({"kind": ("daemon (background, %s) died" % (" ".join(sink) or "--log-file")) if died else
                             ("after client-chosen error strings: " + c) if c else "sanitizer report with client-chosen error strings in the log",
                             "class": cls, "raw_hex": raw.hex(), "sanitizer": kinds, "frames": frames})
    return n


def fsize_phase(ctx, exe, key, findings):
    """munged running under an inherited file-size limit (ulimit -f / LimitFSIZE=, a usual precaution against a runaway log), its
    log a regular file: clients that keep sending refused requests decide when the log reaches the limit.  Whichever thread then
    tries to log - a worker refusing a request, the acceptor reporting that it is out of descriptors, the main thread on
    SIGHUP - the daemon must go on serving."""
    import socket as _s, subprocess, signal as _sg
    n = 0
    d = rig.Daemon(ctx, exe, tag="fsize", key=key, nthreads=2,
                   launcher=("/bin/sh", "-c", 'ulimit -f 16; ulimit -n 64; exec "$@"', "sh"))      # 16 x 1024-byte blocks (sh) / 512 (dash)
    if not d.start():
        findings.append({"kind": "daemon does not start under a file-size limit", "class": "fsize"})
        return 0
    stage = "refused requests until the log is at its limit"
    bad = rig.hdr(9, 0, 4) + b"abcd"
    try:
        size0 = -1
        for i in range(1500):
            send_item(d.sock, bad)
            n += 1
            if i % 50 == 49:
                sz = os.path.getsize(os.path.join(d.dir, "stderr"))
                if sz == size0:
                    break                          # the log no longer grows: at the limit
                size0 = sz
            if not d.alive():
                break
        ctx.count(("fsize", "log-full", size0))
        c = None
        if d.alive():
            c = rig.canary(d.sock)
        if d.alive() and not c:
            stage = "the acceptor runs out of descriptors (it reports that in the log) with the log at its limit"
            idle = []
            for i in range(80):
                try:
                    k = _s.socket(_s.AF_UNIX, _s.SOCK_STREAM)
                    k.settimeout(0.5)
                    k.connect(d.sock)
                    idle.append(k)
                except OSError:
                    break
            time.sleep(0.5)
            for k in idle:
                k.close()
            time.sleep(0.3)
            n += len(idle)
        if d.alive() and not c:
            stage = "SIGHUP (the main thread logs 'Processing signal') with the log at its limit"
            d.p.send_signal(_sg.SIGHUP)
            time.sleep(0.5)
            n += 1
        if d.alive() and not c:
            t0 = time.time()
            c = "no reply"
            while time.time() - t0 < 10 and c:
                c = rig.canary(d.sock)
                if c:
                    time.sleep(0.5)
        alive = d.alive()
        rcode = d.p.poll()
    finally:
        rc, rep = d.stop()
    if not alive or c:
        findings.append({"kind": ("munged under a file-size limit (log at the limit, %d bytes) %s during: %s"
                                  % (size0, ("died (exit status %s)" % rcode) if not alive else ("stopped serving: %s" % c), stage)),
                         "class": "fsize", "raw_hex": bad.hex()})
    return n


def live_phase(ctx):
    exe, err = rig.build_daemon(ctx, san="address")
    if exe is None:
        ctx.violation("munged does not build from /repo: " + err[-400:], {"obligation": "build"}, found_input=False)
        return
    key = bytes(ctx.rng.getrandbits(8) for _ in range(64))
    # sample credentials from the real daemon, cipher x mac x zip
    d = rig.Daemon(ctx, exe, tag="mint", key=key)
    if not d.start():
        ctx.violation("munged does not start", {"obligation": "start"}, found_input=False)
        return
    creds = []
    combos = [(4, 5, 0), (0, 5, 0), (2, 3, 3), (5, 6, 2), (3, 2, 0)] if not ctx.thorough else \
        [(c, m, z) for c in (0, 2, 3, 4, 5) for m in (2, 3, 4, 5, 6) for z in (0, 2, 3) if not (c == 5 and m in (2, 3, 4))]
    for (c, m, z) in combos:
        r, st = rig.encode(d.sock, cipher=c, mac=m, zip_=z, data=b"The quick brown fox " * 8, ttl=0)
        if r and r["error_num"] == 0:
            creds.append(("c%dm%dz%d" % (c, m, z), r["data"]))
    d.stop()
    if not creds:
        ctx.violation("no credential could be minted", {"obligation": "mint"}, found_input=False)
        return
    findings = []
    streams = [
        ("hdr", hostile.header_stream(ctx, creds[0][1])),
        ("errstr", hostile.errstr_stream(ctx)),
        ("encreq", hostile.encreq_stream(ctx)),
        ("decreq", hostile.decreq_stream(ctx, creds[0][1])),
        ("armor", hostile.armor_stream(ctx, creds[0][1])),
        ("outerprefix", hostile.outer_prefix_stream(ctx, creds[:3] if not ctx.thorough else creds)),
        ("edit", hostile.cred_edit_stream(ctx, creds if ctx.thorough else creds[:3])),
        ("vmac", hostile.validmac_stream(ctx, key)),
    ]
    dist = {}
    for name, items in streams:
        dist[name] = len(items)
        run_items(ctx, exe, key, items, findings, name)
        ctx.log("stream %s: %d inputs, findings so far %d" % (name, len(items), len(findings)))
    for name, items in streams:
        for cls, raw in items[:2]:
            ctx.sample({"class": cls, "raw_hex": raw[:80].hex(), "len": len(raw)}, limit=14)
    stall_phase(ctx, exe, key, findings)
    oversize_phase(ctx, exe, key, findings)
    dist["valid"] = valid_phase(ctx, findings)
    dist["logsink"] = logsink_phase(ctx, exe, key, findings)
    dist["double-stall"] = double_stall_phase(ctx, exe, key, findings)
    dist["fsize"] = fsize_phase(ctx, exe, key, findings)
    ctx.cov["input_distribution"] = dist
    # de-duplicate by (kind, top frame)
    seen = set()
    for f in findings:
        if f.get("needs_bisect"):
            bisect_leak(ctx, exe, key, f)
        f.pop("items", None)
        import re as _re
        k = (tuple(_re.sub(r"0x[0-9a-f]+", "", x) for x in (f.get("sanitizer") or [f["kind"]]))[:1], tuple(f.get("frames", [])[:2]))
        if k in seen:
            continue
        seen.add(k)
        what = "%s on input class %s" % (f["kind"], f.get("class"))
        if f.get("sanitizer"):
            what += " [%s at %s]" % (f["sanitizer"][0], " <- ".join("%s %s:%d" % fr for fr in f.get("frames", [])[:3]))
        ctx.violation(what, f, found_input=("raw_hex" in f or f.get("class") in ("stall", "oversize", "valid", "fsize")))


def _run_own(ctx):
    ctx.level = "proof"
    ctx.cov["rule"] = ("hostile streams over the wire protocol against the ASan+LSan daemon rebuilt from /repo: type codes x "
                       "length fields x bodies, every truncation point of each message layout, malformed ENC_REQ/DEC_REQ "
                       "fields, byte-level edits and all OUTER prefixes of real credentials, validly MAC'd credentials with "
                       "malformed interiors (every inner truncation, addr_len, data_len, zip header/body faults), the "
                       "armor layer (base64 bodies of every length mod 4 with stripped/misplaced padding, whitespace, several "
                       "suffixes), stalled clients, well-formed traffic over cipher x MAC x zip x restriction kind x client "
                       "identity on generated group/user databases (each request owed a reply); canary encode/decode after every batch; sanitizer report read at shutdown. "
                       "non-trivial = distinct (class, bytes)")
    ok = vlib.prove(ctx, ["Properties_C08.v"], facts=["cred", "base64", "msg", "msgtables"])
    ctx.log("proofs:", "ok" if ok else "BROKEN: " + getattr(ctx, "broken_obligation", "?"))
    live_phase(ctx)
    if not ok and not ctx.violations:
        ctx.violation("proof obligation no longer checks: %s" % getattr(ctx, "broken_obligation", "?"),
                      {"obligation": getattr(ctx, "broken_obligation", "?"), "log": ctx.proof_log[-3000:]},
                      found_input=False)


def run(ctx):
    """the property's own check, then the component check of the socket I/O loops (fd.c) that every request and reply of
    this property goes through: Properties_FD.v + correspondence FdModel ~ /repo's fd.c (tools/props/fd_common.py)"""
    _run_own(ctx)
    from props import fd_common
    fd_common.fd_phase(ctx)


MANIFEST["level"] = (MANIFEST["level"][0], MANIFEST["level"][1] + ' The streams also cover the armor layer (unpadded/mispadded base64 of every length mod 4, several suffixes) and well-formed traffic over every option and restriction kind on generated group/user databases (each request owed a reply).', MANIFEST["level"][2])
