"""C13 — broken connections are retried safely and never burn a credential."""
import itertools, json, os, re, subprocess, time
import vlib, rig, credcorr
from proxy import FaultProxy
from props import c13_replay

MANIFEST = dict(
    level=("proof", "Coq theorems over (1) RetryModel (libmunge's retry loop against CredModel.dec_process with per-attempt "
           "faults: request cut, reply lost after a successful send, reply send failed with roll-back): up to four faulty "
           "attempts of any kind in any order followed by a clean one return exactly the fault-free result and leave exactly "
           "one replay record; an unsent reply without retry leaves the cache as before; five faults give a socket error; "
           "retry counter bounds; encode is retry-independent; (2) RetryReplay (the roll-back on hash.c's chained table with "
           "replay.c's callbacks, arbitrary slot function): remove-after-insert restores exactly the prior table for EVERY "
           "prior contents and collision pattern, also with any other work interleaved; a rolled-back retry removes only its "
           "record; (3) RetryClientModel: m_msg_client_xfer TRANSLATED FROM THE SOURCE TEXT on every run and interpreted over "
           "an explicit heap (messages, their sockets, open sockets, mreq/mrsp): for every ORDER of per-attempt faults "
           "(connect refused / broken while writing / broken afterwards) no use-after-free, double free, double close or "
           "leak; every attempt starts from the state of a first attempt except for the two counters; <=4 faults then "
           "success with retry = 0..n on n+1 connections and the reply of the last one; 5 faults or a refused connect give a "
           "socket error. Tied to the code by the real libmunge (ASan, --wrap shims recording allocations, sockets, sends, "
           "receives, sleeps) through a fault proxy against the real daemon: every order of fault kinds, requests below and "
           "above the socket send buffer, event traces equal to the extracted model's; /repo's replay.c+hash.c and the live "
           "daemon with several live records in one bucket chain and the rolled-back one at head / middle / tail.", "7 C13"),
    note="Fault kinds at the proxy: W k (request cut while the client writes), Q k (request cut on the way), L k (reply cut "
         "after k bytes although the daemon's send succeeded), S (daemon's send fails, roll-back), C (connect refused). "
         "Back-off sleeps of the client are virtual (--wrap=nanosleep) and checked to be 10*i ms. Trusted: Coq kernel, "
         "extraction, tools/facts/retryloop.py (source-text translator), proxy.py, lmclient.c, c13_shims.c.",
    technique="Coq proof (invariant over the attempt loop; factorisation of dec_process; canonical-form argument for the "
              "chained table; finite sweep over all fault orders of the translated loop) + source-text translator + "
              "fault-injection correspondence with real libmunge under ASan, traces compared event by event")

ANY = 0xFFFFFFFF
E_SOCKET = 6
WRAPS = ["m_msg_create", "m_msg_destroy", "m_msg_send", "m_msg_recv", "m_msg_bind", "connect", "close", "nanosleep"]
LARGE = 320000          # payload bytes: request larger than any UNIX-socket send buffer (wmem_default 208 KB + one skb)
HUGE = 560000           # payload bytes of the replies that are cut in the middle: reply - k stays above the send buffer for k <= 208 KB
TO_DAEMON = {"W": "Q", "Q": "Q", "L": "L", "S": "S", "H": "S"}      # what the daemon sees (H: its send fails part-way)
PHASES_OF = {"W": "sr", "Q": "r", "L": "r", "S": "r", "H": "r", "C": "c"}
CLAUSE_RETRY = ("If the connection between libmunge and munged breaks at any byte of the request or of the reply, up to four "
                "times in succession, munge_encode and munge_decode still complete with the correct result by retrying")
CLAUSE_EXH = "a client that exhausts its retries gets a socket error, never a wrong or partial result"


def gen_payload(n):
    return bytes((i * 131 + 7) & 0xff for i in range(n))


class Client:
    """lmclient (real libmunge, ASan, c13 shims) as a line server; restarted when it dies"""

    def __init__(self, ctx, exe, sock):
        self.ctx, self.exe, self.sock = ctx, exe, sock
        self.n = 0
        self.reports = []
        self.p = None
        self.start()

    def start(self):
        self.n += 1
        self.errpath = os.path.join(self.ctx.tmp, "lmclient-%d.err" % self.n)
        self.errf = open(self.errpath, "wb")
        env = dict(os.environ, ASAN_OPTIONS="detect_leaks=1:abort_on_error=0:exitcode=99:allocator_may_return_null=1")
        self.p = subprocess.Popen([self.exe, self.sock], stdin=subprocess.PIPE, stdout=subprocess.PIPE, stderr=self.errf,
                                  text=True, env=env)

    def _line(self):
        l = self.p.stdout.readline()
        return l.rstrip("\n") if l else None

    def died(self):
        """collect what the dead client left on stderr; start a new one"""
        try:
            self.p.stdin.close()
        except OSError:
            pass
        try:
            rc = self.p.wait(20)
        except subprocess.TimeoutExpired:
            self.p.kill(); rc = self.p.wait()
        self.errf.close()
        txt = open(self.errpath, errors="replace").read()
        self.start()
        return rc, txt

    def op(self, hang, line):
        """-> (fields of the E/D answer, trace tokens) or (None, (rc, stderr)) when the client process died"""
        try:
            self.p.stdin.write("P %s\n" % (",".join("h%d" % c for c in hang) or "-"))
            self.p.stdin.write(line + "\n")
            self.p.stdin.flush()
            a = [self._line() for _ in range(3)]
        except (BrokenPipeError, OSError):
            a = [None]
        if any(x is None for x in a) or not a[2].startswith("T "):
            return None, self.died()
        return a[1].split(), a[2][2:].split()

    def close(self):
        try:
            self.p.stdin.close()
        except OSError:
            pass
        try:
            rc = self.p.wait(30)
        except subprocess.TimeoutExpired:
            self.p.kill(); rc = self.p.wait()
        self.errf.close()
        return rc, open(self.errpath, errors="replace").read()


# ----------------------------------------------------------------------------- the implementation's trace
TOK = re.compile(r"^(?:N(\d+)|D(!?)(\d+)|D\?|C(\d+)([+-])|Q(-?\d+)r(\d+)c(\d+)([+-])|B(-?\d+)c(\d+)|R(-?\d+)c(\d+)([+-])|X(!?)(\d+)|S(\d+))$")


def observed_phases(trace):
    """per connection, in order: 'c' connect refused, 's' send failed, 'r' recv failed, None clean"""
    conns = {}
    for t in trace:
        m = TOK.match(t)
        if not m:
            continue
        if m.group(4):
            c = int(m.group(4))
            conns.setdefault(c, None)
            if m.group(5) == "-":
                conns[c] = "c"
        elif m.group(6) is not None and m.group(9) == "-":
            conns[int(m.group(8))] = "s"
        elif m.group(12) is not None and m.group(14) == "-":
            conns[int(m.group(13))] = "r"
    return [conns[c] for c in sorted(conns)]


def isolation_holds(trace, consts):
    """'no state of attempt n is visible in attempt n+1' and memory/descriptor hygiene, evaluated on the events the running
    library produced (independent of the Coq model).  Returns None or an explanation."""
    attempts, retry_ms = consts
    live, dead, opened, closed = set(), set(), set(), set()
    born = {}               # message id -> attempt in which it was created (0 = by the caller)
    attempt = 0
    last_conn = 0
    sends = []
    for t in trace:
        m = TOK.match(t)
        if not m:
            return "unknown trace token %r" % t
        if t.startswith("N"):
            i = int(m.group(1)); live.add(i); born[i] = attempt
        elif t == "D?":
            return "m_msg_destroy was called on a pointer that never was a message (stale or uninitialised pointer)"
        elif t.startswith("D"):
            i = int(m.group(3))
            if m.group(2) or i not in live:
                return "message #%d (created in attempt %s) is destroyed a second time in attempt %d: the pointer survived " \
                       "the clean-up of its attempt (double free)" % (i, born.get(i, "?"), attempt)
            live.discard(i); dead.add(i)
        elif t.startswith("C"):
            c = int(m.group(4))
            if c != last_conn:
                if c != last_conn + 1:
                    return "connection numbering jumps at %s" % t
                # a new attempt begins: nothing of the previous ones may be left
                if attempt >= 1:
                    left = sorted(i for i in live if i != 0)
                    if left:
                        return "attempt %d starts while message(s) %s of earlier attempts are still allocated" % (attempt + 1, left)
                    if opened - closed:
                        return "attempt %d starts while socket(s) %s of earlier attempts are still open" % (attempt + 1, sorted(opened - closed))
                attempt += 1
                last_conn = c
            if m.group(5) == "+":
                opened.add(c)
            else:
                opened.add(c)      # the descriptor exists and must be closed by _m_msg_client_connect
        elif t.startswith("Q"):
            i, r, c = int(m.group(6)), int(m.group(7)), int(m.group(8))
            if i != 0:
                return "the request sent in attempt %d is not the caller's request message (#%d)" % (attempt, i)
            if c != last_conn or c in closed:
                return "attempt %d writes its request to the socket of connection %d (current: %d)" % (attempt, c, last_conn)
            sends.append(r)
        elif t.startswith("B") or t.startswith("R"):
            i = int(m.group(10) if t.startswith("B") else m.group(12))
            c = int(m.group(11) if t.startswith("B") else m.group(13))
            if i < 0 or i not in live:
                return "attempt %d uses message #%d which is not allocated (use after free)" % (attempt, i)
            if born.get(i) != attempt:
                return "attempt %d receives into message #%d created in attempt %s" % (attempt, i, born.get(i))
            if c != last_conn:
                return "attempt %d reads from the socket of connection %d (current: %d)" % (attempt, c, last_conn)
        elif t.startswith("X"):
            c = int(m.group(16))
            if m.group(15) or c in closed:
                return "the socket of connection %d is closed a second time (in attempt %d)" % (c, attempt)
            closed.add(c)
        elif t.startswith("S"):
            pass
    if live:
        return "message(s) %s still allocated when munge_encode/munge_decode returned (leak)" % sorted(live)
    if opened - closed:
        return "socket(s) of connection(s) %s still open when munge_encode/munge_decode returned (descriptor leak)" % sorted(opened - closed)
    if sends != list(range(len(sends))):
        return "retry counters on the wire are %s, expected 0,1,2,..." % sends
    if attempt > attempts:
        return "%d attempts were made, the bound is %d" % (attempt, attempts)
    # linear back-off between attempts (sleeps inside a refused connect are 50*i and belong to connect's own retries)
    xs, inconn = [], False
    for t in trace:
        if t[0] == "C":
            inconn = t.endswith("-")
        elif t[0] == "S":
            if not inconn:
                xs.append(int(t[1:]))
        else:
            inconn = False
    want = [retry_ms * (j + 1) for j in range(len(xs))]
    if xs != want:
        return "back-off sleeps between attempts are %s ms, expected %s" % (xs, want)
    return None


def xconsts():
    t = open(os.path.join(vlib.COQ, "gen", "GenRetryLoop.v")).read()
    m = re.search(r"src_xconst : xconst := mkC (\d+) (\d+) (\d+) (\d+)", t)
    return tuple(int(x) for x in m.groups()) if m else (5, 10, 10, 50)


# ----------------------------------------------------------------------------- the check
def _run_own(ctx):
    ctx.level = "proof"
    have = os.path.exists(os.path.join(vlib.COQ, "Properties_C13.v"))
    proved = vlib.prove(ctx, ["Properties_C13.v"], facts=["cred", "base64", "replay", "retryloop", "retrymsgio", "fd", "cfun"]) if have else False
    ctx.log("proofs:", "ok" if proved else "BROKEN/absent: " + getattr(ctx, "broken_obligation", "Properties_C13.v"))
    ctx.cov["rule"] = ("fault plans = sequences of up to 5 per-attempt faults at the proxy (W k: request cut after k bytes while the "
                       "client writes, k=0 with the client held until the peer has hung up; Q k: request cut on the way; L k: reply "
                       "cut after k bytes although the daemon's send succeeded; S: daemon-side connection closed before the reply is "
                       "written; C: connect refused) run through the real libmunge (ASan, allocation/socket/send/recv/sleep trace "
                       "by --wrap shims) for munge_decode and munge_encode with requests of ~100 B and of >300 KB (larger than the "
                       "socket send buffer): every byte offset for single faults on small requests (thorough; quick: header, "
                       "boundaries, samples), EVERY ORDER of fault kinds up to length 3 (quick) / 4 (thorough) and sampled longer "
                       "ones, every adjacent pair of kinds for large requests, exhaustion, refused connects at every position; "
                       "result, payload, the replay state afterwards, the isolation of attempts evaluated on the trace, and the "
                       "trace itself against the extracted model of the translated loop.  Roll-back: histories on replay.c+hash.c "
                       "and in the live daemon with 2-4 live records in one bucket chain, the rolled-back one at head/middle/tail. "
                       "non-trivial = distinct (operation, size, plan) / distinct history")
    replay_case = None
    if getattr(ctx, "replay", None):
        try:
            replay_case = json.load(open(ctx.replay))
        except (OSError, ValueError):
            replay_case = None
    only_plan = replay_case if replay_case and "plan" in replay_case and replay_case.get("op") in ("decode", "encode") else None

    # ---- builds: the three C programs in the background, the three extracted oracles (make, under the build lock) here
    import threading
    built = {}

    def bg(name, fn):
        def run():
            try:
                built[name] = fn()
            except Exception as e:       # reported below as a build failure
                built[name] = (None, repr(e))
        t = threading.Thread(target=run, daemon=True)
        t.start()
        return t
    threads = [bg("harness", lambda: c13_replay.build_harness(ctx))]
    if not (replay_case and str(replay_case.get("case_line", "")).startswith("Q ")):
        threads += [bg("daemon", lambda: rig.build_daemon(ctx)),
                    bg("lmclient", lambda: rig.build_lmclient(ctx, wraps=WRAPS, extra_src=[os.path.join(vlib.HARNESS, "c13_shims.c")]))]
    rorc = vlib.build_oracle(ctx, "replay")
    threads[0].join()

    # ---- roll-back on replay.c + hash.c for every state of a bucket chain
    if not only_plan:
        c13_replay.rollback_component(ctx, proved, built=built["harness"], oracle=rorc)
        if replay_case and str(replay_case.get("case_line", "")).startswith("Q "):
            return proved
    orc = vlib.build_oracle(ctx, "cred")
    xorc = vlib.build_oracle(ctx, "retry")
    for t in threads:
        t.join()
    exe, err = built["daemon"]
    if exe is None or orc is None:
        ctx.violation("munged does not build from /repo: " + err[-600:] if exe is None else "cred oracle does not build",
                      {"obligation": "build"}, found_input=False)
        return proved
    ctx.cov["trusted_base"] += ["extract/stubs.c over libgcrypt, zlib, bzlib (independent of munged's OpenSSL)",
                                "tools/rig.py wire-protocol client, harness/vclock.c (--wrap=time virtual clock)",
                                "tools/proxy.py (fault proxy), harness/lmclient.c + harness/c13_shims.c (--wrap observation of libmunge)",
                                "tools/facts/retryloop.py (source-text translator of m_msg_client_xfer)"]
    lm, err = built["lmclient"]
    if lm is None:
        ctx.violation("libmunge client does not build: " + err[-300:], {"obligation": "build libmunge"}, found_input=False)
        return proved
    os.rename(lm, lm + "-c13")
    lm += "-c13"
    xo = None
    if xorc is None:
        ctx.violation("retry oracle (extracted RetryClientModel) does not build", {"obligation": "oracle build", "notes": ctx.notes[-1:]},
                      found_input=False)
    else:
        xo = subprocess.Popen([xorc], stdin=subprocess.PIPE, stdout=subprocess.PIPE, text=True)
    cr = credcorr.CredRig(ctx, exe, orc, tag="c13", nthreads=2)
    if not cr.ok:
        ctx.violation("daemon does not start", {"obligation": "start"}, found_input=False)
        return proved
    px = FaultProxy(os.path.join(cr.d.dir, "px"), cr.d.sock)
    cl = Client(ctx, lm, px.listen_path)
    ctx.log("daemon, oracles, libmunge client with shims built; daemon and proxy up")
    consts = xconsts()
    ATT = consts[0]

    rng = ctx.rng
    fails, mism = [], []
    dist = {}
    PAY = {"small": b"retry me", "large": gen_payload(LARGE)}
    crashes = [0]

    last_case = [None]

    def fresh_cred(size):
        r, st = rig.encode(cr.d.sock, uid=0, gid=0, data=PAY[size])
        if r is None:
            # the daemon no longer answers an ordinary encode request: it died (or wedged) in the case before this one
            rc_ = cr.d.p.poll() if getattr(cr.d, "p", None) is not None else None
            raise DaemonGone("munged %s after the case %s (an ordinary encode request now gets: %s)"
                             % (("terminated with status %s" % rc_) if rc_ is not None else "stopped answering", last_case[0], st), last_case[0])
        return r["data"]

    def model_trace(phases):
        if xo is None:
            return None
        xo.stdin.write("X %s\n" % (",".join(phases) or "-")); xo.stdin.flush()
        return xo.stdout.readline().rstrip("\n")

    def hang_of(plan):
        return [j + 1 for j, f in enumerate(plan) if f[0] == "W" and f[1] == 0]

    def plan_str(plan):
        return ",".join("%s%d" % (f[0], f[1]) if f[0] in "WQLH" else f[0] for f in plan) or "-"

    def check_trace(case, plan, trace, err):
        """direct: isolation of attempts on the implementation's events; correspondence: the events are the model's"""
        why = isolation_holds(trace, (consts[0], consts[1]))
        if why:
            fails.append(dict(case, key="isolation: " + re.sub(r"[0-9]+", "#", why)[:50],
                              why="%s %s under faults %s: %s" % (case["op"], case["size"], plan_str(plan), why),
                              clause="no state of attempt n is visible in attempt n+1 / " + CLAUSE_RETRY, trace=" ".join(trace)))
        wrong = [(n, r) for (n, r) in list(px.wire_retry) if r != n]
        if wrong and not why:
            fails.append(dict(case, key="wire-retry", why="%s %s under faults %s: the request of attempt %d arrived with retry=%d in its header "
                                                          "(attempt i must carry i-1)" % (case["op"], case["size"], plan_str(plan), wrong[0][0] + 1, wrong[0][1]),
                              clause=CLAUSE_RETRY))
        ph = observed_phases(trace)
        faulty = [p for p in ph if p]
        # was the plan realised?  (each planned fault must show up as a failed attempt of an admissible phase, in order)
        want = plan[:ATT]
        if any(f[0] == "C" for f in want):
            want = want[:[f[0] for f in want].index("C") + 1]
        ok = len(faulty) == len(want) and all(p in PHASES_OF[f[0]] for p, f in zip(faulty, want)) and \
            all(p is None for p in ph[len(want):])
        if not ok and not why:
            mism.append(dict(case, diff="fault plan %s was realised as client phases %s" % (plan_str(plan), ph), trace=" ".join(trace)))
            return
        mt = model_trace(faulty)
        if mt is not None:
            head, _, mtrace = mt.partition(" | ")
            if (head.split()[1] == "socket") != (err == E_SOCKET) and not why:
                mism.append(dict(case, diff="the model of the translated loop returns '%s' for phases %s, libmunge returned %d"
                                            % (head.split()[1], ",".join(faulty), err), trace=" ".join(trace), model=mt))
            if mtrace.split() != trace and not why:
                mism.append(dict(case, diff="trace of the running library differs from the model of the translated loop for phases %s"
                                            % ",".join(faulty), trace=" ".join(trace), model=mt))

    def client_died(case, plan, info):
        rc, txt = info
        crashes[0] += 1
        kind = "AddressSanitizer: " + (re.search(r"AddressSanitizer: ([\w-]+)", txt).group(1) if re.search(r"AddressSanitizer: ([\w-]+)", txt) else "abort")
        fails.append(dict(case, key="client-died", why="%s of a %s payload under connection faults %s: the client process died inside libmunge "
                                    "(%s, exit %s) instead of completing by retrying" % (case["op"], case["size"], plan_str(plan), kind, rc),
                          clause=CLAUSE_RETRY if len(plan) < ATT else CLAUSE_EXH, client_stderr=txt[:2500]))

    def decode_case(kind, plan, size="small", model=True):
        if crashes[0] >= 4:
            return
        cred = fresh_cred(size)
        payload = PAY[size]
        px.set_plan(plan)
        case = {"op": "decode", "size": size, "payload_len": len(payload), "plan": [list(f) for f in plan], "kind": kind}
        last_case[0] = case
        ctx.count(("decode", size, kind, tuple(plan)))
        dist[kind] = dist.get(kind, 0) + 1
        d, trace = cl.op(hang_of(plan), "D " + cred.rstrip(b"\0").hex())
        case["proxy_log"] = [list(x) for x in px.log][:8]
        if d is None:
            client_died(case, plan, trace)
            return
        nf = len(plan)
        refused = any(f[0] == "C" for f in plan[:ATT])
        err = int(d[1])
        got = b"" if d[13] == "-" else bytes.fromhex(d[13])
        case["libmunge_error"] = err
        errstr = bytes.fromhex(d[14]).decode(errors="replace") if d[14] != "-" else ""
        # the property, directly
        if nf < ATT and not refused:
            if err != 0 or got != payload:
                fails.append(dict(case, key="decode-wrong", why="munge_decode (%s credential) under %d connection fault(s) %s returned error %d (%s) instead of the payload"
                                            % (size, nf, plan_str(plan), err, errstr), clause=CLAUSE_RETRY))
        else:
            if err != E_SOCKET and not (err == 0 and got == payload):
                fails.append(dict(case, key="decode-exhausted", why="after faults %s munge_decode returned error %d (%s): neither a socket error nor the correct result"
                                            % (plan_str(plan), err, errstr), clause=CLAUSE_EXH))
        if err == E_SOCKET and got:
            fails.append(dict(case, key="partial", why="munge_decode returned a socket error AND %d payload bytes (partial result) under faults %s"
                                                       % (len(got), plan_str(plan)), clause=CLAUSE_EXH))
        check_trace(case, plan, trace, err)
        # model vs implementation (daemon side + result), then the state afterwards
        if model:
            seen = []
            for f in plan[:ATT]:
                if f[0] == "C":
                    seen += ["Q"] * (ATT - len(seen))
                    break
                seen.append(TO_DAEMON[f[0]])
            m = cr.o.ask("DECF %s 0 0 %d - %s" % (cred.hex(), cr.now, ",".join(seen) or "-")).split()
            if m[1] == "SOCKERR":
                if err != E_SOCKET:
                    mism.append(dict(case, diff="model: socket error, libmunge: %d" % err))
            elif err != int(m[1]) or (err == 0 and got.hex() != (m[18] if m[18] != "-" else "")):
                mism.append(dict(case, diff="model: error %s, libmunge: %d" % (m[1], err)))
            d2, m2, diff = cr.decode_both(cred)
            if diff:
                mism.append(dict(case, diff="afterwards: " + diff))
            d2e = None if d2 is None else d2["error_num"]
        else:
            r2, _ = rig.decode(cr.d.sock, cred)
            d2e = None if r2 is None else r2["error_num"]
        if err == 0 and d2e != 17:
            fails.append(dict(case, key="second-decode", why="after a successful (retried) decode under faults %s a second decode gives %s, expected 'replayed'"
                                        % (plan_str(plan), d2e), clause=CLAUSE_RETRY))
        if len(ctx.cov["samples"]) < 10 and nf:
            ctx.sample({k: case[k] for k in ("op", "size", "plan", "libmunge_error")})

    def encode_case(kind, plan, size="small"):
        if crashes[0] >= 4:
            return
        payload = PAY[size]
        px.set_plan(plan)
        case = {"op": "encode", "size": size, "payload_len": len(payload), "plan": [list(f) for f in plan], "kind": kind}
        ctx.count(("encode", size, kind, tuple(plan)))
        dist[kind] = dist.get(kind, 0) + 1
        arg = payload.hex() if size == "small" else "@%d" % len(payload)
        e, trace = cl.op(hang_of(plan), "E %s 1 1 1 0 %d %d" % (arg, ANY, ANY))
        case["proxy_log"] = [list(x) for x in px.log][:8]
        if e is None:
            client_died(case, plan, trace)
            return
        err = int(e[1])
        case["libmunge_error"] = err
        refused = any(f[0] == "C" for f in plan[:ATT])
        if len(plan) < ATT and not refused:
            if err != 0:
                fails.append(dict(case, key="encode-wrong", why="munge_encode (%s payload) under %d connection fault(s) %s returned error %d"
                                            % (size, len(plan), plan_str(plan), err), clause=CLAUSE_RETRY))
            else:
                cred = bytes.fromhex(e[2]) + b"\0"
                if size == "small":
                    d, m, diff = cr.decode_both(cred)
                else:
                    d, _ = rig.decode(cr.d.sock, cred)
                if d is None or d["error_num"] != 0 or d["data"] != payload:
                    fails.append(dict(case, key="encode-cred", why="credential returned by a retried munge_encode (faults %s) does not decode to the payload: %s"
                                                % (plan_str(plan), d and d["error_num"]), clause=CLAUSE_RETRY))
        elif err not in (0, E_SOCKET):
            fails.append(dict(case, key="encode-exhausted", why="after faults %s munge_encode returned %d (neither socket error nor success)"
                                        % (plan_str(plan), err), clause=CLAUSE_EXH))
        if err != 0 and e[2] != "-":
            fails.append(dict(case, key="partial", why="munge_encode returned error %d AND a credential" % err, clause=CLAUSE_EXH))
        check_trace(case, plan, trace, err)

    # ------------------------------------------------------------------ plans
    cred0 = fresh_cred("small")
    reqlen = {("decode", "small"): 11 + 4 + len(cred0.rstrip(b"\0")) + 1, ("encode", "small"): 11 + 20 + len(PAY["small"]),
              ("decode", "large"): 11 + 4 + (LARGE * 4) // 3, ("encode", "large"): 11 + 20 + LARGE}
    rsplen = 11 + 60

    def inst(kinds, op, size):
        """a plan for a sequence of kinds: offsets drawn so that each kind is what its name says for this request size.
        w = W 0 (the client is held until the peer has hung up: its first write fails); W = W k with k >= 1"""
        n = reqlen[(op, size)]
        plan = []
        for x in kinds:
            if x == "w":
                plan.append(("W", 0))
            elif x == "W":
                if size == "large":
                    k = rng.choice([1, 11, 12, 4096, 16384])           # well below n - (send buffer): the write cannot have finished
                else:
                    k = rng.choice([1, 5, 11, 12, min(30, n - 2), n - 2])
                plan.append(("W", k))
            elif x == "Q":
                plan.append(("Q", rng.choice([0, 5, 11, 12, 30, n // 2, n - 1])))
            elif x == "L":
                plan.append(("L", rng.choice([0, 5, 10, 11, 12, 30, 60])))
            elif x == "H":
                plan.append(("H", rng.choice([1, 11, 4096, 30000])))   # reply - k stays above the send buffer (large only)
            else:
                plan.append((x, 0))
        return plan

    def model_guided():
        """ask the model of the loop AS TRANSLATED FROM THIS SOURCE for fault orders under which it predicts undefined
        behaviour, a leak, or a wrong result, and try those first on the running library"""
        if xo is None:
            return []
        out = []
        for ln in range(0, ATT + 1):
            for ph in itertools.product("csr", repeat=ln):
                mt = model_trace(ph)
                f = mt.split(" | ")[0].split()
                refused = "c" in ph
                want = "ok" if (ln < ATT and not refused) else "socket"
                if f[3] != "-" or f[1] != want or not f[5].endswith("-/-"):
                    out.append((ph, f[3]))
            if len(out) >= 6:
                break
        return out[:6]

    if only_plan:
        plan = [tuple(f) for f in only_plan["plan"]]
        (decode_case if only_plan["op"] == "decode" else encode_case)("replayed-case", plan, only_plan.get("size", "small"))
    else:
        # single fault at every byte offset of request and reply (small request)
        n = reqlen[("decode", "small")]
        offs_q = range(0, n) if ctx.thorough else sorted(set(list(range(0, 16)) + [n // 2, n - 2, n - 1]))
        offs_l = range(0, rsplen) if ctx.thorough else sorted(set(list(range(0, 14)) + [20, 40, rsplen - 1, 200]))
        offs_w = range(0, n - 1) if ctx.thorough else sorted(set([0, 1, 2, 10, 11, 12, 15, n // 2, n - 2]))
        for k in offs_q:
            decode_case("single-Q", [("Q", k)])
        for k in offs_l:
            decode_case("single-L", [("L", k)])
        for k in offs_w:
            decode_case("single-W", [("W", k)])
        decode_case("single-S", [("S", 0)])
        decode_case("single-C", [("C", 0)])
        decode_case("clean", [])
        # EVERY ORDER of fault kinds over the attempts
        kinds = ["w", "W", "Q", "L", "S"]
        for ph, what in model_guided():
            plan = inst([{"c": "C", "s": "w", "r": "L"}[x] for x in ph], "decode", "small")
            ctx.notes.append("model of the translated loop predicts %s for client phases %s" % (what or "a wrong result", ",".join(ph)))
            decode_case("model-guided", plan)
        full = ATT if ctx.thorough else 3
        for ln in range(2, ATT + 1):
            seqs = list(itertools.product(kinds, repeat=ln))
            if ln > full:
                seqs = rng.sample(seqs, min(len(seqs), (60 if ctx.thorough else 12) if ln < ATT else (40 if ctx.thorough else 8)))
            for s in seqs:
                decode_case("order%d" % ln if ln < ATT else "exhausted", inst(s, "decode", "small"))
        for s in (("Q",) * ATT, ("L",) * ATT, ("S",) * ATT, ("W",) * ATT, ("w",) * ATT):
            decode_case("exhausted", inst(s, "decode", "small"))
        # a refused connect after each kind and at each position
        for pos in range(1, ATT):
            for x in (kinds if pos == 1 or ctx.thorough else [rng.choice(kinds)]):
                pre = [rng.choice(kinds) for _ in range(pos - 1)] + [x]
                decode_case("refused", inst(pre, "decode", "small") + [("C", 0)])
        ctx.log("decode, small requests: %d plans" % ctx.cov["evaluations"])
        # encode: every adjacent pair, and longer orders sampled
        for s in [(a,) for a in kinds] + list(itertools.product(kinds, repeat=2)):
            encode_case("encode-order", inst(s, "encode", "small"))
        for s in rng.sample(list(itertools.product(kinds, repeat=3)), 64 if ctx.thorough else 8) + \
                rng.sample(list(itertools.product(kinds, repeat=4)), 64 if ctx.thorough else 6):
            encode_case("encode-order", inst(s, "encode", "small"))
        for s in (("w",) * ATT, ("L", "w", "S", "Q", "L"), ("Q",) * ATT):
            encode_case("encode-exhausted", inst(s, "encode", "small"))
        encode_case("encode-refused", inst(("L",), "encode", "small") + [("C", 0)])
        encode_case("encode-refused", [("C", 0)])
        ctx.log("encode, small requests done")
        # requests larger than the socket send buffer: the request-phase cut is seen by the WRITER
        pairs = list(itertools.product(kinds, repeat=2))
        for j, s in enumerate([(a,) for a in kinds] + pairs):
            both = ctx.thorough or len(s) == 1
            if both or (j + ctx.seed) % 2 == 0:
                decode_case("large-order", inst(s, "decode", "large"), "large", model=(len(s) == 1 and (ctx.thorough or s == ("W",))))
            if both or (j + ctx.seed) % 2 == 1:
                encode_case("large-order", inst(s, "encode", "large"), "large")
        longer = [("L", "W", "Q", "w"), ("W", "L", "W", "S"), ("S", "w", "W", "L")] + \
                 (list(itertools.product(kinds, repeat=3)) if ctx.thorough else [])
        for j, s in enumerate(longer):
            if j < 3 or j % 2 == 0:
                decode_case("large-order", inst(s, "decode", "large"), "large", model=False)
            if j < 3 or j % 2 == 1:
                encode_case("large-order", inst(s, "encode", "large"), "large")
        # the daemon's reply cut in the MIDDLE (it has written part of it and waits for buffer space when the peer hangs up)
        for s in [("H",), ("H", "H"), ("L", "H"), ("H", "w"), ("S", "H", "L")] + ([("H",) * (ATT - 1), ("H", "Q", "H", "W")] if ctx.thorough else []):
            decode_case("large-midreply", inst(s, "decode", "large"), "large", model=False)
        for s in [("H",)] + ([("W", "H"), ("H", "L", "H")] if ctx.thorough else []):
            encode_case("large-midreply", inst(s, "encode", "large"), "large")
        for s in [("L", "W", "L", "w", "W"), ("W",) * ATT]:
            decode_case("large-exhausted", inst(s, "decode", "large"), "large", model=False)
            encode_case("large-exhausted", inst(s, "encode", "large"), "large")
        decode_case("large-refused", inst(("L", "W"), "decode", "large") + [("C", 0)], "large", model=False)
        encode_case("large-refused", inst(("W", "L"), "encode", "large") + [("C", 0)], "large")

        ctx.log("requests of %d payload bytes done" % LARGE)
        # replies to a SUCCESSFUL decode that cannot be delivered, after which the client never reaches munged again
        # (raw clients through the proxy, so that the sequence stops where we want): the credential must remain decodable.
        #   [S]      first attempt processed, send fails
        #   [Q, S]   first attempt never arrives; the retry (retry=1) is processed, its send fails
        #   [L, S]   first attempt processed and answered (reply lost on the way); the retry is accepted as a retry,
        #            its send fails -> the retry added nothing (c->is_replay_new = 0), so munged takes nothing back: the
        #            first attempt's reply was sent as far as munged can tell and the credential STAYS consumed
        #            (repair 3dbe0fd "take back only the replay entry that this decode added"; C13_retry_on_own_record_keeps_it)
        px.set_plan([])
        for seq in ([["S"], ["Q", "S"], ["L", "S"], ["W", "S"]] * (2 if ctx.thorough else 1)):
            cred = fresh_cred("small")
            px.set_plan([(x, 0 if x == "S" else 9) for x in seq])
            for i, x in enumerate(seq):
                rig.decode(px.listen_path, cred, retry=i)        # the client gets nothing usable
            cr.o.ask("DECF %s 0 0 %d - %s" % (cred.hex(), cr.now, ",".join([TO_DAEMON[x] for x in seq] + ["S"] * (5 - len(seq)))))
            time.sleep(0.05)
            d, m, diff = cr.decode_both(cred)
            ctx.count(("unsent", tuple(seq)))
            dist["unsent-no-retry"] = dist.get("unsent-no-retry", 0) + 1
            if diff:
                mism.append({"op": "unsent", "diff": diff})
            want = 17 if "L" in seq[:-1] else 0      # an earlier attempt was answered as far as munged can tell: record stays
            if d is None or d["error_num"] != want:
                fails.append({"why": ("attempts %s: the reply to a successful decode could not be delivered and the client never came back, yet "
                                      "the credential is now reported as %s" if want == 0 else
                                      "attempts %s: an earlier attempt was answered (its reply was lost on the way), the retry's reply could not be "
                                      "sent; the retry added no record, so the credential must stay consumed, but it is now reported as %s")
                                     % (seq, d and (d["error_num"], d["error_str"]),), "op": "unsent", "seq": seq})
        # the reply to a successful decode breaks in the MIDDLE: munged has written part of it, waits for buffer space, the
        # peer hangs up after k bytes; the client never comes back.  Replies larger than the socket send buffer.
        huge = gen_payload(HUGE)
        mid = [(["H"], 1), (["H"], 11), (["H"], 4096), (["H"], 212992)]
        if ctx.thorough:
            mid += [(["Q", "H"], 3000), (["L", "H"], 70000), (["W", "H"], 1), (["H"], 100), (["H"], 150000)]
        else:
            mid += [([["Q", "H"], ["L", "H"]][ctx.seed % 2], rng.choice([100, 3000, 70000]))]
        for seq, k in mid:
            r, _ = rig.encode(cr.d.sock, uid=0, gid=0, data=huge)
            cred = r["data"]
            plan = [(x, k if x == "H" else 9) for x in seq]
            px.set_plan(plan)
            for i, x in enumerate(seq):
                rig.decode(px.listen_path, cred, retry=i)        # the client gets at most k bytes of the reply
            log = [list(x) for x in px.log]
            ctx.count(("unsent-mid", tuple(seq), k))
            dist["unsent-midreply-no-retry"] = dist.get("unsent-midreply-no-retry", 0) + 1
            d1, _ = rig.decode(cr.d.sock, cred)
            case = {"op": "unsent-mid", "attempts": seq, "reply_cut_after_bytes": k, "payload_len": HUGE, "proxy_log": log,
                    "plan": [list(f) for f in plan],
                    "how_to_replay": "encode %d bytes ((i*131+7)&255); send the DEC_REQ(s) (retry = 0, 1, ..) from a raw client; for the "
                                     "last one read %d bytes of the reply, wait 30 ms, close; wait until munged has closed its end; "
                                     "decode the credential again" % (HUGE, k)}
            if "L" in seq[:-1]:
                # an earlier attempt was answered as far as munged can tell: the retry added no record and takes none back
                if d1 is None or d1["error_num"] != 17:
                    fails.append(dict(case, key="unsent-mid-own-record", why="attempts %s: an earlier attempt was answered (reply lost on the "
                                      "way), the retry's reply broke after %d bytes; the retry added no record, so the credential must stay "
                                      "consumed, but the next decode gives %s" % (seq, k, d1 and (d1["error_num"], d1["error_str"]))))
            elif d1 is None or d1["error_num"] != 0 or d1["data"] != huge:
                fails.append(dict(case, key="unsent-mid", why="attempts %s: munged had written only part of the reply to a successful decode "
                                  "(%d-byte payload) when the client hung up after %d bytes, and the client never came back; the credential "
                                  "must remain decodable, but the next decode gives %s" % (
                                      seq, HUGE, k, d1 and (d1["error_num"], d1["error_str"])),
                                  clause="If munged cannot deliver the reply to a successful decode and the client never retries, the "
                                         "credential remains decodable"))
            else:
                d2, _ = rig.decode(cr.d.sock, cred)
                if d2 is None or d2["error_num"] != 17:
                    fails.append(dict(case, key="unsent-mid-second", why="attempts %s, reply cut after %d bytes: the credential decoded afterwards is "
                                      "accepted once more (%s)" % (seq, k, d2 and d2["error_num"])))
        ctx.log("replies cut in the middle (%d-byte payload, no retry): %d cases" % (HUGE, len(mid)))
        # the same with other live credentials in the SAME bucket chain of the replay table (head / middle / tail)
        c13_replay.rollback_live(ctx, cr, fails, mism, dist)

    rc_cl, cl_err = cl.close()
    if xo is not None:
        xo.stdin.close(); xo.wait()
    px.close()
    rc, rep = cr.stop()
    if rep.strip():
        ctx.violation("sanitizer report from the daemon during C13 cases", {"report": rep[:3000]}, found_input=False)
    if (rc_cl != 0 or "Sanitizer" in cl_err) and not fails:
        ctx.violation("the libmunge client left a sanitizer report at exit (leak or memory error) after the C13 fault plans: "
                      + (re.search(r"(ERROR: \w+Sanitizer:[^\n]*)", cl_err).group(1) if re.search(r"(ERROR: \w+Sanitizer:[^\n]*)", cl_err) else "exit %s" % rc_cl),
                      {"client_stderr": cl_err[:3000], "rc": rc_cl, "obligation": "no message or descriptor of any attempt is left behind"},
                      found_input=False)
    ctx.cov.setdefault("input_distribution", {}).update(dist)
    ctx.cov["traces_validated_against_impl"] = ctx.cov["evaluations"]
    seen = {}
    fails.sort(key=lambda f: len(f.get("plan", [])))       # shortest fault plan first
    for f in fails:
        k = f.get("key") or re.sub(r"faults? [-\w,]+|\((small|large) \w+\)", "", re.sub(r"[0-9]+", "#", f["why"]))[:70]
        seen[k] = seen.get(k, 0) + 1
        if seen[k] > (2 if f.get("key") else 1):
            continue
        ctx.violation(f["why"], f, found_input=True)
    if not fails and mism:
        ctx.violation("model and implementation disagree on %d cases (first: %s)" % (len(mism), mism[0]["diff"]),
                      {"obligation": "correspondence RetryModel / RetryClientModel ~ libmunge+munged", "first": mism[0]}, found_input=False)
    return proved


def signal_phase(ctx):
    """'still complete with the correct result by retrying' in an application that has its own timers: SIGALRM every 2 ms (handler
    without SA_RESTART) while libmunge retries after one lost reply; the back-off between attempts is a sleep that gets interrupted"""
    import rig, proxy, subprocess
    exe, err = rig.build_daemon(ctx, san="address")
    lm, err2 = rig.build_lmclient(ctx, name="lmclient-sig")
    if exe is None or lm is None:
        ctx.violation("build failed for the signal phase: " + (err or err2)[-300:], {"obligation": "build"}, found_input=False)
        return
    d = rig.Daemon(ctx, exe, tag="c13sig", nthreads=2)
    if not d.start():
        return
    px = proxy.FaultProxy(os.path.join(d.dir, "px"), d.sock)
    p = subprocess.Popen([lm, px.listen_path], stdin=subprocess.PIPE, stdout=subprocess.PIPE, text=True,
                         env=dict(os.environ, ASAN_OPTIONS="detect_leaks=0:exitcode=99"))

    def ask(l):
        p.stdin.write(l + "\n"); p.stdin.flush()
        return p.stdout.readline().strip()
    bad = None
    try:
        ask("I 2000")
        for k in range(10 if ctx.thorough else 5):
            for plan, what in (([("L", 0)], "one lost reply"), ([("Q", 5)], "one request cut in the header"), ([("L", 0), ("Q", 30)], "two faults")):
                px.set_plan(plan)
                r = ask("E %s 4 5 0 0 4294967295 4294967295" % (b"signal %d" % k).hex()).split()
                ctx.count(("signal-phase", "enc", k, what))
                if len(r) < 3 or r[1] != "0":
                    bad = "munge_encode under %s, with SIGALRM arriving every 2 ms in the calling application, returned %s" % (what, r[1:2] + [bytes.fromhex(r[3]).decode(errors="replace") if len(r) > 3 and r[3] != "-" else ""])
                    break
                cred = r[2]
                px.set_plan(plan)
                r2 = ask("D %s" % cred).split()
                ctx.count(("signal-phase", "dec", k, what))
                if len(r2) < 13 or r2[1] != "0":
                    bad = "munge_decode under %s, with SIGALRM arriving every 2 ms in the calling application, returned %s" % (what, r2[1:2] + [bytes.fromhex(r2[-1]).decode(errors="replace") if r2 and r2[-1] != "-" else ""])
                    break
            if bad:
                break
    except Exception as e:               # noqa: BLE001
        bad = "libmunge client died in the signal phase: %r" % e
    finally:
        try:
            p.stdin.close(); p.wait(timeout=5)
        except Exception:
            p.kill()
        px.close()
        d.stop()
    if bad:
        ctx.violation(bad + " instead of completing by retrying", {"scenario": "lmclient with 'I 2000' (setitimer 2 ms, handler without SA_RESTART) behind the fault proxy"})


def broken_phase(ctx):
    """'still complete by retrying' holds for the life of the daemon: any number of earlier broken connections (at every byte
    offset of the header) must leave it able to serve the next attempt"""
    import conc, rig
    exe, err = rig.build_daemon(ctx, san="address")
    if exe is None:
        return
    pp, rep, n = conc.broken_connections_phase(ctx, exe, n=300 if ctx.thorough else 120)
    ctx.cov.setdefault("input_distribution", {})["broken-connections"] = n
    for pb in pp[:2]:
        ctx.violation(pb["why"], pb)
    if rep.strip() and not pp:
        ctx.violation("sanitizer report from the daemon after broken connections", {"report": rep[:3000]}, found_input=False)


class DaemonGone(Exception):
    def __init__(self, text, case):
        Exception.__init__(self, text)
        self.case = case


def run(ctx):
    """the property's own check, then the component check of the socket I/O loops (fd.c) that every request and reply of
    this property goes through: Properties_FD.v + correspondence FdModel ~ /repo's fd.c (tools/props/fd_common.py)"""
    try:
        proved = _run_own(ctx)
    except DaemonGone as e:
        ctx.violation("the daemon does not survive a connection fault: %s; the credential of that case can no longer be decoded by anybody" % e,
                      {"case": e.case, "obligation": "munged keeps serving across broken connections"})
        return
    if not ctx.violations and not proved:
        ctx.violation("proof obligation no longer checks: %s" % getattr(ctx, "broken_obligation", "Properties_C13.v missing"),
                      {"obligation": getattr(ctx, "broken_obligation", "?"), "log": ctx.proof_log[-3000:]}, found_input=False)
    if getattr(ctx, "replay", None):
        return
    broken_phase(ctx)
    signal_phase(ctx)
    from props import fd_common
    fd_common.fd_phase(ctx)
