"""C13 — broken connections are retried safely and never burn a credential."""
import itertools, os, subprocess, time
import vlib, rig, credcorr
from proxy import FaultProxy

MANIFEST = dict(
    level=("proof", "Coq theorems over RetryModel (libmunge's m_msg_client_xfer loop against CredModel.dec_process with "
           "per-attempt faults: request cut, reply lost after a successful send, reply send failed with roll-back): up to "
           "four faulty attempts of any kind in any order followed by a clean one return exactly the fault-free result and "
           "leave exactly one replay record; an unsent reply without retry leaves the cache as before; five faults give a "
           "socket error, never a partial result; retry counter bounds; encode is retry-independent. Tied to the code by "
           "the real libmunge (built from /repo) talking to the real daemon through a fault-injecting proxy that cuts the "
           "connection at every byte offset of request and reply, in either direction, in sequences up to length 5; results "
           "and afterwards-decodability compared with the extracted model.", "7 C13"),
    note="Fault kinds are the three observable outcomes of a cut connection; RST vs FIN vs short write differ only in which "
         "of them occurs. Back-off sleeps are real (10-40 ms). Trusted: Coq kernel, extraction, proxy.py, lmclient.c.",
    technique="Coq proof (invariant over the attempt loop; factorisation of dec_process into a cache-independent part and the "
              "replay step) + fault-injection correspondence with real libmunge")

ANY = 0xFFFFFFFF
E_SOCKET = 6


def _run_own(ctx):
    ctx.level = "proof"
    have = os.path.exists(os.path.join(vlib.COQ, "Properties_C13.v"))
    proved = vlib.prove(ctx, ["Properties_C13.v"], facts=["cred", "base64"]) if have else False
    ctx.log("proofs:", "ok" if proved else "BROKEN/absent: " + getattr(ctx, "broken_obligation", "Properties_C13.v"))
    ctx.cov["rule"] = ("fault plans = sequences of up to 5 per-attempt faults (Q k: request cut after k bytes; L k: reply cut "
                       "after k bytes although the daemon's send succeeded; S: daemon-side connection closed before the reply "
                       "is written) with k over every byte offset of header and body for a small credential (quick: all "
                       "single-fault offsets + all fault-kind sequences up to length 4 at sampled offsets + exhaustion), run "
                       "through the real libmunge for munge_decode and munge_encode; result, payload and the replay state "
                       "afterwards (second decode must say 'replayed'; after an unsent reply without retry the credential must "
                       "still decode) are compared with the extracted RetryModel. non-trivial = distinct (operation, plan)")
    try:
        exe, orc = credcorr.build_all(ctx)
    except RuntimeError as e:
        ctx.violation(str(e), {"obligation": "build"}, found_input=False)
        return
    lm, err = rig.build_lmclient(ctx)
    if lm is None:
        ctx.violation("libmunge client does not build: " + err[-300:], {"obligation": "build libmunge"}, found_input=False)
        return
    cr = credcorr.CredRig(ctx, exe, orc, tag="c13", nthreads=2)
    if not cr.ok:
        ctx.violation("daemon does not start", {"obligation": "start"}, found_input=False)
        return
    px = FaultProxy(os.path.join(cr.d.dir, "px"), cr.d.sock)
    p = subprocess.Popen([lm, px.listen_path], stdin=subprocess.PIPE, stdout=subprocess.PIPE, text=True)

    def ask(l):
        p.stdin.write(l + "\n"); p.stdin.flush()
        return p.stdout.readline().split()

    rng = ctx.rng
    fails, mism = [], []
    dist = {}
    payload = b"retry me"

    def fresh_cred():
        r, _ = rig.encode(cr.d.sock, uid=0, gid=0, data=payload)
        return r["data"]

    def model_plan(plan):
        return ",".join(f[0] for f in plan) or "-"

    def decode_case(kind, plan):
        cred = fresh_cred()
        px.set_plan(plan)
        d = ask("D " + cred.rstrip(b"\0").hex())
        m = cr.o.ask("DECF %s 0 0 %d - %s" % (cred.hex(), cr.now, model_plan(plan))).split()
        ctx.count((kind, tuple(plan)))
        dist[kind] = dist.get(kind, 0) + 1
        nf = len(plan)
        err = int(d[1])
        got = b"" if d[13] == "-" else bytes.fromhex(d[13])
        case = {"op": "decode", "plan": [list(f) for f in plan], "libmunge_error": err, "proxy_log": [list(x) for x in px.log][:8]}
        # model vs implementation
        if m[1] == "SOCKERR":
            if err != E_SOCKET:
                mism.append(dict(case, diff="model: socket error, libmunge: %d" % err))
        else:
            if err != int(m[1]) or (err == 0 and got.hex() != (m[18] if m[18] != "-" else "")):
                mism.append(dict(case, diff="model: error %s, libmunge: %d" % (m[1], err)))
        # the property, directly
        if nf <= 4:
            if err != 0 or got != payload:
                fails.append(dict(case, why="munge_decode under %d connection fault(s) %s returned error %d (%s) instead of the payload"
                                           % (nf, model_plan(plan), err, bytes.fromhex(d[14]).decode(errors="replace") if d[14] != "-" else "")))
        else:
            if err not in (E_SOCKET,) and not (err == 0 and got == payload):
                fails.append(dict(case, why="after %d faults munge_decode returned error %d: neither a socket error nor the correct result" % (nf, err)))
            if err == 0 and got != payload:
                fails.append(dict(case, why="partial/wrong payload after exhausted retries"))
        # afterwards: exactly one record -> a new first-attempt decode says replayed (if the decode succeeded)
        d2, m2, diff = cr.decode_both(cred)
        if diff:
            mism.append(dict(case, diff="afterwards: " + diff))
        if err == 0 and (d2 is None or d2["error_num"] != 17):
            fails.append(dict(case, why="after a successful (retried) decode a second decode gives %s, expected 'replayed'" % (d2 and d2["error_num"])))
        if len(ctx.cov["samples"]) < 10 and nf:
            ctx.sample(case)

    def encode_case(kind, plan):
        px.set_plan(plan)
        e = ask("E %s 1 1 1 0 %d %d" % (payload.hex(), ANY, ANY))
        ctx.count((kind, tuple(plan)))
        dist[kind] = dist.get(kind, 0) + 1
        err = int(e[1])
        case = {"op": "encode", "plan": [list(f) for f in plan], "libmunge_error": err}
        if len(plan) <= 4:
            if err != 0:
                fails.append(dict(case, why="munge_encode under %d connection fault(s) returned error %d" % (len(plan), err)))
                return
            d, m, diff = cr.decode_both(bytes.fromhex(e[2]) + b"\0")
            if d is None or d["error_num"] != 0 or d["data"] != payload:
                fails.append(dict(case, why="credential returned by a retried munge_encode does not decode: %s" % (d and d["error_num"])))
        elif err not in (0, E_SOCKET):
            fails.append(dict(case, why="after %d faults munge_encode returned %d (neither socket error nor success)" % (len(plan), err)))

    cred0 = fresh_cred()
    reqlen = 11 + 4 + len(cred0.rstrip(b"\0")) + 1
    rsplen = 11 + 60
    # single fault at every byte offset of request and reply
    offs_q = range(0, reqlen) if ctx.thorough else sorted(set(list(range(0, 16)) + [reqlen // 2, reqlen - 2, reqlen - 1]))
    offs_l = range(0, rsplen) if ctx.thorough else sorted(set(list(range(0, 14)) + [20, 40, rsplen - 1, 200]))
    for k in offs_q:
        decode_case("single-Q", [("Q", k)])
    for k in offs_l:
        decode_case("single-L", [("L", k)])
    decode_case("single-S", [("S", 0)])
    decode_case("clean", [])
    # all fault-kind sequences up to length 4 (then clean), at sampled offsets
    kinds = ["Q", "L", "S"]
    for n in (2, 3, 4):
        seqs = list(itertools.product(kinds, repeat=n))
        if not ctx.thorough:
            seqs = rng.sample(seqs, min(len(seqs), 10 if n < 4 else 14))
        for s in seqs:
            plan = [(x, rng.choice([0, 5, 11, 12, 30]) if x != "S" else 0) for x in s]
            decode_case("seq%d" % n, plan)
    # exhaustion: five faults
    for s in ([("Q",) * 5, ("L",) * 5, ("S",) * 5, ("L", "S", "Q", "L", "S")] + ([tuple(rng.choice(kinds) for _ in range(5)) for _ in range(6)] if ctx.thorough else [])):
        decode_case("exhausted", [(x, 7 if x != "S" else 0) for x in s])
    # encode under faults
    for plan in ([("Q", 3)], [("L", 5)], [("S", 0)], [("L", 0), ("Q", 11), ("S", 0), ("L", 12)], [("S", 0)] * 4, [("Q", 0)] * 5, [("L", 1)] * 5):
        encode_case("encode", plan)
    # replies to a SUCCESSFUL decode that cannot be delivered, after which the client never reaches munged again
    # (raw clients through the proxy, so that the sequence stops where we want): the credential must remain decodable.
    #   [S]      first attempt processed, send fails
    #   [Q, S]   first attempt never arrives; the retry (retry=1) is processed, its send fails
    #   [L, S]   first attempt processed and answered (reply lost on the way); the retry is accepted as a retry,
    #            its send fails -> munged gives the record back
    for seq in ([["S"], ["Q", "S"], ["L", "S"]] * (2 if ctx.thorough else 1)):
        cred = fresh_cred()
        px.set_plan([(x, 0 if x == "S" else 9) for x in seq])
        for i, x in enumerate(seq):
            rig.decode(px.listen_path, cred, retry=i)        # the client gets nothing usable
        cr.o.ask("DECF %s 0 0 %d - %s" % (cred.hex(), cr.now, ",".join(seq + ["S"] * (5 - len(seq)))))
        time.sleep(0.05)
        d, m, diff = cr.decode_both(cred)
        ctx.count(("unsent", tuple(seq)))
        dist["unsent-no-retry"] = dist.get("unsent-no-retry", 0) + 1
        if diff:
            mism.append({"op": "unsent", "diff": diff})
        if d is None or d["error_num"] != 0:
            fails.append({"why": "attempts %s: the reply to a successful decode could not be delivered and the client never came back, yet "
                                 "the credential is now reported as %s" % (seq, d and (d["error_num"], d["error_str"]),), "op": "unsent", "seq": seq})
    p.stdin.close()
    p.wait()
    px.close()
    rc, rep = cr.stop()
    if rep.strip():
        ctx.violation("sanitizer report from the daemon during C13 cases", {"report": rep[:3000]}, found_input=False)
    ctx.cov["input_distribution"] = dist
    ctx.cov["traces_validated_against_impl"] = ctx.cov["evaluations"]
    seen = set()
    for f in fails:
        k = f["why"][:50]
        if k in seen:
            continue
        seen.add(k)
        ctx.violation(f["why"], f, found_input=True)
    if not fails and mism:
        ctx.violation("model and implementation disagree on %d cases (first: %s)" % (len(mism), mism[0]["diff"]),
                      {"obligation": "correspondence RetryModel ~ libmunge+munged", "first": mism[0]}, found_input=False)
    if not fails and not mism and not proved:
        ctx.violation("proof obligation no longer checks: %s" % getattr(ctx, "broken_obligation", "Properties_C13.v missing"),
                      {"obligation": getattr(ctx, "broken_obligation", "?"), "log": ctx.proof_log[-3000:]}, found_input=False)


def run(ctx):
    """the property's own check, then the component check of the socket I/O loops (fd.c) that every request and reply of
    this property goes through: Properties_FD.v + correspondence FdModel ~ /repo's fd.c (tools/props/fd_common.py)"""
    _run_own(ctx)
    from props import fd_common
    fd_common.fd_phase(ctx)
