"""C12 — accepted work is done exactly once; work_wait returns only when idle; a graceful stop drains."""
import json, os, re, subprocess, time
import vlib
from props import c12_job

MANIFEST = dict(
    level=("proof", "Coq theorems over an LTS of work.c (1 acceptor, n >= 1 workers, every interleaving of critical "
           "sections, wake-ups, spurious wake-ups and cancellation): exactly-once hand-off, work_wait returns only "
           "when idle, work_fini(w,1) cancels nobody before everything accepted is done, no lost wake-up on either "
           "condition variable, a finite worker-only schedule drains from every reachable state, no deadlock and "
           "termination of work_fini; refutation witnesses for the && guard and for the test-then-accept stop window. "
           "The guards of the two wait loops are probed from work.c on every run (GenWork.v) and a theorem states "
           "verified-instance-or-counterexample for them; tied to the code by replaying the witnesses and by "
           "checking the event log of the real work.c (wrapped pthread calls) as a run of the extracted LTS.  "
           "Acceptor (job.c, job_accept): the function is translated from its source text into a small program "
           "(GenJob.v) on every run; Coq theorems for every environment (answers of accept/time/work_queue/..., signal "
           "deliveries inside every call and before every flag access): every accepted connection is handed to "
           "work_queue exactly once and never closed by the acceptor, every descriptor shortage is followed by work_wait "
           "before the next accept whatever the log rate limiter remembers, the loop is left only at the test before "
           "accept, work_fini (w,1) once and only after SIGINT/SIGTERM, SIGHUP served within one accept; tied to the code "
           "by running job.c itself against scripted environments and comparing call for call.", "7 C12"),
    note="Partial: liveness is 'a finishing schedule exists from every reachable state' + 'no stuck state', not "
         "termination under a fairness operator; the mutex/condvar/cancellation semantics of pthreads are the model's "
         "premises; the C code is tied by differential testing and schedule fuzzing, not verified. Trusted: Coq "
         "kernel+vm_compute, guard probe, extraction, harness/driver glue.  Acceptor: the environment of job_accept is "
         "modelled as answers to its calls plus signal deliveries inside calls and before flag accesses (a call that "
         "never returns = end of the script); tools/facts/job.py (translator of job_accept's and sig_handler's source text "
         "into GenJob.v) is trusted and validated on every run by running job.c and the interpreter of the translated "
         "program on the same scripts; the harness defines work_*/log_*/m_msg_*/fd_set_nonblocking/gids_update itself "
         "(m_msg_destroy's close of the bound descriptor is the event D:<fd>) and installs a copy of sig_handler.",
    technique="Coq proof (inductive invariants via count_occ + lia, measure-based progress) + probed guard tables + "
              "trace-inclusion check of the real event log in the extracted LTS + deterministic witness replays + "
              "schedule fuzzing under ASan; acceptor (job.c): source-text translation into a program model + Coq "
              "theorems over all environments + scripted environments (wrapped accept/time/close, real signals) run "
              "through job.c and the extracted interpreter, clause monitors on the implementation's call log")

WRAPS = ["pthread_create", "pthread_mutex_init", "pthread_cond_init", "pthread_mutex_lock", "pthread_mutex_unlock",
         "pthread_cond_wait", "pthread_cond_signal", "pthread_cancel", "pthread_join", "pthread_testcancel"]
TAB_OR = [False, True, True, True]
FINDING_KEY_ACCEPT = "F-C12-accept: signal delivered between flag test and accept(), no later connection"

W1 = "P 1 1 0 q1,60000 B w f1"          # one worker, one slow item in progress => work_wait must block
W2 = "P 1 2 0a I q1,0 f1"               # idle worker, enqueue, fini at once => the item must still be processed


# --------------------------------------------------------------------------- programs
def gen_programs(ctx):
    rng = ctx.rng
    progs = []

    def P(n, perturb, ops, pin=False):
        progs.append("P %d %d %d%s %s" % (n, rng.randrange(1, 1 << 30), perturb, "a" if pin else "", " ".join(ops)))

    # aimed at the four guard entries (n_working, head) and at the signal / no-signal split of work_queue
    for n in (1, 2, 3, 4, 8):
        P(n, 0, ["q%d,20000" % n, "B", "w", "f1"])                        # in progress, queue empty, wait
        P(n, 1, ["q%d,15000" % (2 * n + 1), "B", "w", "f1"])              # in progress and queued (all busy: no signal)
        P(n, 0, ["I", "q1,0", "w", "f1"])                                 # queued, nobody working yet
        P(n, 0, ["I", "q%d,0" % (n + 2), "f1"], pin=(n == 1))             # idle crew, burst, stop at once
        P(n, 2, ["q%d,10000" % n, "B", "f1"])                             # in progress at the stop
        P(n, 2, ["q%d,3000" % (3 * n), "f1"])                             # queued and in progress at the stop
        P(n, 1, ["w", "I", "w", "f1"])                                    # idle waits return at once
        P(n, 1, ["q%d,500" % (n + 1), "f0"])                              # stop without draining
    # "for every queue length": more requests queued than the listen backlog (256) / than any small constant, behind busy workers
    for n, q in ((1, 300), (2, 600), (2, 257)) + (((4, 2000), (8, 1025)) if ctx.thorough else ()):
        P(n, 0, ["q%d,2000" % n, "B", "q%d,0" % q, "w", "f1"])              # workers busy, long queue builds up, wait, drain
        P(n, 2, ["q%d,1000" % n, "B", "q%d,0" % q, "f1"])                   # long queue at the stop
    nrand = 6000 if ctx.thorough else 600
    for _ in range(nrand):
        n = rng.choice([1, 1, 2, 2, 3, 4, 5, 8])
        perturb = rng.choice([0, 1, 2, 2, 3])
        ops = []
        for _ in range(rng.randrange(1, 8)):
            r = rng.random()
            if r < 0.45:
                cnt = rng.choice([1, 1, 2, 3, n, n + 1, 2 * n + 1, rng.randrange(1, 30)])
                dur = rng.choice([0, 0, 0, 50, 300, 2000, rng.randrange(0, 4000)])
                ops.append("q%d,%d" % (cnt, dur))
            elif r < 0.72:
                ops.append("w")
            elif r < 0.82:
                ops.append("s%d" % rng.choice([0, 50, 500, 2000]))
            elif r < 0.90:
                ops.append("I")
            else:
                ops.append("B")
        ops.append("f1" if rng.random() < 0.85 else "f0")
        P(n, perturb, ops, pin=(rng.random() < 0.1))
    return progs


def parse_result(line):
    if not line.startswith("R "):
        return None
    r = {}
    for tok in line.split()[1:]:
        k, _, v = tok.partition("=")
        r[k] = v
    return r


# --------------------------------------------------------------------------- the property itself
def property_holds(prog, res):
    """Evaluated on the implementation's observables only (independent of the Coq model).  Returns None or why."""
    if res is None:
        return "no answer from the harness"
    if res.get("initfail"):
        return "work_init failed"
    ops = prog.split()[4:]
    drain = not ops or ops[-1] != "f0"
    proc = [] if res.get("proc", "-") == "-" else [int(x) for x in res["proc"].split(".")]
    if res.get("hang") == "1":
        return ("deadlock / lost wake-up: the program did not finish (phase %s, %s item(s) accepted and unfinished, "
                "%s worker(s) idle)" % (res.get("phase"), res.get("pending"), res.get("idle")))
    if any(c > 1 for c in proc):
        return "an item was handed to a worker %d times" % max(proc)
    if res.get("qfail", "0") not in ("0",):
        return "work_queue failed before work_fini"
    wr = [] if res.get("waitret", "-") == "-" else [int(x) for x in res["waitret"].split(".")]
    if any(p != 0 for p in wr):
        return "work_wait returned with %d item(s) queued or in progress" % max(wr)
    if drain:
        if int(res.get("cancelpend", "0")) > 0:
            return ("work_fini(w,1) issued pthread_cancel with %s accepted item(s) not finished" % res["cancelpend"])
        if any(c != 1 for c in proc if c >= 0):
            return "work_fini(w,1) returned and %d accepted item(s) were never processed" % sum(1 for c in proc if c == 0)
        if int(res.get("finiret", "0")) != 0:
            return "work_fini(w,1) returned with %s item(s) unfinished" % res["finiret"]
    return None


def lost_wakeup(n, trace):
    """'none of which ... loses a wake-up', on the raw event log (independent of the Coq model): when work_queue leaves its
    critical section having queued an item while some worker is asleep in pthread_cond_wait on `received_work` (and has not
    been signalled since), the acceptor must signal that condition before its next action; otherwise the item sits in the
    queue next to a sleeping worker until some other event happens to wake one."""
    evs = [] if trace in ("-", "") else [e.split(":") for e in trace.split(",")]
    shadow = ["ready"] * n
    for k, e in enumerate(evs):
        t = e[0]
        if t in ("s", "r", "f"):
            shadow[int(e[1])] = {"W": "waiting", "U": "working", "D": "dead"}[e[2]]
        elif t == "d":
            shadow[int(e[1])] = "dead"
        elif t == "G":
            for i in range(n):
                if shadow[i] == "waiting":
                    shadow[i] = "woken"
                    break
        elif t == "Q":
            asleep = [i for i in range(n) if shadow[i] == "waiting"]
            if not asleep:
                continue
            for e2 in evs[k + 1:]:
                if e2[0] == "G":
                    break
                if e2[0] in ("Q", "W", "Z", "C"):
                    return ("lost wake-up: work_queue queued item %s while worker %d was asleep in pthread_cond_wait(received_work) "
                            "and returned without signalling it (event #%d of the log); the item waits next to a sleeping worker"
                            % (e[1], asleep[0], k))
    return None


# --------------------------------------------------------------------------- event log -> LTS labels
def to_tokens(n, trace):
    """Turn the harness event log into labels (+ observed outcomes) of WorkModel.  The only inference is which
    waiter a pthread_cond_signal woke: the waiting worker that next returns from (or dies in) pthread_cond_wait."""
    evs = [] if trace in ("-", "") else [e.split(":") for e in trace.split(",")]
    shadow = ["ready"] * n
    toks = []
    info = {"spurious": 0, "acc_spurious": 0}
    cls = {"W": 2, "U": 3, "D": 4}
    acc_blocked = False
    acc_woken = False
    ncancel = njoin = 0
    for k, e in enumerate(evs):
        t = e[0]
        if t in ("s", "r", "f"):
            i, o, g = int(e[1]), e[2], e[3]
            if t == "s":
                toks.append("S%d:%d" % (i, cls[o]))
            elif t == "r":
                if shadow[i] == "waiting":
                    toks.append("P%d" % i); info["spurious"] += 1
                toks.append("R%d:%d" % (i, cls[o]))
            else:
                toks.append("F%d:%d:%s" % (i, cls[o], g))
                if g == "1" and acc_blocked:
                    acc_woken = True
            shadow[i] = {"W": "waiting", "U": "working", "D": "dead"}[o]
        elif t == "d":
            i = int(e[1]); toks.append("D%d" % i); shadow[i] = "dead"
        elif t == "J":
            toks.append("J%s:%s" % (e[1], e[2]))
        elif t == "Q":
            toks.append("E%s" % e[1])
        elif t == "G":
            cand = [i for i in range(n) if shadow[i] == "waiting"]
            if not cand:
                toks.append("G-")
            else:
                best = None
                for pref in ("r", "d"):
                    for e2 in evs[k + 1:]:
                        if e2[0] == pref and int(e2[1]) in cand:
                            best = int(e2[1]); break
                    if best is not None:
                        break
                if best is None:
                    best = cand[0]
                toks.append("G%d" % best); shadow[best] = "woken"
        elif t in ("W", "Z"):
            a, o = e[1], e[2]
            base = 2 if t == "W" else 4
            exit_cls = 0 if t == "W" else 6
            if a == "E":
                toks.append(("W:%d" if t == "W" else "Z1:%d") % (base if o == "B" else exit_cls))
            elif a == "N":
                toks.append("Z0:6")
            else:
                if not acc_woken:
                    toks.append("A"); info["acc_spurious"] += 1
                toks.append("K:%d" % (base if o == "B" else exit_cls))
            acc_blocked = (o == "B"); acc_woken = False
        elif t == "C":
            if int(e[1]) != ncancel:
                toks.append("X-cancel-order")
            ncancel += 1
            toks.append("C:6")
            if ncancel == n:
                toks.append("C:7")
        elif t == "N":
            if int(e[1]) != njoin:
                toks.append("X-join-order")
            njoin += 1
            toks.append("N:7")
            if njoin == n:
                toks.append("N:8")
        else:
            toks.append("X-" + t)
    return toks, info


def tok_to_gallina(tok):
    """Same reading of a token as extract/work/driver.ml (used for the vm_compute cross-check of the extraction)."""
    f = tok.split(":")
    tag, rest = f[0][0], f[0][1:]
    some = lambda a, b: "(Some (%s, %s))" % (a, b)
    if tag == "E": return "TStep (LEnqueue %s) None None None" % rest
    if tag == "G": return ("TStep (LSignal None) None None None" if rest == "-" else
                           "TStep (LSignal (Some %s)) %s None None" % (rest, some(rest, 1)))
    if tag == "S": return "TStep (LStart %s) %s None None" % (rest, some(rest, f[1]))
    if tag == "R": return "TStep (LRetest %s) %s None None" % (rest, some(rest, f[1]))
    if tag == "P": return "TStep (LSpurious %s) None None None" % rest
    if tag == "D": return "TStep (LDie %s) %s None None" % (rest, some(rest, 4))
    if tag == "F": return "TStep (LFinish %s) %s None (Some %s)" % (rest, some(rest, f[1]), "true" if f[2] == "1" else "false")
    if tag == "J": return "TJob %s %s" % (rest, f[1])
    if tag == "W": return "TStep LWaitEnter None (Some %s) None" % f[1]
    if tag == "Z": return "TStep (LFiniEnter %s) None (Some %s) None" % ("true" if rest == "1" else "false", f[1])
    if tag == "K": return "TStep LWaitWake None (Some %s) None" % f[1]
    if tag == "A": return "TStep LAccSpurious None None None"
    if tag == "C": return "TStep LCancel None (Some %s) None" % f[1]
    if tag == "N": return "TStep LJoin None (Some %s) None" % f[1]
    raise ValueError(tok)


def extraction_crosscheck(ctx, lines, mod, proved):
    """A sample of the oracle's verdicts recomputed inside Coq with vm_compute."""
    samp = [i for i in range(0, len(lines), max(1, len(lines) // 12)) if len(lines[i]) < 6000][:12]
    exprs = []
    for i in samp:
        f = lines[i].split()
        try:
            evs = "; ".join(tok_to_gallina(t) for t in f[3:])
        except (ValueError, IndexError):
            return
        exprs.append("let r := check_trace code_wait_cond code_fini_cond (init %s) 0 [%s] in "
                     "(fst r, aclass (acc (snd r)), length (done (snd r)))" % (f[2], evs))
    res, e3 = vlib.coq_eval_sample(ctx, "From Coq Require Import List.\nFrom MV Require Import WorkModel GenWork.\nImport ListNotations.", exprs)
    if res is None or len(res) != len(samp):
        ctx.notes.append("extraction cross-check could not run: %s" % (e3 or "")[-300:])
        if proved:
            ctx.violation("vm_compute cross-check of extraction failed to run", {"obligation": "extraction cross-check", "err": e3}, found_input=False)
        return
    bad = 0
    for i, r in zip(samp, res):
        m = mod[i].split()
        nums = re.findall(r"\d+", r)
        if m[1] == "ok":
            fm = dict(t.split("=") for t in m[2:])
            ndone = 0 if fm["done"] == "-" else len(fm["done"].split("."))
            if "None" not in r or nums[-2:] != [fm["acc"], str(ndone)]:
                bad += 1
        elif m[1] == "reject":
            if "Some %s" % m[2] not in r:
                bad += 1
    ctx.cov["extraction_crosscheck"] = {"cases": len(samp), "disagreements": bad}
    if bad:
        ctx.violation("extracted oracle disagrees with vm_compute on %d sample traces" % bad,
                      {"obligation": "extraction cross-check"}, found_input=False)


# --------------------------------------------------------------------------- running
def run_harness(ctx, exe, progs, hang_secs=12, env_extra=None, timeout=1500, max_hangs=2):
    """Runs the programs; a hang ends the process (watchdog), the rest is run in a new one
    (after max_hangs hangs the remaining programs are not run: the verdict is already a violation)."""
    out = []
    hangs = 0
    stderr_all = ""
    todo = list(progs)
    env = {"ASAN_OPTIONS": "detect_leaks=0:abort_on_error=0:exitcode=99", "UBSAN_OPTIONS": "print_stacktrace=1"}
    if env_extra:
        env.update(env_extra)
    while todo:
        rc, lines, err = vlib.run_lines([exe, str(hang_secs)], todo, timeout=timeout, env=env)
        lines = [l for l in lines if l.startswith("R ") or l.startswith("? ")]
        err = "".join(l + "\n" for l in err.splitlines() if "stacksize" not in l)
        k = err.find("ERROR:")
        stderr_all += err[max(k - 20, 0):][:4000] if k >= 0 else err[-2000:]
        out += lines
        if len(lines) >= len(todo):
            break
        if rc == 3 and lines:              # watchdog: the last line is the hang report
            todo = todo[len(lines):]
            hangs += 1
            if hangs >= max_hangs:
                out += ["R notrun=1"] * len(todo)
                break
            continue
        # crash / sanitizer abort: the program after the last answered one killed the process
        out.append("R crash=1 rc=%d" % rc)
        todo = todo[len(lines) + 1:]
    return out, stderr_all


def read_tables():
    txt = open(os.path.join(vlib.COQ, "gen", "GenWork.v")).read()
    tabs = {}
    for which in ("wait", "fini"):
        m = re.search(r"code_%s_tab : list bool := \[(.*?)\]" % which, txt)
        tabs[which] = [x.strip() == "true" for x in m.group(1).split(";")] if m else None
    return tabs


def guard_text(tab):
    if tab == TAB_OR:
        return "n_working != 0 || work_head != NULL"
    if tab == [False, False, False, True]:
        return "n_working != 0 && work_head != NULL"
    return "table %s over (n_working, head) = (0,0) (0,1) (>0,0) (>0,1)" % tab


def stop_phase(ctx):
    """`munged --stop` while a request accepted before it is still in progress: the client delivers its request slowly (but
    inside the daemon's per-message I/O limit) and reads the large reply slowly (again inside the limit).  The daemon may
    take as long as that needs; the stop command may not kill it before the reply is complete.  Timing guard: a run in which
    this client itself overran a limit (loaded machine) proves nothing and is repeated; a violation is reported only when
    the daemon was SIGKILLed (exit status -9) while the client was inside its limits."""
    import rig, socket, struct, subprocess, threading
    exe, err = rig.build_daemon(ctx, name="munged-stop", san=None)
    if exe is None:
        ctx.violation("munged does not build: " + err[-300:], {"obligation": "build (stop phase)"}, found_input=False)
        return
    limit = 2.0
    done_modes = set()
    try:
        import re as _re
        limit = int(_re.search(r"c_socket_timeout_msecs : N := (\d+)", open(os.path.join(vlib.COQ, "gen", "GenStop.v")).read()).group(1)) / 1000.0
    except Exception:
        pass
    slow = 0.9 * limit
    for mode, attempt in [("stopcmd", a) for a in range(3)] + [("signals", a) for a in range(3)]:
        if mode in done_modes:
            continue
        d = rig.Daemon(ctx, exe, tag="stop", nthreads=2)
        if not d.start():
            ctx.violation("munged does not start (stop phase)", {"obligation": "start"}, found_input=False)
            return
        payload = os.urandom(1000000)
        body = rig.enc_req_body(cipher=0, mac=5, zip_=0, data=payload)
        raw = rig.hdr(rig.T_ENC_REQ, 0, len(body)) + body
        s = socket.socket(socket.AF_UNIX, socket.SOCK_STREAM)
        s.setsockopt(socket.SOL_SOCKET, socket.SO_RCVBUF, 4096)     # little kernel buffering: the daemon is busy until we have read
        s.connect(d.sock)
        t0 = time.time()
        s.sendall(raw[:4096])                       # accepted and being received when the stop arrives
        time.sleep(0.05)
        # reap the daemon as soon as it exits (a zombie still answers kill(pid, 0), which `munged --stop` polls)
        reaper = threading.Thread(target=d.p.wait, daemon=True)
        reaper.start()
        if mode == "stopcmd":
            stop = subprocess.Popen([exe, "--stop", "-S", d.sock], stdout=subprocess.PIPE, stderr=subprocess.STDOUT, text=True)
        else:
            # the stop request repeated while the drain is in progress (an impatient init system, Ctrl-C twice): SIGTERM, then
            # SIGTERM and SIGINT again: each only asks for what is already under way
            import signal as _sg
            stop = subprocess.Popen(["true"], stdout=subprocess.PIPE, stderr=subprocess.STDOUT, text=True)

            def _again(p=d.p):
                for k, sg in enumerate((_sg.SIGTERM, _sg.SIGTERM, _sg.SIGINT, _sg.SIGTERM)):
                    try:
                        p.send_signal(sg)
                    except Exception:
                        return
                    time.sleep(0.25)
            threading.Thread(target=_again, daemon=True).start()
        t_stop = time.time()
        time.sleep(max(0.0, slow - (time.time() - t0)))
        try:
            s.sendall(raw[4096:])
        except OSError:
            pass                                     # the daemon is gone: the evaluation below sees its exit status
        t_sent = time.time()
        got = b""
        want_len = None
        s.settimeout(limit * 3)
        t_first = None
        try:
            # read the reply slowly: spread over `slow` seconds from its first byte
            while True:
                c = s.recv(16384)
                if not c:
                    break
                if t_first is None:
                    t_first = time.time()
                got += c
                if want_len is None and len(got) >= 11:
                    want_len = 11 + struct.unpack(">I", got[7:11])[0]
                if want_len is not None and len(got) >= want_len:
                    break
                if want_len:
                    due = t_first + slow * min(1.0, len(got) / float(want_len))
                    time.sleep(max(0.0, due - time.time()))
        except (socket.timeout, OSError):
            pass
        t_done = time.time()
        s.close()
        try:
            out, _ = stop.communicate(timeout=30)
        except subprocess.TimeoutExpired:
            stop.kill()
            out = "munged --stop did not return"
        reaper.join(30)
        rc = d.p.returncode
        d.stop()
        complete = want_len is not None and len(got) >= want_len
        send_time = t_sent - t0
        read_time = (t_done - t_first) if t_first else 0.0
        within = send_time < 0.97 * limit and read_time < 0.97 * limit
        ctx.count(("stop-slow-request", attempt))
        ctx.cov.setdefault("input_distribution", {})["stop-slow-request"] = attempt + 1
        ctx.log("stop phase: request delivered in %.2f s, reply read in %.2f s (%s of %s bytes), daemon exit %s, stop says %r"
                % (send_time, read_time, len(got), want_len, rc, (out or "").strip()[:80]))
        if complete and rc == 0:
            done_modes.add(mode)
            continue
        if mode == "signals" and within and not complete and rc is not None and rc != 0:
            ctx.violation("a stop request repeated during the graceful drain (SIGTERM, SIGTERM, SIGINT, 0.25 s apart) ended munged (exit status %s) "
                          "while a request accepted before the stop was still being served inside the daemon's own I/O limits (request "
                          "delivered in %.2f s, reply being read for %.2f s, limit %.1f s each): the client received %d of %s reply bytes"
                          % (rc, send_time, read_time, limit, len(got), want_len),
                          {"scenario": "1 MB encode request sent over %.2f s; SIGTERM x2, SIGINT, SIGTERM from 0.05 s after its first bytes; reply "
                                       "read over %.2f s" % (slow, slow), "daemon_exit": rc})
            done_modes.add(mode)
            continue
        if rc == -9 and within and not complete:
            ctx.violation("`munged --stop` killed the daemon (SIGKILL, %.1f s after the stop was issued) while a request accepted before the stop "
                          "was still being served inside the daemon's own I/O limits (request delivered in %.2f s, reply being read for %.2f s, "
                          "limit %.1f s each): the client received %d of %s reply bytes"
                          % (t_done - t_stop, send_time, read_time, limit, len(got), want_len),
                          {"scenario": "700 KiB encode request sent over %.2f s, `munged --stop` 0.15 s after its first bytes, reply read over %.2f s"
                                       % (slow, slow), "stop_output": (out or "")[-300:], "daemon_exit": rc})
            done_modes.add(mode)
            continue
        # the client overran a limit itself (or the daemon dropped it for another reason): inconclusive, try again
    for mode in ("stopcmd", "signals"):
        if mode not in done_modes:
            ctx.notes.append("stop phase (%s) inconclusive in 3 attempts (client could not keep inside the I/O limits on this machine)" % mode)


FINDING_KEY_STOPKILL = "F-C12-stop-kill: munged --stop escalates to SIGKILL after MUNGE_SIGNAL_WAIT_MSECS although the drain of accepted requests may legitimately take longer"


def long_drain_stop(ctx):
    """Known finding (thorough tier): the drain after a stop takes as long as the accepted requests ahead need (each may hold a
    worker for the I/O limit), which is unbounded in the queue length, while `munged --stop` waits a fixed 5 s before SIGKILL.
    One worker thread, three idle connections ahead of a valid request, then `munged --stop`."""
    import rig, socket, subprocess, threading
    exe, err = rig.build_daemon(ctx, name="munged-stop2", san=None)
    if exe is None:
        return
    d = rig.Daemon(ctx, exe, tag="stopq", nthreads=1)
    if not d.start():
        return
    idle = []
    for _ in range(3):
        s = socket.socket(socket.AF_UNIX, socket.SOCK_STREAM); s.connect(d.sock); idle.append(s)
    time.sleep(0.2)
    body = rig.enc_req_body(data=b"accepted before the stop")
    q = socket.socket(socket.AF_UNIX, socket.SOCK_STREAM); q.connect(d.sock)
    q.sendall(rig.hdr(rig.T_ENC_REQ, 0, len(body)) + body)
    time.sleep(0.2)
    reaper = threading.Thread(target=d.p.wait, daemon=True); reaper.start()
    stop = subprocess.Popen([exe, "--stop", "-S", d.sock], stdout=subprocess.PIPE, stderr=subprocess.STDOUT, text=True)
    q.settimeout(15)
    try:
        rep = q.recv(65536)
    except OSError:
        rep = b""
    try:
        stop.communicate(timeout=30)
    except subprocess.TimeoutExpired:
        stop.kill()
    reaper.join(30)
    rc = d.p.returncode
    for s in idle + [q]:
        s.close()
    d.stop()
    ctx.count(("stop-long-drain",))
    if rc == -9 and len(rep) < 11:
        ctx.violation("`munged --stop` killed the daemon (SIGKILL) while it was draining: a request accepted before the stop, queued behind "
                      "three idle connections on a one-thread daemon (each holds the worker for the 2 s I/O limit), got no reply",
                      {"finding_key": FINDING_KEY_STOPKILL, "daemon_exit": rc})


def long_drain_sigterm(ctx):
    """A graceful stop drains the queue however long that takes: one worker thread, three idle connections ahead of a valid
    request (each holds the worker for the 2 s I/O limit, so the drain lasts ~6 s), then SIGTERM - not `munged --stop`, whose
    fixed 5 s wait is the separate known finding.  The accepted request must still be answered (round 8: a work_fini that
    gives up after 3 s and cancels the workers)."""
    import rig, signal, socket, threading
    exe, err = rig.build_daemon(ctx, name="munged-stop3", san=None)
    if exe is None:
        return
    d = rig.Daemon(ctx, exe, tag="stopterm", nthreads=1)
    if not d.start():
        return
    idle = []
    for _ in range(3):
        s = socket.socket(socket.AF_UNIX, socket.SOCK_STREAM); s.connect(d.sock); idle.append(s)
    time.sleep(0.2)
    body = rig.enc_req_body(data=b"accepted before the stop")
    q = socket.socket(socket.AF_UNIX, socket.SOCK_STREAM); q.connect(d.sock)
    q.sendall(rig.hdr(rig.T_ENC_REQ, 0, len(body)) + body)
    time.sleep(0.3)
    t0 = time.time()
    for _ in range(3):                      # repeated: a single signal can fall into the known accept() window
        try:
            os.kill(d.p.pid, signal.SIGTERM)
        except OSError:
            break
        time.sleep(0.05)
    q.settimeout(20)
    rep = b""
    try:
        rep = q.recv(65536)
    except OSError:
        pass
    waited = time.time() - t0
    try:
        d.p.wait(20)
    except Exception:
        pass
    rc = d.p.returncode
    for s in idle + [q]:
        s.close()
    log = d.log_text()[-600:] if hasattr(d, "log_text") else ""
    d.stop()
    ctx.count(("stop-long-drain-sigterm",))
    ctx.cov["long_drain_sigterm"] = {"reply_bytes": len(rep), "waited_s": round(waited, 1), "daemon_exit": rc}
    if len(rep) < 11:
        ctx.violation("a request accepted before SIGTERM, queued behind three idle connections on a one-thread daemon (each holds the "
                      "worker for the 2 s I/O limit, so the drain takes ~6 s), got no reply: %d bytes after %.1f s, daemon exit %s; the "
                      "stop did not drain the queue" % (len(rep), waited, rc),
                      {"scenario": "long-drain-sigterm", "daemon_exit": rc, "reply_bytes": len(rep), "log_tail": log})


def rude_phase(ctx):
    """'each such client receives its full reply' for every interleaving of acceptor and workers: with clients around that break
    their own connections (the daemon's send fails and the connection is torn down while the acceptor hands out descriptors)"""
    import rig, conc
    for san in ("thread", "address"):
        exe, err = rig.build_daemon(ctx, name="munged-rude-" + san, san=san)
        if exe is None:
            continue
        pp, rep, n = conc.rude_polite_phase(ctx, exe, seconds=10.0 if ctx.thorough else 3.0)
        ctx.cov.setdefault("input_distribution", {})["rude-polite-" + san] = n
        ctx.count(("rude-polite", san, n))
        ctx.log("rude/polite (%s): %d transactions, %d problems" % (san, n, len(pp)))
        for pb in pp[:1]:
            ctx.violation(pb["why"] + " while other clients hung up before their replies", pb)
        if rep.strip() and ("data race" in rep or "ERROR" in rep):
            import re
            loc = re.findall(r"#\d+ (\w+) (/[^\s:]+/src/[^\s:]+):(\d+)", rep)[:4]
            ctx.violation("%s reported by -fsanitize=%s while clients hang up before their replies: %s"
                          % ("data race" if "data race" in rep else "sanitizer error", san, loc), {"report": rep[:4000]})
        if pp:
            break


def crowded_stop_phase(ctx):
    """a stop signal while the listen queue is never empty and the daemon is short of descriptors (the acceptor alternates between
    accept(), EMFILE and the wait for its backlog): the stop is seen all the same and the daemon exits after the requests it
    had accepted"""
    import rig, socket as _s, subprocess, signal as _sg
    exe, err = rig.build_daemon(ctx, name="munged-crowd", san=None)
    if exe is None:
        return
    d = rig.Daemon(ctx, exe, tag="c12crowd", nthreads=2)
    if not d.start():
        ctx.violation("munged does not start (crowded stop)", {"obligation": "start"}, found_input=False)
        return
    idle = []
    try:
        subprocess.run(["prlimit", "--pid", str(d.p.pid), "--nofile=10:10"], capture_output=True)
        for i in range(40):                         # clients that connect and send nothing: more than the daemon has descriptors
            try:
                k = _s.socket(_s.AF_UNIX, _s.SOCK_STREAM)
                k.settimeout(1)
                k.connect(d.sock)
                idle.append(k)
            except OSError:
                break
        time.sleep(0.5)
        t0 = time.time()
        gone = None
        while time.time() - t0 < 30:
            d.p.send_signal(_sg.SIGTERM)            # repeated: one lost between the flag test and accept() is finding F-C12-accept
            try:
                d.p.wait(timeout=1.0)
                gone = time.time() - t0
                break
            except subprocess.TimeoutExpired:
                pass
        ctx.count(("crowded-stop", len(idle)))
        ctx.cov.setdefault("input_distribution", {})["crowded-stop"] = len(idle)
        if gone is None:
            ctx.violation("munged with 10 descriptors and %d clients that connected and sent nothing does not stop: still running 30 s after the "
                          "first of 30 SIGTERMs (the idle clients' requests time out after a few seconds each; the stop request is never seen "
                          "while the listen queue is not empty)" % len(idle), {"idle_connections": len(idle), "nofile": 10, "signals": 30})
    finally:
        for k in idle:
            k.close()
        d.stop(timeout=10)


def run(ctx):
    _run_own(ctx)
    if not ctx.replay:
        crowded_stop_phase(ctx)
    if not ctx.replay:
        stop_phase(ctx)
        rude_phase(ctx)
        long_drain_sigterm(ctx)
        if ctx.thorough:
            long_drain_stop(ctx)


def _run_own(ctx):
    ctx.level = "proof"
    proved = vlib.prove(ctx, ["Properties_C12.v", "Properties_C12_job.v", "Properties_C12_stop.v"], facts=["work", "job", "stop"])
    ctx.log("proofs:", "ok" if proved else "BROKEN: " + getattr(ctx, "broken_obligation", "?"))
    replay = json.load(open(ctx.replay)) if ctx.replay else None
    # ---- the acceptor (job.c): its own harness, model and clauses; independent of the work-crew part below ----
    job_found = False
    if not (replay and ("case_line" in replay or replay.get("finding_key"))):
        job_found = c12_job.run(ctx, proved, replay if replay and "job_script" in replay else None)
        if replay and "job_script" in replay:
            return
    tabs = read_tables()
    ctx.cov["code_guards"] = {k: guard_text(v) for k, v in tabs.items()}
    ctx.cov["rule"] = ("acceptor: Properties_C12_job.v over JobModel with job_accept translated from job.c's text (GenJob.v); "
                       "scripts of answers and signal deliveries (aligned with the unchanged call sequence: signals at every "
                       "call of an iteration, every shortage errno inside/outside the rate limiter's window, every failing step "
                       "of the hand-off, stop before/inside the loop, SIGHUP inside its own service; plus unaligned random ones) "
                       "through /repo's job.c under ASan and through the extracted interpreter; call logs equal; clauses "
                       "evaluated on job.c's log by the check's monitors and by the extracted Coq monitors.  Work crew: "
                       "proof: Properties_C12.v over WorkModel, wait-loop guards probed from work.c (GenWork.v); "
                       "correspondence: generated programs (n in 1..8, bursts, slow/fast jobs, work_wait / work_fini at "
                       "random points, jitter in wrapped pthread calls and in the job) through /repo's work.c under "
                       "ASan; observables = per-item run count, unfinished items at each work_wait return, at the first "
                       "pthread_cancel and at work_fini return; the event log of work.c's critical sections must be a "
                       "run of the extracted LTS instantiated with the probed guards, with equal final state; the two "
                       "refutation witnesses are replayed deterministically; non-trivial = distinct program text")
    src = [os.path.join(vlib.HARNESS, "work_harness.c"), os.path.join(vlib.REPO, "src/munged/work.c")] + \
          [os.path.join(vlib.REPO, "src/libcommon", f) for f in ("log.c", "daemonpipe.c", "str.c", "fd.c")]
    wrapflags = ["-Wl,--wrap=" + w for w in WRAPS]
    # asan-stack=0: pthread_cancel unwinds through instrumented frames without unpoisoning their red zones, which makes
    # ASan's own thread teardown trip over stale stack poison (false positive); heap checking is what matters here
    exe, err = vlib.cc(ctx, "workh", src, extra=wrapflags + ["--param", "asan-stack=0"], libs=["-lpthread"])
    if exe is None:
        ctx.violation("work harness does not build against /repo: " + err[-500:],
                      {"obligation": "correspondence C12 (build)", "stderr": err}, found_input=False)
        return
    oracle = vlib.build_oracle(ctx, "work")

    if replay and replay.get("finding_key") == FINDING_KEY_ACCEPT:
        accept_window(ctx)
        return
    if replay and "case_line" in replay:
        progs = [replay["case_line"]] * int(replay.get("repeat", 1))
        witnesses = []
    else:
        progs = gen_programs(ctx)
        witnesses = [("wait-busy", W1, 1), ("idle-enqueue-fini", W2, 25)]

    failures = []      # (program, result line, why)
    corr = []          # (program, what)
    # ---- deterministic witness replays (the two _refuted schedules of Properties_C12.v) ----
    for name, prog, rep in witnesses:
        outs, _ = run_harness(ctx, exe, [prog] * rep, hang_secs=6, max_hangs=1)
        bad = None
        for o in outs:
            ctx.count(("witness", name, o))
            why = property_holds(prog, parse_result(o))
            if why:
                bad = (prog, o, why); break
        ctx.cov.setdefault("witness_replays", {})[name] = "VIOLATED: " + bad[2] if bad else "holds (%d runs)" % len(outs)
        ctx.log("witness %s: %s" % (name, ctx.cov["witness_replays"][name]))
        if bad:
            failures.append(bad + ({"witness": name, "repeat": rep,
                                    "model_trace": "trace_wait_busy ++ [LWaitEnter]" if name == "wait-busy" else "trace_lost"},))
    # ---- generated programs ----
    t0 = time.time()
    outs, stderr = run_harness(ctx, exe, progs)
    ctx.log("implementation ran %d programs in %.1fs" % (len(progs), time.time() - t0))
    dist = {"n": {}, "ops": {}}
    lines_for_oracle = []
    idx_for_oracle = []
    nev = 0
    for i, prog in enumerate(progs):
        o = outs[i] if i < len(outs) else "R crash=1"
        res = parse_result(o)
        ctx.count(prog)
        f = prog.split()
        dist["n"][f[1]] = dist["n"].get(f[1], 0) + 1
        for op in f[4:]:
            dist["ops"][op[0]] = dist["ops"].get(op[0], 0) + 1
        if res is not None and res.get("notrun"):
            continue
        if res is not None and res.get("crash"):
            failures.append((prog, o, "work.c crashes or aborts under ASan/UBSan: " + stderr[:1500], {}))
            continue
        try:
            why = property_holds(prog, res)
        except (ValueError, KeyError, IndexError) as ex:
            corr.append((prog, "harness answer cannot be parsed (%r)" % ex, o)); continue
        if not why and res and "trace" in res and res.get("hang") != "1":
            try:
                why = lost_wakeup(int(f[1]), res["trace"])
            except (ValueError, KeyError, IndexError):
                why = None
        if why:
            failures.append((prog, o, why, {}))
        if res and "trace" in res and res.get("hang") != "1":
            n = int(f[1])
            try:
                toks, info = to_tokens(n, res["trace"])
            except (ValueError, KeyError, IndexError) as ex:
                corr.append((prog, "event log cannot be parsed (%r)" % ex, o)); continue
            nev += len(toks)
            ctx.cov["spurious_wakeups_seen"] = ctx.cov.get("spurious_wakeups_seen", 0) + info["spurious"] + info["acc_spurious"]
            lines_for_oracle.append("T code %d %s" % (n, " ".join(toks)))
            idx_for_oracle.append(i)
    for p in progs[:3] + progs[40:43]:
        ctx.sample(p)
    ctx.cov["input_distribution"] = dist
    # ---- the event logs as runs of the extracted LTS ----
    if oracle and lines_for_oracle:
        rc2, mod, err2 = vlib.run_lines([oracle], lines_for_oracle, timeout=1500, env={"OCAMLRUNPARAM": "l=8G"})
        if rc2 != 0 or len(mod) != len(lines_for_oracle):
            ctx.violation("oracle failed to run: rc=%d %s" % (rc2, err2[-300:]), {"obligation": "oracle run"}, found_input=False)
            return
        nok = 0
        for i, m in zip(idx_for_oracle, mod):
            res = parse_result(outs[i])
            if not m.startswith("T ok"):
                corr.append((progs[i], "event log of work.c is not a run of the LTS: " + m, outs[i]))
                continue
            fm = dict(t.split("=") for t in m.split()[2:])
            proc = [] if res["proc"] == "-" else [int(x) for x in res["proc"].split(".")]
            done_impl = sorted(j for j, c in enumerate(proc) if c >= 1)
            left_impl = [j for j, c in enumerate(proc) if c == 0]
            done_mod = sorted(int(x) for x in fm["done"].split(".")) if fm["done"] != "-" else []
            left_mod = [int(x) for x in fm["queue"].split(".")] if fm["queue"] != "-" else []
            if done_impl != done_mod or left_impl != left_mod or fm["acc"] != "8" or fm["inprog"] != "-":
                corr.append((progs[i], "final state differs: model %s / implementation done=%s left=%s" % (m, done_impl, left_impl), outs[i]))
            else:
                nok += 1
        extraction_crosscheck(ctx, lines_for_oracle, mod, proved)
        ctx.cov["traces_validated_against_impl"] = nok
        ctx.cov["trace_events_checked"] = nev
        ctx.log("LTS accepted %d/%d event logs (%d labels)" % (nok, len(lines_for_oracle), nev))
    elif not oracle:
        corr.append(("-", "extracted oracle does not build", ""))

    if ctx.thorough and not (replay and "case_line" in replay):
        tsan_pass(ctx, src, wrapflags, progs[:400], failures)
        accept_window(ctx)

    # ---- verdict ----
    code_ok = (tabs["wait"] == TAB_OR and tabs["fini"] == TAB_OR)
    if failures:
        # one violation per kind of failure (e.g. work_wait returning early / work_fini losing an item)
        seen = {}
        for fl in failures:
            kind = " ".join(fl[2].split()[:3])
            seen.setdefault(kind, []).append(fl)
        for kind, fls in list(seen.items())[:3]:
            prog, o, why, extra = fls[0]
            rep = dict(extra)
            rep.update({"case_line": prog, "impl_output": o[:3000], "why": why, "n_failing": len(fls),
                        "more": [(p, w) for p, _, w, _ in fls[1:6]],
                        "code_guards": ctx.cov["code_guards"],
                        "model_says": "C12_code_verdict: verified instance" if code_ok else
                                      "C12_code_verdict: refuted (wait_bad / fini_bad witness exists for the probed guards)"})
            rep.setdefault("repeat", 1)
            ctx.violation("%s: program `%s` (%d failing programs of this kind; wait-loop guards of work.c: work_wait `%s`, "
                          "work_fini `%s`)" % (why, prog, len(fls), ctx.cov["code_guards"]["wait"], ctx.cov["code_guards"]["fini"]), rep)
    elif not code_ok:
        ctx.violation("the wait-loop guards probed from work.c (%s / %s) are not the verified ones and Coq proves a violating "
                      "schedule for them (C12_code_verdict), but no generated program showed the violation"
                      % (ctx.cov["code_guards"]["wait"], ctx.cov["code_guards"]["fini"]),
                      {"obligation": "C12_code_verdict (refuted branch)", "code_guards": ctx.cov["code_guards"]},
                      found_input=False)
    elif corr:
        prog, what, o = corr[0]
        ctx.violation("model and implementation disagree on %d programs (first: `%s`: %s) but the property evaluated "
                      "directly on the implementation holds on all %d programs" % (len(corr), prog, what[:400], len(progs)),
                      {"obligation": "correspondence WorkModel ~ work.c (event log)", "case_line": prog, "what": what,
                       "impl_output": o[:3000]}, found_input=False)
    elif not proved and not job_found:
        md = getattr(ctx, "job_model_diff", None)
        ctx.violation("proof obligation no longer checks: %s%s" % (getattr(ctx, "broken_obligation", "?"),
                      (" (job_accept as translated from job.c is not the program the theorems are proved for: on script `%s` it "
                       "does %s where the verified program does %s; the clauses hold on job.c's call log for all scripts tried)"
                       % (md["script"], md["translated_source"][:400], md["verified_program"][:400])) if md else ""),
                      {"obligation": getattr(ctx, "broken_obligation", "?"), "log": ctx.proof_log[-3000:], "job_model_diff": md},
                      found_input=False)


# --------------------------------------------------------------------------- thorough extras
def tsan_pass(ctx, src, wrapflags, progs, failures):
    """Same programs under ThreadSanitizer (data races on n_working / the queue)."""
    exe = os.path.join(ctx.tmp, "workh_tsan")
    cmd = ["gcc", "-w", "-g", "-O1", "-fsanitize=thread"] + vlib.DEFS + vlib.INCS + ["-o", exe] + src + wrapflags + ["-lpthread"]
    rc, out, err = vlib.sh(cmd, timeout=300)
    if rc != 0:
        ctx.notes.append("TSan build not available: " + err[-300:]); return
    env = {"TSAN_OPTIONS": "exitcode=0:halt_on_error=0"}
    outs, stderr = run_harness(ctx, exe, progs, env_extra=env)
    nrace = stderr.count("WARNING: ThreadSanitizer: data race")
    ctx.cov["tsan"] = {"programs": len(progs), "data_race_reports": nrace}
    ctx.log("TSan: %d programs, %d data-race reports" % (len(progs), nrace))
    if nrace:
        m = re.search(r"WARNING: ThreadSanitizer: data race.*?(?=\n=+\n|\Z)", stderr, re.S)
        if "src/munged/work.c" in stderr:
            failures.append((progs[0], "", "ThreadSanitizer reports a data race in work.c: " + (m.group(0)[:1200] if m else ""), {}))


def accept_window(ctx):
    """Finding F-C12-accept on the real daemon: SIGTERM delivered between the loop test and accept()."""
    if not (shutil_which("gdb")):
        ctx.notes.append("F-C12-accept: gdb not available, not replayed"); return
    d = os.path.join(ctx.tmp, "daemon"); os.makedirs(d, exist_ok=True)
    os.chmod(ctx.tmp, 0o755); os.chmod(d, 0o755)       # munged insists on a world-searchable socket directory
    R = vlib.REPO
    srcs = []
    am = open(os.path.join(R, "src/munged/Makefile.am")).read()
    m = re.search(r"munged_SOURCES\s*=(.*?)\n\s*\n", am, re.S)
    names = re.findall(r"[\w./$()-]+\.c", m.group(1)) if m else []
    for nme in names:
        nme = nme.replace("$(top_srcdir)", R)
        p = nme if os.path.isabs(nme) else os.path.join(R, "src/munged", nme)
        if os.path.exists(p):
            srcs.append(p)
    srcs += [os.path.join(R, "src/libcommon", f) for f in ("daemonpipe.c", "fd.c", "license.c", "log.c", "m_msg.c", "str.c", "version.c")]
    srcs += [os.path.join(R, "src/libmissing", f) for f in ("strlcpy.c", "strlcat.c")]
    srcs += [os.path.join(R, "src/libmunge", f) for f in ("strerror.c", "enum.c")]
    srcs = [s for i, s in enumerate(srcs) if os.path.exists(s) and s not in srcs[:i]]
    exe = os.path.join(d, "munged")
    cmd = ["gcc", "-w", "-g", "-O0"] + vlib.DEFS + vlib.INCS + ["-o", exe] + srcs + ["-lpthread", "-lbz2", "-lrt", "-lz", "-lcrypto"]
    rc, out, err = vlib.sh(cmd, timeout=300)
    if rc != 0:
        ctx.notes.append("F-C12-accept: daemon build failed: " + err[-400:]); return
    key = os.path.join(d, "key"); open(key, "wb").write(os.urandom(32)); os.chmod(key, 0o600)
    args = ["-F", "-S", os.path.join(d, "sock"), "--key-file=" + key, "--pid-file=" + os.path.join(d, "pid"),
            "--seed-file=" + os.path.join(d, "seed"), "--group-update-time=-1", "--log-file=" + os.path.join(d, "log")]
    gdbcmds = os.path.join(d, "cmds.gdb")
    open(gdbcmds, "w").write("""set pagination off
set confirm off
handle SIGTERM nostop noprint pass
break accept
run
python
import threading, os, time, gdb
pid = gdb.selected_inferior().pid
if pid > 1:
    print("VERIF-AT-ACCEPT pid=%d" % pid)
    os.kill(pid, 15)
    def later():
        time.sleep(6)
        try: os.kill(pid, 9)
        except Exception: pass
    threading.Thread(target=later, daemon=True).start()
else:
    print("VERIF-NOT-RUNNING")
end
delete
continue
""")
    t0 = time.time()
    try:    # own session: nothing the gdb script does can signal the check's process group
        pr = subprocess.run(["gdb", "-q", "-batch", "-x", gdbcmds, "--args", exe] + args, capture_output=True, text=True,
                            timeout=60, start_new_session=True, stdin=subprocess.DEVNULL)
        out, err = pr.stdout, pr.stderr
    except subprocess.TimeoutExpired:
        ctx.notes.append("F-C12-accept: gdb timed out, not replayed"); return
    waited = time.time() - t0
    log = open(os.path.join(d, "log")).read() if os.path.exists(os.path.join(d, "log")) else ""
    exited = "Exiting on signal" in (log + out + err) or "exited normally" in out
    if "VERIF-AT-ACCEPT" not in out:
        ctx.notes.append("F-C12-accept: the daemon did not reach accept() under gdb, not replayed: " + (out + err)[-300:]); return
    # control: the same signal while the daemon is blocked inside accept() stops it at once
    for f in ("log", "sock", "pid", "sock.lock"):
        try: os.unlink(os.path.join(d, f))
        except OSError: pass
    ctl = subprocess.Popen([exe] + args, stdout=subprocess.DEVNULL, stderr=subprocess.DEVNULL, start_new_session=True)
    t1 = time.time()
    while not os.path.exists(os.path.join(d, "sock")) and time.time() - t1 < 5:
        time.sleep(0.05)
    time.sleep(0.3)
    ctl.terminate()
    try:
        ctl.wait(timeout=5); control_ok = True
    except subprocess.TimeoutExpired:
        ctl.kill(); ctl.wait(); control_ok = False
    ctx.cov["accept_window"] = {"exited_on_signal": exited, "seconds": round(waited, 1), "control_exits_at_once": control_ok}
    ctx.log("F-C12-accept replay: daemon %s (control: SIGTERM while blocked in accept %s)"
            % ("exited on the signal" if exited else "ignored SIGTERM until killed after 6 s",
               "stops it at once" if control_ok else "DID NOT stop it"))
    if not exited:
        ctx.violation("SIGTERM delivered between the `while (!got_terminate)` test and accept() is not acted on: the idle "
                      "daemon kept running until killed (C12_sigterm_window_refuted; no deadlock-free stop)",
                      {"finding_key": FINDING_KEY_ACCEPT, "gdb_script": open(gdbcmds).read(), "daemon_output": (log + out + err)[-1500:],
                       "model_trace": "[XTest; XSignal; XDeliver; XCall]"})


def shutil_which(x):
    import shutil
    return shutil.which(x)


MANIFEST["level"] = (MANIFEST["level"][0], MANIFEST["level"][1] + " The acceptor loop of job.c is a second model (JobModel, translated from the source text by tools/facts/job.py; Properties_C12_job.v: hand-off, backlog wait, stop, SIGHUP, progress, for every script of accept() results and signal deliveries), run against job.c itself with wrapped calls. Lost wake-ups are evaluated directly on work.c's event logs. `munged --stop`: Properties_C12_stop.v (the wait before SIGKILL exceeds two per-message I/O limits; constants regenerated from munge_defs.h) and a live slow-request scenario under `munged --stop`.", MANIFEST["level"][2])
