"""C14 — the client<->daemon message codec is lossless and never trusts a length."""
import json, os, re, struct
import vlib

MANIFEST = dict(
    level=("proof", "Coq theorems over an executable model of m_msg.c's three codecs (_msg_length/_msg_pack/"
           "_msg_unpack: one field list per message type and direction, C int conversions kept), m_msg_send, "
           "m_msg_recv and job.c's dispatch, with constants, member widths, sizeof(addr) and the *measured* bound on "
           "DEC_RSP addr_len regenerated from the source on every run: pack/unpack round trip for all six types and "
           "all in-range messages, computed length = bytes produced, every unpack of every type code 0..255 and every "
           "byte string ends in Ok or an error with all reads inside the buffer and all writes inside their "
           "destination iff every fixed-size destination is guarded (refuted for the unguarded addr copy, defect D2, "
           "witness addr_len=255), the three tables agree, receive/dispatch outcomes.  Tied to the code by running the "
           "extracted model and m_msg.c (public API over a socketpair, ASan+UBSan+LSan, malloc wrapped) on ~6k aimed cases "
           "per quick run (~90k thorough), comparing the result code and every struct member.", "7 C14"),
    note="Trusted: Coq kernel+vm_compute, gen_facts probe, extraction (ExtrOcamlBasic), harness/driver glue. The field "
         "lists are read from the source by hand and tied by differential testing, not verified against the C text. "
         "Time-outs and I/O errors of the socket are environment (a stream is the bytes that arrive before EOF). "
         "enc/dec_process_msg's reply contents are outside this model (C01/C09); the reply goes through the same send.",
    technique="Coq proof (generic interpreters + induction over field lists, computed table checks) + translator for "
              "constants and the measured guard + differential correspondence through the public API")

MAGIC, VERSION, HDR = 0x00606D4B, 4, 11
NUMS = ["type", "retry", "pkt_len", "cipher", "mac", "zip", "realm_len", "ttl", "addr_len", "time0", "time1",
        "client_uid", "client_gid", "cred_uid", "cred_gid", "auth_uid", "auth_gid", "data_len", "auth_s_len",
        "auth_c_len", "error_num", "error_len"]
BUFS = ["pkt", "realm", "addr", "data", "auth_s", "auth_c", "error"]
U8S = {"type", "retry", "cipher", "mac", "zip", "realm_len", "addr_len", "error_num", "error_len"}
ADDR_CAP = 4
MAXREQ = 1048576
BIGHEAP = 64 << 20

KNOWN_UB = re.compile(r"m_msg\.c:\d+:\d+: runtime error: signed integer overflow: 2147483647 \+ 1 cannot be represented in type 'int'")

# Appendix B of DESIGN.md, written out independently of the Coq tables
def u8(f): return ("u8", f)
def u32(f): return ("u32", f)
def var(f, lf, dest="heap"): return ("var", f, lf, dest)
FIELDS = {
    1: [u32("magic"), u8("version"), u8("type"), u8("retry"), u32("pkt_len")],
    2: [u8("cipher"), u8("mac"), u8("zip"), u8("realm_len"), var("realm", "realm_len"), u32("ttl"), u32("auth_uid"),
        u32("auth_gid"), u32("data_len"), var("data", "data_len")],
    3: [u8("error_num"), u8("error_len"), var("error", "error_len"), u32("data_len"), var("data", "data_len")],
    4: [u32("data_len"), var("data", "data_len")],
    5: [u8("error_num"), u8("error_len"), var("error", "error_len"), u8("cipher"), u8("mac"), u8("zip"),
        u8("realm_len"), var("realm", "realm_len"), u32("ttl"), u8("addr_len"), var("addr", "addr_len", "fixed"),
        u32("time0"), u32("time1"), u32("cred_uid"), u32("cred_gid"), u32("auth_uid"), u32("auth_gid"),
        u32("data_len"), var("data", "data_len")],
    6: [u32("auth_s_len"), var("auth_s", "auth_s_len"), u32("auth_c_len"), var("auth_c", "auth_c_len")],
}


def fresh():
    st = {n: 0 for n in NUMS}
    for b in BUFS:
        st[b] = None
    st["addr"] = bytes(4)
    return st


def state_tokens(st):
    nums = ",".join(str(st[n]) for n in NUMS)
    bufs = []
    for b in BUFS:
        v = st[b]
        bufs.append("-" if v is None else "x" + v.hex())
    return nums + " " + " ".join(bufs)


def ref_pack(code, st):
    """wire body of an in-range message, or None when the message cannot be sent"""
    out = bytearray()
    for f in FIELDS[code]:
        if f[0] == "u8":
            out.append(st[f[1]] if f[1] not in ("version",) else VERSION)
        elif f[0] == "u32":
            out += struct.pack(">I", st[f[1]])
        else:
            n = st[f[2]]
            if n >= 1 << 31:
                return None
            if n:
                src = st[f[1]]
                if src is None or len(src) < n or (f[3] == "fixed" and n > ADDR_CAP):
                    return "fault"
                out += src[:n]
    return bytes(out)


def ref_unpack(code, body, st0, limit):
    """the property's view of unpacking: (state, None) or (None, reason)"""
    fl = FIELDS.get(code)
    if fl is None:
        return None, "unknown type"
    st = dict(st0)
    p = 0
    hdr = {}
    for f in fl:
        if f[0] == "u8":
            if p + 1 > len(body):
                return None, "truncated"
            (hdr if f[1] in ("magic", "version") else st)[f[1]] = body[p]
            p += 1
        elif f[0] == "u32":
            if p + 4 > len(body):
                return None, "truncated"
            (hdr if f[1] in ("magic", "version") else st)[f[1]] = struct.unpack(">I", body[p:p + 4])[0]
            p += 4
        else:
            n = st[f[2]]
            if n >= 1 << 31:
                return None, "negative length"
            if f[3] == "fixed":
                if n > ADDR_CAP:
                    return None, "length exceeds the destination member"
                if p + n > len(body):
                    return None, "truncated"
                if n:
                    st[f[1]] = body[p:p + n] + st[f[1]][n:]
            else:
                if n and n + 1 > limit:
                    return None, "out of memory"
                if p + n > len(body):
                    return None, "truncated"
                if n:
                    st[f[1]] = body[p:p + n]
            p += n
    if code == 1 and (hdr["magic"] != MAGIC or hdr["version"] != VERSION):
        return None, "bad magic/version"
    return st, None


def carried(code):
    return set(f[1] for f in FIELDS.get(code, []))


def ref_recv(stream, exptype, maxlen, limit, st0):
    """(expected final state or None, expected rc set or None, members that may differ from st0 on failure)"""
    may = {"error_num", "error_len", "error"}
    if len(stream) < HDR:
        return None, None, may
    st, why = ref_unpack(1, stream[:HDR], st0, limit)
    may |= {"type", "retry", "pkt_len"}
    if st is None:
        return None, None, may
    ty, plen = st["type"], st["pkt_len"]
    if exptype != 0 and ty != exptype:
        return None, None, may
    if maxlen > 0 and plen > maxlen:
        return None, {3}, may
    if plen > limit:
        return None, {5}, may
    may |= {"pkt"}
    rest = stream[HDR:]
    if len(rest) < plen:
        return None, None, may
    if plen >= 1 << 31:
        return None, None, may
    may |= carried(ty)
    st2, why = ref_unpack(ty, rest[:plen], st, limit)
    if st2 is None:
        return None, None, may
    st2["pkt_len"] = 0
    st2["pkt"] = None
    return st2, {0}, may


def parse_state(tokens):
    nums = tokens[0].split(",")
    st = {}
    for n, v in zip(NUMS, nums):
        st[n] = v if v == "L" else int(v)
    for b, t in zip(BUFS, tokens[1:8]):
        st[b] = None if t == "-" else (t if t in ("*", "L") else bytes.fromhex(t[1:]))
    return st


# ---------------------------------------------------------------------------------------------------------
# case generation
# ---------------------------------------------------------------------------------------------------------
EDGE32 = [0, 1, 255, 256, 65535, (1 << 31) - 1, 1 << 31, (1 << 32) - 1]


def rnd_u32(rng):
    return rng.choice(EDGE32) if rng.random() < 0.3 else rng.getrandbits(32)


def rnd_bytes(rng, n):
    return bytes(rng.getrandbits(8) for _ in range(n)) if n < 4096 else rng.randbytes(n)


def rnd_msg(rng, code, big=False):
    st = fresh()
    for n in NUMS:
        st[n] = rng.getrandbits(8) if n in U8S else rnd_u32(rng)
    st["type"], st["pkt_len"] = 0, 0
    st["error_num"] = rng.choice([0, 0, st["error_num"]])     # success replies carry an error string too
    st["addr"] = rnd_bytes(rng, 4)
    for f in FIELDS[code]:
        if f[0] == "var":
            if f[3] == "fixed":
                n = rng.choice([0, 1, 2, 3, 4, 4, 4])
            elif f[2] in U8S:
                n = rng.choice([0, 1, 2, 17, 254, 255, rng.randrange(256)])
            else:
                n = rng.choice([0, 1, 3, 100, 4095, 4096, 4097, rng.randrange(70000)]) if big else \
                    rng.choice([0, 1, 2, 31, rng.randrange(300)])
            st[f[2]] = n
            if f[3] != "fixed":
                st[f[1]] = rnd_bytes(rng, n) if n else rng.choice([None, None, b""])
    return st


def sentinel(rng, zero_err=True):
    st = fresh()
    for n in NUMS:
        st[n] = rng.getrandbits(8) if n in U8S else rng.getrandbits(32)
    st["addr"] = rnd_bytes(rng, 4)
    st["error_num"] = 0
    st["pkt_len"] = 0
    return st


def header(ty, plen, retry=0, magic=MAGIC, version=VERSION):
    return struct.pack(">IBBBI", magic & 0xffffffff, version, ty, retry, plen & 0xffffffff)


def S(code, maxlen, limit, st):
    return "S %d %d %d %s" % (code, maxlen, limit, state_tokens(st))


def R(exptype, maxlen, limit, stream, st0):
    return "R %d %d %d %s %s" % (exptype, maxlen, limit, stream.hex() if stream else "-", state_tokens(st0))


def len_field_offsets(code, st):
    """(offset, width, exact value) of every length field in the packed body"""
    res, p = [], 0
    lens = set(f[2] for f in FIELDS[code] if f[0] == "var")
    for f in FIELDS[code]:
        if f[0] == "u8":
            if f[1] in lens:
                res.append((p, 1, st[f[1]]))
            p += 1
        elif f[0] == "u32":
            if f[1] in lens:
                res.append((p, 4, st[f[1]]))
            p += 4
        else:
            p += st[f[2]]
    return res


def gen_cases(ctx):
    rng = ctx.rng
    cases = []          # (kind, line)
    add = lambda k, l: cases.append((k, l))
    nmsg = 150 if ctx.thorough else 10
    z = fresh()
    # 0. the replay of defect D2 (DESIGN.md Appendix A) and its neighbours: DEC_RSP with addr_len beyond the member
    for k in (255, 5, 8, 9, 12, 13, 20, 104, 105, 128):
        for tail in (True, False):
            b = bytes(10) + bytes([k]) + b"A" * k + (bytes(28) if tail else b"")
            add("d2-replay", R(0, MAXREQ, BIGHEAP, header(5, len(b)) + b, z if k == 255 else sentinel(rng)))
    # 1. generated messages of every type: send, and receive of the reference encoding (round trip)
    for code in (2, 3, 4, 5, 6):
        for i in range(nmsg * 3):
            st = rnd_msg(rng, code, big=(i % 4 == 3))
            st["retry"] = rng.getrandbits(8)
            body = ref_pack(code, st)
            add("send", S(code, rng.choice([0, 0, MAXREQ, len(body), len(body) + 1]), BIGHEAP, st))
            if body:
                wire = header(code, len(body), st["retry"]) + body
                add("roundtrip", R(rng.choice([0, code]), rng.choice([0, MAXREQ, len(body)]), BIGHEAP, wire, sentinel(rng)))
                add("roundtrip", R(0, MAXREQ, BIGHEAP, wire, z))
                # maxlen and expected-type edges, trailing bytes, wrong expected type
                add("maxlen", R(0, max(len(body) - 1, 1), BIGHEAP, wire, sentinel(rng)))
                add("maxlen", S(code, max(len(body) - 1, 1), BIGHEAP, st))
                add("exptype", R(rng.choice([c for c in range(1, 8) if c != code]), 0, BIGHEAP, wire, sentinel(rng)))
                add("trailing", R(0, 0, BIGHEAP, wire + rnd_bytes(rng, rng.randrange(1, 9)), sentinel(rng)))
                # allocator refuses: pkt itself, or one of the variable fields
                for lim in sorted(set([len(body) - 1, len(body), max(st[f[2]] for f in FIELDS[code] if f[0] == "var"),
                                       max(st[f[2]] for f in FIELDS[code] if f[0] == "var") + 1])):
                    if lim >= 0:
                        add("nomem", R(0, 0, lim, wire, sentinel(rng)))
    # unsendable messages: negative lengths, wrapped sums, unknown type codes
    for code in (2, 3, 4, 5, 6):
        for v in ((1 << 31), (1 << 32) - 1, (1 << 31) + 5):
            st = rnd_msg(rng, code)
            lf = [f[2] for f in FIELDS[code] if f[0] == "var" and f[2] not in U8S]
            st[rng.choice(lf)] = v
            add("send-bad", S(code, 0, BIGHEAP, st))
    for code in [0, 1, 7, 8, 100, 255]:
        add("send-bad", S(code, 0, BIGHEAP, rnd_msg(rng, 4)))
    st = rnd_msg(rng, 6); st["auth_s_len"] = (1 << 32) - 4; st["auth_c_len"] = 0; st["auth_c"] = None
    add("send-bad", S(6, 0, BIGHEAP, st))          # sum wraps to a small positive int
    # 2. valid body truncated at each offset (header consistent with the truncated body, and header claiming all)
    for code in (2, 3, 4, 5, 6):
        for i in range(12 if ctx.thorough else 2):
            st = rnd_msg(rng, code)
            if i == 0:
                for f in FIELDS[code]:
                    if f[0] == "var" and f[3] == "fixed":
                        st[f[2]] = 4
            body = ref_pack(code, st)
            s0 = sentinel(rng)
            for k in range(len(body) + 1):
                add("truncate", R(0, MAXREQ, BIGHEAP, header(code, k) + body[:k], s0))
            for k in range(0, len(body), max(1, len(body) // 12)):
                add("short-stream", R(0, MAXREQ, BIGHEAP, header(code, len(body)) + body[:k], s0))
    # 3. each length field set to 0, 1, exact-1, exact+1, 255, 2^31-1, 2^31, 2^32-1
    for code in (2, 3, 4, 5, 6):
        for i in range(30 if ctx.thorough else 3):
            st = rnd_msg(rng, code)
            body = ref_pack(code, st)
            for (off, w, exact) in len_field_offsets(code, st):
                vals = [0, 1, exact - 1, exact + 1, 255] + ([(1 << 31) - 1, 1 << 31, (1 << 32) - 1, 65536] if w == 4 else
                                                              [2, 3, 4, 5, 6, 8, 12, 13, 16, 20, 40, 100, 104, 105, 128, 254])
                for v in vals:
                    if v < 0 or (w == 1 and v > 255):
                        continue
                    enc = bytes([v]) if w == 1 else struct.pack(">I", v)
                    for pad in (0, 300):
                        b2 = body[:off] + enc + body[off + w:] + rnd_bytes(rng, pad)
                        add("lenfield", R(0, MAXREQ, rng.choice([BIGHEAP, BIGHEAP, 1 << 12]), header(code, len(b2)) + b2, sentinel(rng)))
    # 4. every type code 0..255 x {random bytes of several lengths, a valid body of each real type}
    valid = {c: ref_pack(c, rnd_msg(rng, c)) for c in (2, 3, 4, 5, 6)}
    for code in list(range(256)) * (4 if ctx.thorough else 1):
        for n in (0, 1, 10, 11, 12, 40, rng.randrange(0, 400)):
            b = rnd_bytes(rng, n)
            add("anycode-random", R(0, MAXREQ, BIGHEAP, header(code, n) + b, sentinel(rng)))
        if code < 10 or ctx.thorough or rng.random() < 0.1:
            for c, b in valid.items():
                add("anycode-valid", R(0, MAXREQ, BIGHEAP, header(code, len(b)) + b, sentinel(rng)))
    # all-ones / all-zero / high-bit bodies for the real types
    for code in range(1, 7):
        for fill in (0x00, 0xff, 0x7f, 0x80, 0x01, 0x04, 0x05):
            for n in (4, 11, 64, 600):
                add("fill", R(0, MAXREQ, BIGHEAP, header(code, n) + bytes([fill]) * n, sentinel(rng)))
    # 5. headers: short, bad magic, bad version, pkt_len lies
    good = header(4, 9) + struct.pack(">I", 5) + b"hello"
    for k in range(0, HDR + 1):
        add("hdr-short", R(0, MAXREQ, BIGHEAP, good[:k], sentinel(rng)))
    for byte in range(5):                       # every single-bit defect of magic and version
        for bit in range(8):
            h = bytearray(good)
            h[byte] ^= 1 << bit
            add("hdr-bad", R(0, MAXREQ, BIGHEAP, bytes(h), sentinel(rng)))
    for ver in list(range(0, 10)) + [127, 128, 255]:
        add("hdr-bad", R(0, MAXREQ, BIGHEAP, header(4, 9, version=ver) + good[HDR:], sentinel(rng)))
    for mg in (0, 1, MAGIC - 1, MAGIC + 1, MAGIC << 8, 0xffffffff):
        add("hdr-bad", R(0, MAXREQ, BIGHEAP, header(4, 9, magic=mg) + good[HDR:], sentinel(rng)))
    for plen in (0, 8, 10, 1 << 20, (1 << 20) + 1, (1 << 31) - 1, 1 << 31, (1 << 32) - 1):
        for maxlen in (0, MAXREQ):
            add("hdr-pktlen", R(0, maxlen, BIGHEAP, header(4, plen) + struct.pack(">I", 5) + b"hello", sentinel(rng)))
    # 6. type code 1 as a body (nested header overwrites type / retry / pkt_len)
    for nested in list(range(0, 9)) + [255]:
        for plen in (0, 5, 1 << 31):
            for magic, ver in ((MAGIC, VERSION), (MAGIC + 1, VERSION), (MAGIC, VERSION + 1)):
                b = header(nested, plen, retry=rng.getrandbits(8), magic=magic, version=ver)
                add("nested-hdr", R(0, MAXREQ, BIGHEAP, header(1, len(b)) + b, sentinel(rng)))
    for k in range(0, HDR + 3):
        b = (header(2, 7) + b"xyz")[:k]
        add("nested-hdr", R(0, MAXREQ, BIGHEAP, header(1, len(b)) + b, z))
    # 7. the largest request the daemon accepts, one byte more, and the client side (maxlen = 0)
    big = MAXREQ - 4
    st = fresh(); st["data_len"] = big; st["data"] = rnd_bytes(rng, big)
    body = ref_pack(4, st)
    add("maxreq", S(4, MAXREQ, BIGHEAP, st))
    add("maxreq", R(0, MAXREQ, BIGHEAP, header(4, len(body)) + body, z))
    st2 = dict(st); st2["data_len"] = big + 1; st2["data"] = st["data"] + b"!"
    body2 = ref_pack(4, st2)
    add("maxreq", S(4, MAXREQ, BIGHEAP, st2))
    add("maxreq", R(0, MAXREQ, BIGHEAP, header(4, len(body2)) + body2, z))
    add("maxreq", R(4, 0, BIGHEAP, header(4, len(body2)) + body2, z))
    # 8. purely random streams
    for i in range(30000 if ctx.thorough else 300):
        n = rng.choice([0, 3, 11, 12, 20, 60, rng.randrange(0, 700)])
        b = bytearray(rnd_bytes(rng, n))
        if n >= HDR and rng.random() < 0.8:
            b[0:6] = header(rng.randrange(0, 8), 0)[0:6]
            if rng.random() < 0.7:
                b[7:11] = struct.pack(">I", n - HDR)
        add("random-stream", R(rng.choice([0, 0, 3, 5]), rng.choice([0, MAXREQ]), BIGHEAP, bytes(b), sentinel(rng)))
    return cases


# ---------------------------------------------------------------------------------------------------------
# the property evaluated on the implementation's answer
# ---------------------------------------------------------------------------------------------------------
def parse_case(line):
    f = line.split(" ")
    if f[0] == "S":
        return dict(op="S", code=int(f[1]), maxlen=int(f[2]), limit=int(f[3]), st=parse_state(f[4:12]))
    stream = b"" if f[4] == "-" else bytes.fromhex(f[4])
    return dict(op="R", exptype=int(f[1]), maxlen=int(f[2]), limit=int(f[3]), stream=stream, st=parse_state(f[5:13]))


def property_holds(line, out):
    """None when the property holds on this answer of the implementation, else a reason (independent of the Coq model)."""
    c = parse_case(line)
    f = out.split(" ")
    if not f or f[0] != c["op"]:
        return "malformed harness answer %r" % out[:80]
    if c["op"] == "S":
        rc = int(f[1])
        code, st = c["code"], c["st"]
        if code == 1:
            return None                     # m_msg_send asserts type != HDR; no claim (the model is still compared)
        if code not in (2, 3, 4, 5, 6):
            return None if rc != 0 else "a message of an unknown type was sent"
        body = ref_pack(code, st)
        if body == "fault":
            return None
        n = sum(1 if x[0] == "u8" else 4 if x[0] == "u32" else st[x[2]] for x in FIELDS[code])
        sendable = body is not None and 0 < n < (1 << 31) and n <= c["limit"]
        if not sendable:
            # a sum that wraps to a small positive int is caught by the packer's bounds
            return None if rc != 0 else "an unsendable message (negative or overflowing length) was sent"
        if c["maxlen"] > 0 and n > c["maxlen"]:
            return None if rc == 3 else "message above maxlen: expected EMUNGE_BAD_LENGTH, got rc=%d" % rc
        if rc != 0:
            return "a well-formed message could not be sent (rc=%d): computed length and packed bytes disagree" % rc
        wire = bytes.fromhex(f[2]) if f[2] != "-" else b""
        want = header(code, len(body), st["retry"]) + body
        if len(wire) != HDR + n:
            return "bytes produced (%d) differ from the computed length (%d)" % (len(wire) - HDR, n)
        if wire != want:
            return "wire bytes differ from the documented field order/encoding"
        return None
    # receive
    if f[1] == "F":
        return "model fault marker in an implementation answer"
    rc = int(f[1])
    got = parse_state(f[2:10])
    flags = dict(x.split("=") for x in f[10:12])
    want, rcs, may = ref_recv(c["stream"], c["exptype"], c["maxlen"], c["limit"], c["st"])
    st0 = c["st"]
    if want is not None:
        if rc != 0:
            return "a well-formed message was rejected (rc=%d)" % rc
        for k in NUMS + BUFS:
            w = want[k]
            g = got[k]
            if k in BUFS and k != "addr" and w is not None and len(w) == 0:
                w = None
            if g != w:
                return "member %s after unpacking is %r, the wire says %r" % (k, g if not isinstance(g, bytes) else g.hex(), w if not isinstance(w, bytes) else w.hex())
        if flags.get("nul") != "1":
            return "a variable-length member is not NUL-terminated at its length"
        return None
    if rc == 0:
        return "a malformed message was accepted"
    if rcs is not None and rc not in rcs:
        return "wrong result code %d (expected %s)" % (rc, sorted(rcs))
    for k in NUMS + BUFS:
        if k in may:
            continue
        g, w = got[k], st0[k]
        if g != w:
            return "member %s, which this message does not carry, changed from %r to %r (write outside the destination member)" % (
                k, w if not isinstance(w, bytes) else w.hex(), g if not isinstance(g, bytes) else g.hex())
    return None


def normalize(impl, model):
    """impl answer with the locally generated diagnostic (error_len, error_str) masked where the model says L"""
    a, b = impl.split(" "), model.split(" ")
    if len(a) < 12 or len(b) < 12 or a[0] != "R":
        return impl
    nums_b = b[2].split(",")
    if nums_b[-1] == "L" and b[9] == "L":
        if a[11] != "ec=1":
            return impl + " (error_len/error_str inconsistent)"
        na = a[2].split(",")
        na[-1] = "L"
        a[2] = ",".join(na)
        a[9] = "L"
    a[11] = "ec=_"
    return " ".join(a)


def gallina_state(st):
    t = "msg0"
    for i, n in enumerate(NUMS):
        t = "(setn %s N%s %d%%N)" % (t, n, st[n])
    t = "(setb %s Baddr (Some (map n2b [%s]%%N)))" % (t, "; ".join(str(x) for x in st["addr"]))
    return t


def _run_own(ctx):
    ctx.level = "proof"
    proved = vlib.prove(ctx, ["Properties_C14.v"], facts=["msg", "msgtables"])
    ctx.log("proofs:", "ok" if proved else "BROKEN: " + getattr(ctx, "broken_obligation", "?"))
    ctx.cov["rule"] = ("proof: Properties_C14.v over MsgModel with constants, widths, sizeof(addr) and the measured addr_len "
                       "bound regenerated from m_msg.[ch]; correspondence: same case lines through /repo's m_msg.c "
                       "(m_msg_send / m_msg_recv on a socketpair, ASan+UBSan, malloc wrapped with a per-case limit) and "
                       "the extracted model, comparing result code and every struct member; cases = messages of every "
                       "type sent and received, every truncation of valid bodies, every length field set to 0/1/exact+-1/"
                       "255/2^31-1/2^31/2^32-1, every type code 0..255 with random and valid bodies, header defects, "
                       "nested headers, allocator refusals, maxlen edges, MUNGE_MAXIMUM_REQ_LEN edge; non-trivial = "
                       "every case (distinct by content)")
    oracle = vlib.build_oracle(ctx, "msg")
    R_ = vlib.REPO
    src = [os.path.join(vlib.HARNESS, "msg_harness.c")] + [os.path.join(R_, p) for p in (
        "src/libcommon/m_msg.c", "src/libcommon/fd.c", "src/libcommon/str.c", "src/libmunge/strerror.c")]
    # signed-integer-overflow is reported but not fatal: `malloc (len + 1)` in _alloc overflows at len = INT_MAX
    # (finding F-C14-alloc-intmax: undefined in ISO C, wraps with gcc, the request then fails => EMUNGE_NO_MEMORY,
    # which is what the model says); any other UBSan report is fatal or turned into a violation below
    exe, err = vlib.cc(ctx, "msgh", src, extra=["-Wl,--wrap=malloc", "-fsanitize-recover=signed-integer-overflow"],
                       libs=["-lpthread"])
    if exe is None:
        ctx.violation("message harness does not build against /repo: " + err[-500:],
                      {"obligation": "correspondence C14 (build)", "stderr": err}, found_input=False)
        return
    if oracle is None:
        ctx.violation("oracle for group msg does not build", {"obligation": "oracle build", "notes": ctx.notes[-1:]},
                      found_input=False)
        return
    cases = gen_cases(ctx)
    if ctx.replay:
        r = json.load(open(ctx.replay))
        if "case_line" in r:
            cases = [("replay", r["case_line"])]
    lines = [l for (_, l) in cases]
    dist = {}
    for k, _ in cases:
        dist[k] = dist.get(k, 0) + 1
    ctx.cov["input_distribution"] = dist
    env0 = {"ASAN_OPTIONS": "detect_leaks=1:abort_on_error=0:exitcode=99:allocator_may_return_null=1"}
    env_nl = {"ASAN_OPTIONS": "detect_leaks=0:abort_on_error=0:exitcode=99:allocator_may_return_null=1"}
    # the model first: it says where a write beyond a member is predicted
    rc2, mod, err2 = vlib.run_lines(["bash", "-c", "ulimit -s unlimited 2>/dev/null; exec " + oracle], lines, timeout=1800)
    if rc2 != 0 or len(mod) != len(lines):
        ctx.violation("oracle failed to run: rc=%d %s" % (rc2, err2[-300:]), {"obligation": "oracle run"}, found_input=False)
        return
    fault_idx = [i for i, o in enumerate(mod) if o.split(" ")[1:2] == ["F"]]
    fault_set = set(fault_idx)
    batch = [i for i in range(len(lines)) if i not in fault_set]
    ctx.log("model ran %d cases; %d predicted writes beyond a member" % (len(lines), len(fault_idx)))
    rc, impl_b, stderr = (0, [], "") if not batch else \
        vlib.run_lines([exe], [lines[i] for i in batch], timeout=1800, env=env0)
    ctx.log("implementation ran %d cases rc=%d" % (len(batch), rc))
    for l in lines:
        ctx.count(l)
    for i in (0, 1, len(lines) // 3, len(lines) // 2, len(lines) - 2):
        if 0 <= i < len(lines):
            ctx.sample(lines[i][:300])
    if rc != 0 and len(impl_b) == len(batch) and "LeakSanitizer" in stderr:
        # every case was answered; memory was lost on the way: find one case that leaks on its own
        sub = list(batch)
        while len(sub) > 1:
            half = sub[:len(sub) // 2]
            r1, _, e1 = vlib.run_lines([exe], [lines[i] for i in half], timeout=600, env=env0)
            sub = half if (r1 != 0 and "LeakSanitizer" in e1) else sub[len(sub) // 2:]
        r1, o1, e1 = vlib.run_lines([exe], [lines[sub[0]]], timeout=60, env=env0)
        found = r1 != 0 and "LeakSanitizer" in e1
        ctx.violation("m_msg.c loses memory while unpacking (LeakSanitizer): the message object does not own every block "
                      "it allocated%s" % (": case " + lines[sub[0]][:200] if found else ""),
                      {"case_line": lines[sub[0]] if found else None, "stderr": (e1 if found else stderr)[-3000:],
                       "impl_output": o1[0][:500] if o1 else ""}, found_input=found)
        return
    if rc != 0 or len(impl_b) != len(batch):
        idx = batch[min(len(impl_b), len(batch) - 1)]
        ctx.violation("m_msg.c aborts under ASan/UBSan (read outside the received buffer or write outside the message "
                      "object) at case %s" % lines[idx][:200],
                      {"case_line": lines[idx], "case_kind": cases[idx][0], "stderr": stderr[-3000:], "rc": rc,
                       "model": mod[idx]})
        return
    impl = dict(zip(batch, impl_b))
    direct_fail, mismatches = [], []
    ub = sorted(set(re.findall(r"[\w./]+:\d+:\d+: runtime error: [^\n]*", stderr)))
    ub_known = [u for u in ub if KNOWN_UB.search(u)]
    ub_other = [u for u in ub if not KNOWN_UB.search(u)]
    if ub_known:
        ctx.notes.append("F-C14-alloc-intmax reproduced (benign with gcc, not counted): " + ub_known[0])
        ctx.cov["known_ub"] = ub_known
    if ub_other:
        ctx.violation("UBSan reports undefined behaviour in the codec: " + ub_other[0],
                      {"obligation": "no undefined behaviour while unpacking", "reports": ub_other[:10]}, found_input=False)
    # cases where the faithful model predicts a write beyond a member: one process each, no destroy
    asan_seen = None
    for i in fault_idx[:60]:
        rcf, outf, errf = vlib.run_lines([exe, "nodestroy"], [lines[i]], timeout=60, env=env_nl)
        if rcf != 0 or not outf:
            m = re.search(r"(heap-buffer-overflow|stack-buffer-overflow|SEGV|runtime error)[^\n]*", errf)
            wr = re.search(r"(WRITE|READ) of size \d+", errf)
            direct_fail.append((lines[i], "(aborted)", "sanitizer: %s %s in %s" % (
                m.group(1) if m else "abort", wr.group(0) if wr else "", "_msg_unpack" if "_msg_unpack" in errf else "?"),
                errf[-2500:], cases[i][0]))
            asan_seen = asan_seen or len(direct_fail) - 1
        else:
            why = property_holds(lines[i], outf[0])
            if why:
                direct_fail.append((lines[i], outf[0], why, "", cases[i][0]))
            else:
                ctx.notes.append("predicted out-of-member write not observable on case kind %s" % cases[i][0])
    if fault_idx and not direct_fail:
        mismatches.append((lines[fault_idx[0]], "(no visible effect)", mod[fault_idx[0]]))
    for i in batch:
        why = property_holds(lines[i], impl[i])
        if why:
            direct_fail.append((lines[i], impl[i], why, "", cases[i][0]))
        a = normalize(impl[i], mod[i])
        if a != mod[i]:
            mismatches.append((lines[i], a, mod[i]))
    ctx.cov["traces_validated_against_impl"] = len(batch)
    if mismatches:
        ctx.cov["mismatch_samples"] = [(l[:600], a[:400], b[:400]) for (l, a, b) in mismatches[:5]]
    ctx.log("%d direct property failures, %d model/implementation mismatches" % (len(direct_fail), len(mismatches)))
    # extraction cross-check: a sample of receive cases evaluated inside Coq with vm_compute
    samp = [i for i in range(0, len(lines), max(1, len(lines) // 60)) if lines[i].startswith("R ") and len(lines[i]) < 3000][:40]
    exprs = []
    for i in samp:
        c = parse_case(lines[i])
        exprs.append("match fst (recv (fun z => z <=? %d)%%Z (map n2b [%s]%%N) %d%%N %d%%Z %s) with "
                     "ROk m => (0%%N, map (nv m) nl) | RErr e m => (e, map (nv m) nl) | RFault _ => (99%%N, []) end"
                     % (c["limit"], "; ".join(str(x) for x in c["stream"]), c["exptype"], c["maxlen"], gallina_state(c["st"])))
    req = ("From Coq Require Import List NArith ZArith.\nFrom MV Require Import Bytes MsgModel.\nImport ListNotations.\n"
           "Definition nl := [%s]." % "; ".join("N" + n for n in NUMS[:-1]))
    res, e3 = vlib.coq_eval_sample(ctx, req, exprs)
    if res is None or len(res) != len(samp):
        ctx.notes.append("extraction cross-check could not run: %s" % (e3 or "")[-300:])
        if proved:
            ctx.violation("vm_compute cross-check of extraction failed to run", {"obligation": "extraction cross-check", "err": (e3 or "")[-800:]}, found_input=False)
    else:
        bad = 0
        for i, r in zip(samp, res):
            nums = [int(x) for x in re.findall(r"\d+", r)]
            m = mod[i].split(" ")
            if m[1] == "F":
                ok = nums[:1] == [99]
            else:
                want = [int(m[1])] + [int(x) for x in m[2].split(",")[:-1]]
                ok = nums == want
            bad += 0 if ok else 1
            if not ok:
                ctx.notes.append("cross-check disagreement: case %s coq=%s oracle=%s" % (lines[i][:300], r[:300], mod[i][:300]))
        ctx.cov["extraction_crosscheck"] = {"cases": len(samp), "disagreements": bad}
        if bad:
            ctx.violation("extracted oracle disagrees with vm_compute on %d sample cases" % bad,
                          {"obligation": "extraction cross-check"}, found_input=False)
    # verdict
    if direct_fail:
        k = asan_seen if asan_seen is not None else 0
        for j, x in enumerate(direct_fail):         # prefer the documented replay when it is among the failures
            if x[4] == "d2-replay" and x[3]:
                k = j
                break
        l, o, why, errtxt, kind = direct_fail[k]
        rep = {"case_line": l, "case_kind": kind, "impl_output": o[:2000], "why": why, "n_failing": len(direct_fail),
               "more": [(x[0][:400], x[1][:300], x[2]) for x in direct_fail[:6] if x[0] != l][:5]}
        if errtxt:
            rep["stderr"] = errtxt
        c = parse_case(l)
        d2 = is_d2(c)
        if d2:
            rep["finding_key"] = "D2-addr-len-unbounded"
            rep["explanation"] = ("DEC_RSP body with addr_len = %d > sizeof (m->addr) = 4: _msg_unpack copies addr_len bytes "
                                      "into the 4-byte member (m_msg.c, DEC_RSP case, the _copy into &m->addr has no bound "
                                      "check, defect D2); the repair is the line `else if (m->addr_len > sizeof (m->addr)) ;` "
                                      "in front of that copy (reverse patch: seeded/fixes/D2-reverted.diff); Coq: "
                                      "C14_addr_unguarded_refuted, C14_any_larger_bound_refuted" % d2)
        ctx.violation("%s: case %s -> %s (%d failing cases)" % (why, l[:160], o[:160], len(direct_fail)), rep)
    elif mismatches:
        l, a, b = mismatches[0]
        ctx.violation("model and implementation disagree on %d cases (first: %s impl=%s model=%s) but the property "
                      "evaluated directly on the implementation holds on all %d cases"
                      % (len(mismatches), l[:200], a[:200], b[:200], len(lines)),
                      {"obligation": "correspondence MsgModel ~ m_msg.c", "case_line": l, "impl": a, "model": b,
                       "n_mismatches": len(mismatches)}, found_input=False)
    elif not proved:
        ctx.violation("proof obligation no longer checks: %s" % getattr(ctx, "broken_obligation", "?"),
                      {"obligation": getattr(ctx, "broken_obligation", "?"), "log": ctx.proof_log[-3000:]},
                      found_input=False)


def is_d2(c):
    """addr_len of a DEC_RSP stream when it exceeds the member and the copy is reached, else 0"""
    if c["op"] != "R" or len(c["stream"]) < HDR or c["stream"][5] != 5:
        return 0
    body = c["stream"][HDR:]
    try:
        p = 2 + body[1]
        p += 3
        p += 1 + body[p]
        p += 4
        return body[p] if body[p] > ADDR_CAP else 0
    except IndexError:
        return 0


def run(ctx):
    """the property's own check, then the component check of the socket I/O loops (fd.c) that every request and reply of
    this property goes through: Properties_FD.v + correspondence FdModel ~ /repo's fd.c (tools/props/fd_common.py)"""
    _run_own(ctx)
    from props import fd_common
    fd_common.fd_phase(ctx)
